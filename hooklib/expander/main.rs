//! Native expander (R in DESIGN.md): runs the real derive-ex entry points in-process.
//!
//! Protocol (stdin): records terminated by 0x1e, fields separated by 0x1f:
//!     mode 0x1f attr 0x1f item 0x1e        mode = "attr" | "derive" | "parse" (parse: only says whether `item` parses as items)
//! Output (stdout): one JSON object per record, one per line.
//!
//! It never decides anything: it is used to replay solver counterexamples, to validate the MIR
//! encoder against the real macro, and to tell generators which inputs the macro accepts.

use proc_macro2::TokenStream;
use quote::ToTokens;
use std::io::{Read, Write};
use std::panic::{catch_unwind, AssertUnwindSafe};
use std::str::FromStr;

fn esc(s: &str) -> String {
    let mut o = String::with_capacity(s.len() + 2);
    o.push('"');
    for c in s.chars() {
        match c {
            '"' => o.push_str("\\\""),
            '\\' => o.push_str("\\\\"),
            '\n' => o.push_str("\\n"),
            '\r' => o.push_str("\\r"),
            '\t' => o.push_str("\\t"),
            c if (c as u32) < 0x20 => o.push_str(&format!("\\u{:04x}", c as u32)),
            c => o.push(c),
        }
    }
    o.push('"');
    o
}
fn arr(v: &[String]) -> String {
    format!("[{}]", v.join(","))
}
fn ts<T: ToTokens>(t: &T) -> String {
    t.to_token_stream().to_string()
}

fn compile_error_msg(m: &syn::Macro) -> Option<String> {
    let last = m.path.segments.last()?;
    if last.ident != "compile_error" {
        return None;
    }
    let lit: syn::LitStr = syn::parse2(m.tokens.clone()).ok()?;
    Some(lit.value())
}

fn describe_item(item: &syn::Item) -> String {
    match item {
        syn::Item::Impl(i) => {
            let trait_ = i.trait_.as_ref().map(|t| ts(&t.1)).unwrap_or_default();
            let preds: Vec<String> = i
                .generics
                .where_clause
                .as_ref()
                .map(|w| w.predicates.iter().map(|p| esc(&ts(p))).collect())
                .unwrap_or_default();
            let params: Vec<String> = i.generics.params.iter().map(|p| esc(&ts(p))).collect();
            let attrs: Vec<String> = i.attrs.iter().map(|a| esc(&ts(a))).collect();
            let mut fns = Vec::new();
            let mut assoc = Vec::new();
            for it in &i.items {
                match it {
                    syn::ImplItem::Fn(f) => fns.push(format!(
                        "{{\"name\":{},\"sig\":{},\"body\":{}}}",
                        esc(&f.sig.ident.to_string()),
                        esc(&ts(&f.sig)),
                        esc(&ts(&f.block))
                    )),
                    syn::ImplItem::Type(t) => assoc.push(format!(
                        "{{\"name\":{},\"ty\":{}}}",
                        esc(&t.ident.to_string()),
                        esc(&ts(&t.ty))
                    )),
                    _ => {}
                }
            }
            format!(
                "{{\"kind\":\"impl\",\"trait\":{},\"self_ty\":{},\"params\":{},\"where\":{},\"attrs\":{},\"fns\":{},\"types\":{},\"text\":{}}}",
                esc(&trait_),
                esc(&ts(&i.self_ty)),
                arr(&params),
                arr(&preds),
                arr(&attrs),
                arr(&fns),
                arr(&assoc),
                esc(&ts(i))
            )
        }
        syn::Item::Macro(m) => match compile_error_msg(&m.mac) {
            Some(msg) => format!("{{\"kind\":\"compile_error\",\"msg\":{}}}", esc(&msg)),
            None => format!("{{\"kind\":\"macro\",\"text\":{}}}", esc(&ts(m))),
        },
        syn::Item::Struct(s) => format!(
            "{{\"kind\":\"struct\",\"ident\":{},\"text\":{}}}",
            esc(&s.ident.to_string()),
            esc(&ts(s))
        ),
        syn::Item::Enum(s) => format!(
            "{{\"kind\":\"enum\",\"ident\":{},\"text\":{}}}",
            esc(&s.ident.to_string()),
            esc(&ts(s))
        ),
        syn::Item::Const(c) => format!("{{\"kind\":\"const\",\"text\":{}}}", esc(&ts(c))),
        other => format!("{{\"kind\":\"other\",\"text\":{}}}", esc(&ts(other))),
    }
}

fn handle(mode: &str, attr: &str, item: &str) -> String {
    let attr_ts = match TokenStream::from_str(attr) {
        Ok(t) => t,
        Err(e) => return format!("{{\"lex_error\":{}}}", esc(&format!("attr: {e}"))),
    };
    let item_ts = match TokenStream::from_str(item) {
        Ok(t) => t,
        Err(e) => return format!("{{\"lex_error\":{}}}", esc(&format!("item: {e}"))),
    };
    if mode == "parse" {
        // no expansion: is the item itself a sequence of syntactically valid items (as syn sees them)?
        return match syn::parse2::<syn::File>(item_ts) {
            Ok(_) => "{\"parse_ok\":true}".to_string(),
            Err(e) => format!("{{\"parse_ok\":false,\"parse_error\":{}}}", esc(&e.to_string())),
        };
    }
    let r = catch_unwind(AssertUnwindSafe(|| match mode {
        "attr" => derive_ex_hooked::verif_hooks::expand_attr(attr_ts, item_ts),
        _ => derive_ex_hooked::verif_hooks::expand_derive(item_ts),
    }));
    let out = match r {
        Ok(o) => o,
        Err(p) => {
            let msg = if let Some(s) = p.downcast_ref::<String>() {
                s.clone()
            } else if let Some(s) = p.downcast_ref::<&str>() {
                s.to_string()
            } else {
                "<non-string panic>".into()
            };
            return format!("{{\"panic\":{}}}", esc(&msg));
        }
    };
    let text = out.to_string();
    match syn::parse2::<syn::File>(out) {
        Ok(f) => {
            let items: Vec<String> = f.items.iter().map(describe_item).collect();
            format!(
                "{{\"parse_ok\":true,\"out\":{},\"items\":{}}}",
                esc(&text),
                arr(&items)
            )
        }
        Err(e) => format!(
            "{{\"parse_ok\":false,\"out\":{},\"parse_error\":{}}}",
            esc(&text),
            esc(&e.to_string())
        ),
    }
}

fn main() {
    // panics inside the macro are reported in the JSON, keep stderr quiet
    std::panic::set_hook(Box::new(|_| {}));
    let mut input = String::new();
    std::io::stdin().read_to_string(&mut input).unwrap();
    let stdout = std::io::stdout();
    let mut w = std::io::BufWriter::new(stdout.lock());
    for rec in input.split('\u{1e}') {
        if rec.trim().is_empty() {
            continue;
        }
        let mut it = rec.splitn(3, '\u{1f}');
        let mode = it.next().unwrap_or("").trim();
        let attr = it.next().unwrap_or("");
        let item = it.next().unwrap_or("");
        writeln!(w, "{}", handle(mode, attr, item)).unwrap();
    }
}
