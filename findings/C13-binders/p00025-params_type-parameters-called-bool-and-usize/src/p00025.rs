// C13 program p00025: type parameters called bool / usize (the generated signatures say `-> bool` and `-> usize`; the standard derives accept such types)
use crate::support::*;
use core::cmp::Ordering;
use core::hash::{Hash, Hasher};
#[allow(unused_imports)]
use derive_ex::{derive_ex, Ex};

pub mod scope {
    #![allow(unused_imports, non_camel_case_types)]
    use crate::support::hostile::*;
    use derive_ex::{derive_ex, Ex};
    use crate::support::{Evil, R, W, F, M};
    #[derive_ex(Clone, PartialEq, Eq, PartialOrd, Ord, Hash)]
    pub struct P1<bool, usize> { pub a: bool, #[ord(reverse)] pub b: usize }
    #[derive_ex(Clone, PartialEq, Eq, PartialOrd, Ord, Hash)]
    pub enum P2<usize, bool> { A(usize), B(bool), C }
}
use scope::*;

fn lex(a: &[u8], b: &[u8]) -> Ordering {
    let mut i = 0;
    while i < a.len() {
        if a[i] != b[i] {
            return a[i].cmp(&b[i]);
        }
        i += 1;
    }
    Ordering::Equal
}

pub fn check<S: Src>(s: &mut S) {
    let (a, b, c, d) = (s.u8(), s.u8(), s.u8(), s.u8());
    let (x, y) = (P1::<u8, u8> { a, b }, P1::<u8, u8> { a: c, b: d });
    let e = lex(&[a, 255 - b], &[c, 255 - d]);
    assert!((x == y) == (e == Ordering::Equal) && x.partial_cmp(&y) == Some(e) && x.cmp(&y) == e, "struct-with-type-parameters-called-bool-usize");
    let mk = |s: &mut S, v: u8| match s.u8() % 3 { 0 => P2::<u8, u8>::A(v), 1 => P2::B(v), _ => P2::C };
    let (p, q) = (mk(s, a), mk(s, b));
    let k = |v: &P2<u8, u8>| match v { P2::A(a) => [0, *a], P2::B(a) => [1, *a], P2::C => [2, 0] };
    let e2 = lex(&k(&p), &k(&q));
    assert!((p == q) == (e2 == Ordering::Equal) && p.partial_cmp(&q) == Some(e2) && p.cmp(&q) == e2, "enum-with-type-parameters-called-usize-bool");
}

#[cfg(kani)]
#[kani::proof]
#[kani::unwind(18)]
pub fn h() {
    check(&mut KaniSrc);
    cover!(true, "end-reached");
}
