// C13 program p00024: enum fields called _f / f / _self / l / r and constants in scope spelled like the bindings of the generated match arms (l_0, r_0, _0, _self_0, _other_x, ...)
use crate::support::*;
use core::cmp::Ordering;
use core::hash::{Hash, Hasher};
#[allow(unused_imports)]
use derive_ex::{derive_ex, Ex};

pub mod scope {
    #![allow(unused_imports, non_camel_case_types)]
    use crate::support::hostile::*;
    use derive_ex::{derive_ex, Ex};
    use crate::support::{Evil, R, W, F, M};
    pub const l_0: u8 = 0;
    pub const r_0: u8 = 0;
    pub const _0: u8 = 0;
    pub const _self_0: u8 = 0;
    pub const _other_0: u8 = 0;
    pub const _this_0: u8 = 0;
    pub const l_x: u8 = 0;
    pub const r_x: u8 = 0;
    pub const _x: u8 = 0;
    pub const _self_x: u8 = 0;
    pub const _other_x: u8 = 0;
    pub const _this_x: u8 = 0;
    #[derive_ex(Clone, PartialEq, Eq, PartialOrd, Ord, Hash)]
    pub enum B1 { A(u8), B { x: u8 }, C }
    #[derive_ex(Debug)]
    pub enum B2 { V { _f: F, f: F }, W(F) }
    #[derive_ex(Clone, PartialEq, PartialOrd, Hash)]
    pub enum B3 { V { _f: u8, f: u8, _self: u8, _other: u8, l: u8, r: u8 }, W(u8) }
    pub mod twin {
        use crate::support::F;
        #[derive(Debug)]
        pub enum B2 { V { _f: F, f: F }, W(F) }
    }
}
use scope::*;

fn lex(a: &[u8], b: &[u8]) -> Ordering {
    let mut i = 0;
    while i < a.len() {
        if a[i] != b[i] {
            return a[i].cmp(&b[i]);
        }
        i += 1;
    }
    Ordering::Equal
}

fn k1(v: &B1) -> [u8; 2] { match v { B1::A(a) => [0, *a], B1::B { x } => [1, *x], B1::C => [2, 0] } }
pub fn check<S: Src>(s: &mut S) {
    use ::core::fmt::Write;
    let (a, b) = (s.u8(), s.u8());
    let mk = |s: &mut S, v: u8| match s.u8() % 3 { 0 => B1::A(v), 1 => B1::B { x: v }, _ => B1::C };
    let (p, q) = (mk(s, a), mk(s, b));
    let e = lex(&k1(&p), &k1(&q));
    assert!((p == q) == (e == Ordering::Equal) && p.partial_cmp(&q) == Some(e) && p.cmp(&q) == e, "cmp-with-consts-named-like-bindings");
    let c = p.clone();
    assert!(k1(&c) == k1(&p), "clone-with-consts-named-like-bindings");
    let mut w = q.clone();
    w.clone_from(&p);
    assert!(k1(&w) == k1(&p), "clone_from-with-consts-named-like-bindings");
    let mut h = Rec::new();
    Hash::hash(&p, &mut h);
    assert!(h.len == if matches!(p, B1::C) { 0 } else { 1 } && (matches!(p, B1::C) || h.buf[0] == a), "hash-with-consts-named-like-bindings");
    let (x, y) = if s.bool() { (B2::V { _f: F(a), f: F(b) }, twin::B2::V { _f: F(a), f: F(b) }) } else { (B2::W(F(a)), twin::B2::W(F(a))) };
    let mut k1 = Sink::new();
    let mut k2 = Sink::new();
    let _ = write!(k1, "{:?}", x);
    let _ = write!(k2, "{:?}", y);
    assert!(k1.same(&k2), "debug-with-field-named-_f");
    let z = B3::V { _f: a, f: b, _self: a, _other: b, l: a, r: b };
    let z2 = B3::V { _f: a, f: b, _self: a, _other: s.u8(), l: a, r: b };
    assert!(z.clone() == z && (z == z2) == matches!(z2, B3::V { _other, .. } if _other == b) && z.partial_cmp(&z2).is_some(), "clone-eq-with-fields-named-like-prefixes");
}

#[cfg(kani)]
#[kani::proof]
#[kani::unwind(66)]
pub fn h() {
    check(&mut KaniSrc);
    cover!(true, "end-reached");
}
