// C12 program p00044: shape=unsized-tail-named traits=Debug flavour=debug
use crate::support::*;
use core::cmp::Ordering;
use core::hash::{Hash, Hasher};
#[allow(unused_imports)]
use derive_ex::{derive_ex, Ex};

#[derive_ex(Debug)]
pub struct T<A: ?Sized> { pub a: F, pub b: A }

pub mod twin {
    use crate::support::*;
    #[derive(Debug)]
    pub struct T<A: ?Sized> { pub a: F, pub b: A }
}

pub fn check<S: Src>(s: &mut S) {
    let (x0, y0) = (T { a: F(s.u8()), b: [F(s.u8()), F(s.u8())] }, T { a: F(s.u8()), b: [F(s.u8()), F(s.u8())] });
    let (tx0, ty0) = (twin::T { a: x0.a, b: x0.b }, twin::T { a: y0.a, b: y0.b });
    // unsizing coercions: the values compared below have an unsized last field
    let (x, y): (&T<[F]>, &T<[F]>) = (&x0, &y0);
    let (tx, ty): (&twin::T<[F]>, &twin::T<[F]>) = (&tx0, &ty0);
    use core::fmt::Write;
    let mut s1 = Sink::new();
    let mut s2 = Sink::new();
    let _ = write!(s1, "{:?}", x);
    let _ = write!(s2, "{:?}", tx);
    let _ = (y, ty);
    assert!(!s1.overflow && s2.len > 0, "harness-sink-capacity");
    assert!(s1.same(&s2), "debug-output");
}

#[cfg(kani)]
#[kani::proof]
#[kani::unwind(66)]
pub fn h() {
    check(&mut KaniSrc);
    cover!(true, "end-reached");
}
