// C12 program p00028: shape=enum-empty traits=Clone+PartialEq+Eq+PartialOrd+Ord+Hash flavour=values
use crate::support::*;
use core::cmp::Ordering;
use core::hash::{Hash, Hasher};
#[allow(unused_imports)]
use derive_ex::{derive_ex, Ex};

static REFS: [u8; 2] = [3, 200];
#[derive_ex(Clone, PartialEq, Eq, PartialOrd, Ord, Hash)]
pub enum T {

}

pub mod twin {
    use crate::support::*;
    #[derive(Clone, PartialEq, Eq, PartialOrd, Ord, Hash)]
    pub enum T {
    
    }
}

pub fn mk<S: Src>(s: &mut S) -> T { loop { vassume(false); } }
pub fn tw(x: &T) -> twin::T { match *x {} }
pub fn check<S: Src>(s: &mut S) {
    let x = mk(s);
    let _ = tw(&x);
}

#[cfg(kani)]
#[kani::proof]
#[kani::unwind(18)]
pub fn h() {
    check(&mut KaniSrc);
    cover!(true, "end-reached");
}
