// C13 program p00015: tuple structs and const parameters called rhs / other / this / source / f / state / o (the standard derives accept them)
use crate::support::*;
use core::cmp::Ordering;
use core::hash::{Hash, Hasher};
#[allow(unused_imports)]
use derive_ex::{derive_ex, Ex};

pub mod scope {
    #![allow(unused_imports, non_camel_case_types)]
    use crate::support::hostile::*;
    use derive_ex::{derive_ex, Ex};
    use crate::support::{Evil, R, W, F, M};
    #[derive_ex(Add, AddAssign, Sub)]
    pub struct rhs(pub W, pub W);
    #[derive_ex(Clone, PartialEq, Eq, PartialOrd, Ord, Hash, Debug, Default)]
    pub struct other(pub u8, #[ord(reverse)] pub u8);
    #[derive_ex(Clone, PartialEq, PartialOrd, Hash, Debug)]
    pub struct this(#[ord(by = crate::support::by_ord::<1, u8>)] #[partial_ord(by = crate::support::by_po_total::<1, u8>)] #[hash(key = crate::support::kk::<1, _>(&$))] pub u8);
    #[derive_ex(Clone, PartialEq, Debug)]
    pub struct source(pub R);
    #[derive_ex(Clone, Debug, Hash, PartialEq)]
    pub struct f(pub u8);
    #[derive_ex(Hash, PartialEq, Debug, Clone)]
    pub struct state(pub u8);
    #[derive_ex(Clone, PartialEq, Eq, PartialOrd, Ord, Hash, Debug)]
    pub enum o { o(u8), to_index(u8), lhs }
}
use scope::*;

fn lex(a: &[u8], b: &[u8]) -> Ordering {
    let mut i = 0;
    while i < a.len() {
        if a[i] != b[i] {
            return a[i].cmp(&b[i]);
        }
        i += 1;
    }
    Ordering::Equal
}

pub fn check<S: Src>(s: &mut S) {
    let (a, b, c, d) = (s.u8(), s.u8(), s.u8(), s.u8());
    let r = rhs(W(a), W(b)) + rhs(W(c), W(d));
    assert!((r.0).0 == wop(1, a, c) && (r.1).0 == wop(1, b, d), "add-on-type-named-rhs");
    let (x, y) = (other(a, b), other(c, d));
    let e = lex(&[a, 255 - b], &[c, 255 - d]);
    assert!((x == y) == (e == Ordering::Equal) && x.partial_cmp(&y) == Some(e) && x.cmp(&y) == e, "cmp-on-type-named-other");
    let (p, q) = (this(a), this(c));
    assert!((p == q) == (a >> 1 == c >> 1) && p.partial_cmp(&q) == Some((a >> 1).cmp(&(c >> 1))), "by-on-type-named-this");
    let mut h = Rec::new();
    Hash::hash(&p, &mut h);
    assert!(h.len == 1 && h.buf[0] == a >> 1, "hash-on-type-named-this");
    let mut z = source(R(a));
    z.clone_from(&source(R(b)));
    assert!((z.0).0 == b, "clone_from-on-type-named-source");
    let mut h2 = Rec::new();
    Hash::hash(&state(a), &mut h2);
    assert!(h2.len == 1 && h2.buf[0] == a, "hash-on-type-named-state");
    let (u, v) = (if s.bool() { o::o(a) } else { o::lhs }, o::to_index(b));
    assert!(u.cmp(&v) == (if matches!(u, o::o(_)) { Ordering::Less } else { Ordering::Greater }) && u != v, "enum-named-o");
}

#[cfg(kani)]
#[kani::proof]
#[kani::unwind(18)]
pub fn h() {
    check(&mut KaniSrc);
    cover!(true, "end-reached");
}
