// C10 program p00012: shape=raw-ident ignored=[] transparent=None spec={:?} entry=attr generic=False nested=False list=Debug
use crate::support::*;
use core::cmp::Ordering;
use core::hash::{Hash, Hasher};
#[allow(unused_imports)]
use derive_ex::{derive_ex, Ex};

#[derive_ex(Debug)]
pub struct T { pub r#type: F, pub b: F }

pub mod twin {
    use crate::support::*;
    
    #[derive(Debug)]
    pub struct T { pub r#type: F, pub b: F }
}

pub fn check<S: Src>(s: &mut S) {
    use core::fmt::Write;
    let v0 = F(s.u8());
    let v1 = F(s.u8());
    let mut s1 = Sink::new();
    let mut s2 = Sink::new();
    let x = T { r#type: v0, b: v1 }; let _ = write!(s1, "{:?}", x); let y = twin::T { r#type: v0, b: v1 }; let _ = write!(s2, "{:?}", y);
    assert!(!s1.overflow && !s2.overflow && s2.len > 0, "harness-sink-capacity");
    assert!(s1.same(&s2), "debug-output");
}

#[cfg(kani)]
#[kani::proof]
#[kani::unwind(66)]
pub fn h() {
    check(&mut KaniSrc);
    cover!(true, "end-reached");
}
