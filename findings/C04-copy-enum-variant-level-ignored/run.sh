#!/bin/sh
# Native replay: expands the item of case.json through the real macro (hook library) and compares the
# observed fact with the reference value recorded in the case. exit 0 = the violation reproduces.
cd "$(dirname "$0")/../../.." && exec python3-vt -m vlib.replay_e3 "replays/C04/case004/case.json"
