#![allow(dead_code, unused_imports, unused_variables, unused_mut, non_camel_case_types, non_snake_case, non_upper_case_globals, unused_parens, unreachable_patterns, clippy::all)]
#![cfg_attr(kani, feature(formatting_options))]
mod support;
mod p00027;

fn main() { /* this program does not compile against the current macro */ }
