// C13 program p00027: user functions called _f and _eq used inside eq(key = ..) expressions, a unit struct called _this in scope (the Eq assertion may not capture them)
use crate::support::*;
use core::cmp::Ordering;
use core::hash::{Hash, Hasher};
#[allow(unused_imports)]
use derive_ex::{derive_ex, Ex};

pub mod scope {
    #![allow(unused_imports, non_camel_case_types)]
    use crate::support::hostile::*;
    use derive_ex::{derive_ex, Ex};
    use crate::support::{Evil, R, W, F, M};
    #[allow(dead_code)]
    pub struct _this;
    pub fn _f(v: &u8) -> u8 { *v >> 1 }
    pub fn _eq(v: &u8) -> u8 { *v >> 2 }
    #[derive_ex(PartialEq, Eq)]
    pub struct Q1 { #[eq(key = _f(&$))] pub a: u8, #[eq(key = _eq(&$))] pub b: u8, pub c: u8 }
    #[derive_ex(PartialEq, Eq)]
    pub enum Q2 { A(#[eq(key = _eq(&$))] u8, u8), B { x: u8 }, C }
}
use scope::*;

pub fn check<S: Src>(s: &mut S) {
    let (a, b, c, d, e, f) = (s.u8(), s.u8(), s.u8(), s.u8(), s.u8(), s.u8());
    assert!((Q1 { a, b, c } == Q1 { a: d, b: e, c: f }) == (a >> 1 == d >> 1 && b >> 2 == e >> 2 && c == f), "struct-eq-with-functions-called-_f-_eq");
    assert!((Q2::A(a, b) == Q2::A(c, d)) == (a >> 2 == c >> 2 && b == d) && Q2::B { x: a } != Q2::C, "enum-eq-with-functions-called-_eq");
}

#[cfg(kani)]
#[kani::proof]
#[kani::unwind(18)]
pub fn h() {
    check(&mut KaniSrc);
    cover!(true, "end-reached");
}
