#!/bin/sh
# Native replay of a counterexample against the real macro in /repo (dev and release profile).
# exit 0 = the violation reproduces; 1 = it does not.
cd "$(dirname "$0")"
T=$(mktemp -d)
trap 'rm -rf "$T"' EXIT
export CARGO_NET_OFFLINE=true
rc=1
for prof in "" "--release"; do
  CARGO_TARGET_DIR="${VERIF_REPLAY_TARGET:-$T}" cargo run --offline -q $prof 2>"$T/err"; c=$?
  tail -5 "$T/err"
  if [ $c -ne 0 ] && [ $c -ne 3 ]; then rc=0; echo "REPRODUCED (profile '${prof:-dev}', exit $c)"; else echo "not reproduced (profile '${prof:-dev}', exit $c)"; fi
done
exit $rc
