#!/bin/sh
# Native replay: expands the input of case.json through the real macro (hook library) in fresh processes. exit 0 = the violation reproduces.
cd "$(dirname "$0")/../../.." && exec python3-vt -m vlib.c16 --replay "replays/C16/native02/case.json"
