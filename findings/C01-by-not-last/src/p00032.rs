// C01 program p00032: shape=e_mixed attrs=ord(by)@2 traits=Ord+PartialOrd+Eq+PartialEq entry=attr
use crate::support::*;
use core::cmp::Ordering;
use core::hash::{Hash, Hasher};
#[allow(unused_imports)]
use derive_ex::{derive_ex, Ex};

#[derive_ex(Ord, PartialOrd, Eq, PartialEq)]
pub enum T {
    A,
    B(
         u8,
         i8,
    ),
    C {
        #[ord(by = by_ord::<1, u8>)] a: u8,
         b: u8,
    },
}



fn vidx(x: &T) -> usize {
    match x {
        T::A => 0,
        T::B(..) => 1,
        T::C { .. } => 2,
    }
}

#[allow(unreachable_code)]
pub fn ref_eq(x: &T, y: &T) -> bool {
    match (x, y) {
        (T::A, T::A) => {

            true
        }
        (T::B(a0, a1), T::B(b0, b1)) => {
            if !((*a0) == (*b0)) { return false; }
            if !((*a1) == (*b1)) { return false; }
            true
        }
        (T::C { a: a0, b: a1 }, T::C { a: b0, b: b1 }) => {
            if !(by_ord::<1, u8>(&(*a0), &(*b0)) == Ordering::Equal) { return false; }
            if !((*a1) == (*b1)) { return false; }
            true
        }
        _ => false,
    }
}

#[allow(unreachable_code)]
pub fn ref_pcmp(x: &T, y: &T) -> Option<Ordering> {
    match (x, y) {
        (T::A, T::A) => {

            Some(Ordering::Equal)
        }
        (T::B(a0, a1), T::B(b0, b1)) => {
            let c = PartialOrd::partial_cmp(&(*a0), &(*b0)); if c != Some(Ordering::Equal) { return c; }
            let c = PartialOrd::partial_cmp(&(*a1), &(*b1)); if c != Some(Ordering::Equal) { return c; }
            Some(Ordering::Equal)
        }
        (T::C { a: a0, b: a1 }, T::C { a: b0, b: b1 }) => {
            let c = Some(by_ord::<1, u8>(&(*a0), &(*b0))); if c != Some(Ordering::Equal) { return c; }
            let c = PartialOrd::partial_cmp(&(*a1), &(*b1)); if c != Some(Ordering::Equal) { return c; }
            Some(Ordering::Equal)
        }
        _ => Some(vidx(x).cmp(&vidx(y))),
    }
}

#[allow(unreachable_code)]
pub fn ref_cmp(x: &T, y: &T) -> Ordering {
    match (x, y) {
        (T::A, T::A) => {

            Ordering::Equal
        }
        (T::B(a0, a1), T::B(b0, b1)) => {
            let c = Ord::cmp(&(*a0), &(*b0)); if c != Ordering::Equal { return c; }
            let c = Ord::cmp(&(*a1), &(*b1)); if c != Ordering::Equal { return c; }
            Ordering::Equal
        }
        (T::C { a: a0, b: a1 }, T::C { a: b0, b: b1 }) => {
            let c = by_ord::<1, u8>(&(*a0), &(*b0)); if c != Ordering::Equal { return c; }
            let c = Ord::cmp(&(*a1), &(*b1)); if c != Ordering::Equal { return c; }
            Ordering::Equal
        }
        _ => vidx(x).cmp(&vidx(y)),
    }
}

pub fn mk<S: Src>(s: &mut S) -> T {
    match s.below(3) {
        0 => T::A,
        1 => T::B(Gen::gen(s), Gen::gen(s)),
        2 => T::C { a: Gen::gen(s), b: Gen::gen(s) },
        _ => loop { vassume(false); },
    }
}

pub fn check<S: Src>(s: &mut S) {
    let x = mk(s);
    let y = mk(s);
    let r_eq = ref_eq(&x, &y);
    cover!(r_eq, "eq-true");
    cover!(!r_eq, "eq-false");
    assert!((x == y) == r_eq, "eq");
    assert!((x != y) == !r_eq, "ne");
    let r_pc = ref_pcmp(&x, &y);
    cover!(r_pc == Some(Ordering::Equal), "pcmp-equal");
    cover!(r_pc == Some(Ordering::Less), "pcmp-less");
    cover!(r_pc == Some(Ordering::Greater), "pcmp-greater");
    assert!(x.partial_cmp(&y) == r_pc, "partial_cmp");
    let r_c = ref_cmp(&x, &y);
    cover!(r_c == Ordering::Equal, "cmp-equal");
    cover!(r_c == Ordering::Less, "cmp-less");
    cover!(r_c == Ordering::Greater, "cmp-greater");
    assert!(x.cmp(&y) == r_c, "cmp");
}

#[cfg(kani)]
#[kani::proof]
pub fn h() {
    check(&mut KaniSrc)
}
