// C13 program p00000: comparison traits on a struct whose fields are called ('this', 'other', 'o'), inherent-method field type, shadowed prelude
use crate::support::*;
use core::cmp::Ordering;
use core::hash::{Hash, Hasher};
#[allow(unused_imports)]
use derive_ex::{derive_ex, Ex};

pub mod scope {
    #![allow(unused_imports, non_camel_case_types)]
    use crate::support::hostile::*;
    use derive_ex::{derive_ex, Ex};
    use crate::support::{Evil, R, W, F, M};
    #[derive_ex(PartialEq, Eq, PartialOrd, Ord, Hash)]
    pub struct T { pub this: Evil, #[ord(key = crate::support::kk::<1, _>(&$))] pub other: Evil, pub o: Evil }
}
use scope::*;

fn lex(a: &[u8], b: &[u8]) -> Ordering {
    let mut i = 0;
    while i < a.len() {
        if a[i] != b[i] {
            return a[i].cmp(&b[i]);
        }
        i += 1;
    }
    Ordering::Equal
}

pub fn check<S: Src>(s: &mut S) {
    let (x0, x1, x2, y0, y1, y2) = (s.u8(), s.u8(), s.u8(), s.u8(), s.u8(), s.u8());
    let x = T { this: Evil(x0), other: Evil(x1), o: Evil(x2) };
    let y = T { this: Evil(y0), other: Evil(y1), o: Evil(y2) };
    let r = lex(&[x0, x1 >> 1, x2], &[y0, y1 >> 1, y2]);
    cover!(r == Ordering::Less, "less");
    cover!(r == Ordering::Equal, "equal");
    assert!((x == y) == (r == Ordering::Equal), "eq");
    assert!(x.partial_cmp(&y) == Some(r), "partial_cmp");
    assert!(x.cmp(&y) == r, "cmp");
    let mut h = Rec::new();
    Hash::hash(&x, &mut h);
    assert!(h.len == 3 && h.buf[0] == x0 && h.buf[1] == x1 >> 1 && h.buf[2] == x2, "hash-feed");
}

#[cfg(kani)]
#[kani::proof]
#[kani::unwind(18)]
pub fn h() {
    check(&mut KaniSrc);
    cover!(true, "end-reached");
}
