#!/usr/bin/env python3
"""Port the recorded seeded changes over a new fix: commit in /repo (each patch.diff is rewritten against /repo's HEAD).

usage: tools/seed_port.py <base commit the patches apply to>
For every seeded/<name>/patch.diff that no longer applies to HEAD: scratch worktree at <base>, apply, commit, cherry-pick <base>..HEAD (3-way), diff against HEAD.
A patch that conflicts is listed and left alone (port it by hand).
"""
import glob
import json
import os
import shutil
import subprocess
import sys
import tempfile

VERIF = os.path.dirname(os.path.dirname(os.path.abspath(__file__)))


def sh(cmd, cwd=None):
    r = subprocess.run(cmd, shell=True, cwd=cwd, stdout=subprocess.PIPE, stderr=subprocess.STDOUT, text=True)
    return r.returncode, r.stdout


def main():
    base = sys.argv[1]
    head = sh("git -C /repo rev-parse HEAD")[1].strip()
    wt = tempfile.mkdtemp(prefix="portwt-", dir="/tmp")
    os.rmdir(wt)
    assert sh("git -C /repo worktree add -q --detach %s HEAD" % wt)[0] == 0
    ok, ported, failed = 0, [], []
    try:
        for d in sorted(glob.glob(os.path.join(VERIF, "seeded", "*"))):
            p = os.path.join(d, "patch.diff")
            if not os.path.exists(p):
                continue
            sh("git cherry-pick --abort; git checkout -q --detach %s && git reset -q --hard && git clean -fdq" % head, cwd=wt)
            if sh("git apply --check %s" % p, cwd=wt)[0] == 0:
                ok += 1
                continue
            sh("git checkout -q --detach %s" % base, cwd=wt)
            rc, out = sh("git apply %s && git -c user.name=v -c user.email=v@v commit -qam seed && git -c user.name=v -c user.email=v@v cherry-pick %s..%s" % (p, base, head), cwd=wt)
            if rc != 0:
                failed.append(os.path.basename(d))
                continue
            rc, diff = sh("git diff %s -- derive-ex" % head, cwd=wt)
            shutil.copy(p, os.path.join(d, "patch.before-%s.diff" % head[:7]))
            open(p, "w").write(diff)
            mp = os.path.join(d, "meta.json")
            if os.path.exists(mp):
                m = json.load(open(mp))
                m.setdefault("ported_over", []).append(head[:7])
                json.dump(m, open(mp, "w"), indent=1)
            ported.append(os.path.basename(d))
    finally:
        sh("git -C /repo worktree remove --force %s" % wt)
        shutil.rmtree(wt, ignore_errors=True)
    print("apply as they are: %d; ported: %d; conflicts: %d" % (ok, len(ported), len(failed)))
    for f in failed:
        print("  CONFLICT", f)


if __name__ == "__main__":
    main()
