#!/usr/bin/env python3
"""Syntactic mutation sweep over derive-ex/src: an independent measure of what the quick checks catch beyond the test suite.

usage: tools/mutsweep.py enumerate                      -> prints the number of candidates per operator
       tools/mutsweep.py stage1 <N> <seed> [workers]    -> samples N candidates; per candidate (in a pool of scratch worktrees under /tmp/mutw):
                                                           builds, runs the unedited suite; survivors are compared with the unchanged tree on an expansion corpus
                                                           result: /tmp/mutsweep/<seed>/stage1.json + patches
       tools/mutsweep.py stage2 <seed> [parallel]       -> every survivor whose expansions differ on the corpus: quick checks (cheapest first, mapped by file) until one exits 1
                                                           result: /tmp/mutsweep/<seed>/stage2.json
Nothing here is a registered check; the outcome is summarised in DESIGN.md (section 11.4c).
"""
import concurrent.futures as cf
import hashlib
import json
import os
import random
import re
import shutil
import subprocess
import sys
import time

VERIF = os.path.dirname(os.path.dirname(os.path.abspath(__file__)))
ENV = dict(os.environ, CARGO_NET_OFFLINE="true", CARGO_TERM_COLOR="never")
FILES = ["derive-ex/src/item_type.rs", "derive-ex/src/item_type/compare_op.rs", "derive-ex/src/bound.rs", "derive-ex/src/item_impl.rs",
         "derive-ex/src/common.rs", "derive-ex/src/syn_utils.rs", "derive-ex/src/lib.rs"]

# (name, regex, replacement)  - every match on a code line is one candidate
OPS = [
    ("eq->ne", r"(?<![=!<>])==(?!=)", "!="),
    ("ne->eq", r"!=(?!=)", "=="),
    ("and->or", r"&&", "||"),
    ("or->and", r"\|\|", "&&"),
    ("drop-not", r"(?<=[\s(])!(?=[a-zA-Z_(*])(?!\[)", ""),
    ("true->false", r"\btrue\b", "false"),
    ("false->true", r"\bfalse\b", "true"),
    ("is_some->is_none", r"\.is_some\(\)", ".is_none()"),
    ("is_none->is_some", r"\.is_none\(\)", ".is_some()"),
    ("is_empty-neg", r"(?<!!)\b([a-z_.]+)\.is_empty\(\)", r"!\1.is_empty()"),
    ("continue->break", r"\bcontinue;", "break;"),
    ("break->continue", r"\bbreak;", "continue;"),
    ("less<->greater", r"\bLess\b", "Greater"),
    ("greater->less", r"\bGreater\b", "Less"),
    ("0->1", r"(?<![\w.])0(?![\w.])", "1"),
    ("1->0", r"(?<![\w.])1(?![\w.])", "0"),
    ("1->2", r"(?<![\w.])1(?![\w.])", "2"),
    ("bitor->bitand", r"(?<![|&])\|=", "&="),
    ("or-assign->assign", r"(?<![|&])\|=", "="),
    ("drop-rev", r"\.rev\(\)", ""),
    ("lhs<->rhs", r"\blhs\b", "rhs"),
    ("rhs->lhs", r"\brhs\b", "lhs"),
    ("this<->other", r"\bthis\b", "other"),
    ("other->this", r"\bother\b", "this"),
    ("key->by", r"\.key\b", ".by"),
    ("by->key", r"\.by\b", ".key"),
    ("eq->ord", r"\.eq\b(?!\()", ".ord"),
    ("ord->eq", r"\.ord\b(?!\()", ".eq"),
    ("partial_eq->partial_ord", r"\.partial_eq\b(?!\()", ".partial_ord"),
    ("partial_ord->partial_eq", r"\.partial_ord\b(?!\()", ".partial_eq"),
    ("hash->eq", r"\.hash\b(?!\()", ".eq"),
    ("Eq<->PartialEq", r"\bCompareOp::Eq\b", "CompareOp::PartialEq"),
    ("PartialEq->Eq", r"\bCompareOp::PartialEq\b", "CompareOp::Eq"),
    ("Ord->PartialOrd", r"\bCompareOp::Ord\b", "CompareOp::PartialOrd"),
    ("PartialOrd->Ord", r"\bCompareOp::PartialOrd\b", "CompareOp::Ord"),
    ("Hash->Eq", r"\bCompareOp::Hash\b", "CompareOp::Eq"),
    ("Some->None-return", r"\breturn Some\(([^;]*)\);", "return None;"),
    ("use_bounds-flip", r"\buse_bounds = ", "use_bounds = !"),
    ("amp-drop", r"(?<=[(,\s])&(?=[a-z_]+\.)", ""),
    ("clone->clone_from-swap", r"\bclone_from\b", "clone"),
]
STMT_DELETE = re.compile(r"^\s+(?!let |return|if |for |match |while |else|\}|//|#)[A-Za-z_][\w.:<>]*(\(|!|\.)[^{}]*;\s*$")
RETURN_DELETE = re.compile(r"^\s+return [^;{}]*;\s*$")


def sh(cmd, cwd=None, timeout=3600, env=None):
    try:
        r = subprocess.run(cmd, shell=True, cwd=cwd, env=env or ENV, stdout=subprocess.PIPE, stderr=subprocess.STDOUT, text=True, timeout=timeout)
        return r.returncode, r.stdout
    except subprocess.TimeoutExpired as e:
        return 124, (e.stdout or b"").decode("utf8", "replace") if isinstance(e.stdout, bytes) else (e.stdout or "") + "\nTIMEOUT"


def code_lines(path, text):
    """yield (lineno, line) for lines that are code: no comments / docs, not the verif hook, for lib.rs only the non-doc part"""
    in_hook = False
    for i, l in enumerate(text.split("\n")):
        s = l.strip()
        if s.startswith("//") or not s:
            continue
        if "frozenlib_derive_ex_verif" in l:
            in_hook = True
        if in_hook:
            continue
        if s.startswith("#[") or s.startswith("use ") or s.startswith("#!["):
            continue
        yield i, l


def enumerate_candidates(repo="/repo"):
    cands = []
    for f in FILES:
        text = open(os.path.join(repo, f)).read()
        for i, l in code_lines(f, text):
            code = l.split("//")[0] if "\"" not in l else l
            for name, rx, rep in OPS:
                for m in re.finditer(rx, code):
                    new = code[:m.start()] + m.expand(rep) + code[m.end():]
                    if new != code:
                        cands.append({"file": f, "line": i, "op": name, "old": l, "new": new + l[len(code):]})
            if STMT_DELETE.match(l) and l.count("(") == l.count(")"):
                cands.append({"file": f, "line": i, "op": "delete-stmt", "old": l, "new": ""})
            if RETURN_DELETE.match(l):
                cands.append({"file": f, "line": i, "op": "delete-return", "old": l, "new": ""})
    for c in cands:
        c["id"] = hashlib.sha1(("%s:%d:%s:%s" % (c["file"], c["line"], c["op"], c["new"])).encode()).hexdigest()[:10]
    return cands


def apply(wt, c):
    p = os.path.join(wt, c["file"])
    lines = open(p).read().split("\n")
    assert lines[c["line"]] == c["old"], (c, lines[c["line"]])
    lines[c["line"]] = c["new"]
    open(p, "w").write("\n".join(lines))


def suite(wt):
    rc, out = sh("cargo test --workspace --no-fail-fast --offline 2>&1 | grep -E '^test result|^error|could not compile' ", cwd=wt, timeout=1500)
    passed = failed = 0
    for l in out.splitlines():
        if l.startswith("test result"):
            w = l.split()
            passed += int(w[3])
            failed += int(w[5])
    return passed, failed, ("could not compile" in out or "error" in out)


CORPUS_PY = r'''
import json, sys, random
sys.path.insert(0, %r)
from vlib import common, c16, probes
reqs = [q for q in c16.native_corpus("quick", random.Random(7)) if (q[0] + q[1] + q[2]).strip()]
ALL5 = "Ord, PartialOrd, Eq, PartialEq, Hash"
attrs = ["ord", "partial_ord", "eq", "partial_eq", "hash"]
args = ["ignore", "reverse", "key = $.k()", "by = f", "bound(T: Mk)", "bound(..)", "bound()", "reverse, key = $.k()"]
singles = ["#[%%s(%%s)]" %% (a, g) for a in attrs for g in args]
rnd = random.Random(11)
pairs = [x + " " + y for x in singles for y in singles if x.split("(")[0] != y.split("(")[0]]
rnd.shuffle(pairs)
for deco in singles + pairs[:260]:
    reqs.append(("attr", ALL5, "struct X<T> { a: u8, %%s b: T, c: Option<T> }" %% deco))
    reqs.append(("attr", ALL5, "enum X<T> { A, B(%%s T, u8), C { x: u8, %%s y: T } }" %% (deco, deco)))
for deco in singles:
    for tl in ("PartialEq", "PartialOrd, PartialEq", "Hash", "Eq, PartialEq", "Ord, PartialOrd, Eq, PartialEq"):
        reqs.append(("attr", tl, "struct X<T> { %%s a: T, b: u8 }" %% deco))
        reqs.append(("derive", "", "#[derive_ex(%%s)] enum X<T> { %%s A(T), B }" %% (tl, deco)))
    reqs.append(("attr", ALL5, "%%s struct X<T>(T, u8);" %% deco))
for t in ("Clone", "Copy, Clone", "Debug", "Default", "Add", "AddAssign", "Neg", "Deref", "Clone, Debug, Default"):
    for lvl in ("bound(T: Mk)", "bound(T: Mk, ..)", "bound()", "bound(..)", "bound(Vec<T>)"):
        first = t.split(",")[0]
        reqs.append(("attr", "%%s(%%s)" %% (first, lvl) + (", " + ", ".join(t.split(", ")[1:]) if ", " in t else ""), "struct X<T> { a: T, #[derive_ex(%%s(%%s))] b: Vec<T> }" %% (first, lvl)))
        reqs.append(("attr", "%%s, %%s" %% (t, lvl), "struct X<T>(T);"))
        if first not in ("Add", "AddAssign", "Neg", "Deref"):
            reqs.append(("attr", "%%s, %%s" %% (t, lvl), "enum X<T> { #[default] #[derive_ex(%%s(%%s))] A(T), #[derive_ex(%%s, %%s)] B { #[derive_ex(%%s(%%s))] x: T } }" %% (first, lvl, first, lvl, first, lvl)))
for t in ("Debug",):
    for d in ("#[debug(ignore)]", "#[debug(transparent)]", "#[debug(bound(T: Mk))]", "#[debug(transparent, bound(..))]"):
        reqs.append(("attr", t, "struct X<T> { %%s a: T, b: u8 }" %% d))
        reqs.append(("attr", t, "struct X<T>(u8, %%s T);" %% d))
        reqs.append(("attr", t, "enum X<T> { A(%%s T, u8), B { x: u8, %%s y: T }, C }" %% (d, d)))
for d in ("#[default(1)]", "#[default(\"a\")]", "#[default(K)]", "#[default(_)]", "#[default(f(), bound(T: Mk))]", "#[default(-1)]", "#[default(X::Y)]", "#[default({ 1 })]"):
    reqs.append(("attr", "Default", "struct X<T> { %%s a: T, b: u8 }" %% d))
    reqs.append(("attr", "Default", "enum X<T> { A, #[default] B(u8, %%s T) }" %% d))
    reqs.append(("attr", "Default", "%%s struct X<T>(T);" %% d))
    reqs.append(("attr", "Default", "%%s enum X<T> { A(T), B }" %% d))
for name in sorted(probes.PROBES if hasattr(probes, "PROBES") else []):
    pass
res = common.expand_many(reqs)
print(json.dumps([[r.get("out", ""), r.get("panic"), r.get("parse_ok")] for r in res]))
'''


def corpus(repo):
    env = dict(ENV, VERIF_REPO=repo)
    r = subprocess.run(["python3-vt", "-c", CORPUS_PY % VERIF], cwd=VERIF, env=env, stdout=subprocess.PIPE, stderr=subprocess.PIPE, text=True, timeout=1800)
    if r.returncode != 0:
        raise RuntimeError(r.stderr[-2000:])
    return json.loads(r.stdout.strip().splitlines()[-1])


def clean_cache_for(wt):
    import glob
    tag = hashlib.sha1(wt.encode()).hexdigest()[:10]
    for x in glob.glob(os.path.join(VERIF, ".cache", "hooklib*-" + tag + "*")):
        shutil.rmtree(x, ignore_errors=True) if os.path.isdir(x) else os.remove(x)


def worker_dir(i):
    return "/tmp/mutw/w%d" % i


def ensure_worker(i):
    wt = worker_dir(i)
    if not os.path.exists(wt):
        os.makedirs("/tmp/mutw", exist_ok=True)
        rc, out = sh("git -C /repo worktree add -q --detach %s HEAD" % wt)
        assert rc == 0, out
        shutil.copy("/repo/Cargo.lock", os.path.join(wt, "Cargo.lock"))
    sh("git checkout -q -- .", cwd=wt)
    return wt


def stage1_one(args):
    i, c, outdir, base = args
    wt = worker_dir(i)
    sh("git checkout -q -- .", cwd=wt)
    res = dict(c)
    try:
        apply(wt, c)
        rc, out = sh("cargo build --offline -p derive-ex 2>&1 | tail -3", cwd=wt, timeout=600)
        if "error" in out or "could not compile" in out:
            res["status"] = "stillborn"
            return res
        p, f, broke = suite(wt)
        res["suite"] = [p, f]
        if f > 0 or p < 397:
            res["status"] = "killed-by-suite"
            return res
        res["status"] = "survivor"
        rc, diff = sh("git diff -- derive-ex/src", cwd=wt)
        open(os.path.join(outdir, c["id"] + ".diff"), "w").write(diff)
        try:
            b = corpus(wt)
            d = [k for k, (x, y) in enumerate(zip(base, b)) if x != y]
            res["corpus_differs"] = len(d)
            if d:
                res["first_diff"] = d[0]
        except Exception as e:  # expander of the mutant does not build / crashes
            res["corpus_differs"] = -1
            res["corpus_error"] = str(e)[-300:]
    finally:
        sh("git checkout -q -- .", cwd=wt)
    return res


def stage1(n, seed, workers):
    outdir = "/tmp/mutsweep/%s" % seed
    os.makedirs(outdir, exist_ok=True)
    cands = enumerate_candidates()
    rnd = random.Random(int(seed))
    rnd.shuffle(cands)
    # one candidate per (file, line) first, so that the sample spreads over the code
    seen, pick, rest = set(), [], []
    for c in cands:
        k = (c["file"], c["line"])
        (pick if k not in seen else rest).append(c)
        seen.add(k)
    sample = (pick + rest)[:n]
    done = {}
    sp = os.path.join(outdir, "stage1.json")
    if os.path.exists(sp):
        done = {r["id"]: r for r in json.load(open(sp))}
    for i in range(workers):
        ensure_worker(i)
    print("baseline corpus ...", flush=True)
    base = corpus("/repo")
    print("corpus inputs:", len(base), flush=True)
    todo = [c for c in sample if c["id"] not in done]
    import queue, threading
    q = queue.Queue()
    for c in todo:
        q.put(c)
    lock = threading.Lock()

    def loop(i):
        while True:
            try:
                c = q.get_nowait()
            except queue.Empty:
                return
            t0 = time.time()
            try:
                r = stage1_one((i, c, outdir, base))
            except Exception as e:
                r = dict(c, status="error", error=str(e)[-300:])
            r["wall_s"] = round(time.time() - t0, 1)
            with lock:
                done[r["id"]] = r
                json.dump(list(done.values()), open(sp, "w"), indent=1)
                print("%s %-18s %-22s %s:%d  differs=%s" % (r["id"], r["status"], r["op"], r["file"].split("/")[-1], r["line"] + 1, r.get("corpus_differs")), flush=True)

    ths = [threading.Thread(target=loop, args=(i,)) for i in range(workers)]
    [t.start() for t in ths]
    [t.join() for t in ths]
    for i in range(workers):
        clean_cache_for(worker_dir(i))
    summarize(seed)


COST = ["C14", "C17", "C19", "C05", "C11", "C18", "C09", "C06", "C13", "C02", "C07", "C16", "C03", "C01", "C15", "C12", "C08", "C10", "C04"]
MAP = {
    "compare_op.rs": ["C17", "C05", "C14", "C06", "C02", "C01", "C03", "C12", "C13", "C04", "C16"],
    "bound.rs": ["C03", "C04", "C18", "C11", "C16", "C12"],
    "item_impl.rs": ["C09", "C19", "C16", "C13"],
    "item_type.rs": ["C14", "C19", "C05", "C11", "C18", "C07", "C15", "C16", "C03", "C12", "C08", "C10", "C13", "C04"],
    "common.rs": ["C14", "C19", "C16", "C01", "C12"],
    "syn_utils.rs": ["C14", "C16", "C03", "C09", "C01", "C12", "C08"],
    "lib.rs": ["C14", "C19", "C15", "C16", "C12"],
}


def stage2_one(args):
    i, r, outdir = args
    wt = "/tmp/mutw/s%d" % i
    if not os.path.exists(wt):
        rc, out = sh("git -C /repo worktree add -q --detach %s HEAD" % wt)
        assert rc == 0, out
        shutil.copy("/repo/Cargo.lock", os.path.join(wt, "Cargo.lock"))
    sh("git checkout -q -- .", cwd=wt)
    rc, out = sh("git apply %s" % os.path.join(outdir, r["id"] + ".diff"), cwd=wt)
    assert rc == 0, out
    res = {"id": r["id"], "checks": {}}
    ids = MAP[r["file"].split("/")[-1]]
    only = os.environ.get("MUT_CHECKS")
    if only:
        ids = only.split(",")
    try:
        for c in ids:
            t0 = time.time()
            rc, out = sh("VERIF_EVIDENCE_DIR=%s/evidence-out VERIF_REPO=%s ./check %s quick" % (wt, wt, c), cwd=VERIF, timeout=2400)
            lines = [l[:400] for l in out.splitlines() if l.startswith(("VIOLATION", "  DETAIL", "BROKEN"))][:4]
            res["checks"][c] = {"exit": rc, "wall_s": round(time.time() - t0, 1), "lines": lines}
            if rc == 1:
                break
    finally:
        sh("git checkout -q -- .", cwd=wt)
        clean_cache_for(wt)
    res["caught_by"] = [c for c, v in res["checks"].items() if v["exit"] == 1]
    return res


def stage2(seed, par):
    outdir = "/tmp/mutsweep/%s" % seed
    s1 = json.load(open(os.path.join(outdir, "stage1.json")))
    sp = os.path.join(outdir, "stage2.json")
    done = {r["id"]: r for r in json.load(open(sp))} if os.path.exists(sp) else {}
    todo = [r for r in s1 if r["status"] == "survivor" and r.get("corpus_differs", 0) != 0 and r["id"] not in done]
    import queue, threading
    q = queue.Queue()
    [q.put(r) for r in todo]
    lock = threading.Lock()

    def loop(i):
        while True:
            try:
                r = q.get_nowait()
            except queue.Empty:
                return
            try:
                res = stage2_one((i, r, outdir))
            except Exception as e:
                res = {"id": r["id"], "error": str(e)[-300:], "checks": {}, "caught_by": []}
            with lock:
                done[res["id"]] = res
                json.dump(list(done.values()), open(sp, "w"), indent=1)
                print("%s %-22s %s:%d caught_by=%s %s" % (r["id"], r["op"], r["file"].split("/")[-1], r["line"] + 1, res["caught_by"], {c: v["exit"] for c, v in res["checks"].items()}), flush=True)

    ths = [threading.Thread(target=loop, args=(i,)) for i in range(par)]
    [t.start() for t in ths]
    [t.join() for t in ths]
    summarize(seed)


def summarize(seed):
    outdir = "/tmp/mutsweep/%s" % seed
    s1 = json.load(open(os.path.join(outdir, "stage1.json")))
    from collections import Counter
    c = Counter(r["status"] for r in s1)
    surv = [r for r in s1 if r["status"] == "survivor"]
    diff = [r for r in surv if r.get("corpus_differs", 0) != 0]
    print("stage1:", dict(c), "survivors with differing expansions:", len(diff), "identical on corpus:", len(surv) - len(diff))
    sp = os.path.join(outdir, "stage2.json")
    if os.path.exists(sp):
        s2 = {r["id"]: r for r in json.load(open(sp))}
        caught = [r for r in diff if s2.get(r["id"], {}).get("caught_by")]
        missed = [r for r in diff if r["id"] in s2 and not s2[r["id"]]["caught_by"]]
        print("stage2: caught %d, not caught %d, pending %d" % (len(caught), len(missed), len(diff) - len(caught) - len(missed)))
        for r in missed:
            print("  MISSED %s %s %s:%d  %s  ->  %s   checks=%s" % (r["id"], r["op"], r["file"], r["line"] + 1, r["old"].strip()[:90], r["new"].strip()[:90], {c: v["exit"] for c, v in s2[r["id"]]["checks"].items()}))


if __name__ == "__main__":
    cmd = sys.argv[1]
    if cmd == "enumerate":
        from collections import Counter
        cs = enumerate_candidates()
        print(len(cs), Counter(c["op"] for c in cs).most_common())
        print(Counter(c["file"] for c in cs))
    elif cmd == "stage1":
        stage1(int(sys.argv[2]), sys.argv[3], int(sys.argv[4]) if len(sys.argv) > 4 else 4)
    elif cmd == "stage2":
        stage2(sys.argv[2], int(sys.argv[3]) if len(sys.argv) > 3 else 2)
    elif cmd == "summary":
        summarize(sys.argv[2])
