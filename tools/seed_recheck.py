#!/usr/bin/env python3
"""Re-run the recorded checks against every seeded change (after the machinery changed): each change that was caught must still be caught.

usage: tools/seed_recheck.py [property ids...]        (default: all)
For each /verif/seeded/<name>: scratch worktree of /repo HEAD + patch.diff (fuzz fallback), then `./check <id> quick` for every id in meta.caught_by
(or the property's own check when nothing caught it), with VERIF_REPO pointing at the worktree. Writes meta["recheck"]; prints one line per seed.
"""
import glob
import hashlib
import json
import os
import shutil
import subprocess
import sys
import tempfile
import time

VERIF = os.path.dirname(os.path.dirname(os.path.abspath(__file__)))
ENV = dict(os.environ, CARGO_NET_OFFLINE="true")


def sh(cmd, cwd=None, timeout=7200):
    r = subprocess.run(cmd, shell=True, cwd=cwd, env=ENV, stdout=subprocess.PIPE, stderr=subprocess.STDOUT, text=True, timeout=timeout)
    return r.returncode, r.stdout


def main():
    only = set(a.upper() for a in sys.argv[1:])
    lost = []
    for d in sorted(glob.glob(os.path.join(VERIF, "seeded", "*"))):
        mp = os.path.join(d, "meta.json")
        if not os.path.exists(mp):
            continue
        meta = json.load(open(mp))
        prop = meta.get("property")
        if only and prop not in only:
            continue
        ids = meta.get("caught_by") or [prop]
        wt = tempfile.mkdtemp(prefix="seedwt-", dir="/tmp")
        os.rmdir(wt)
        rc, out = sh("git -C /repo worktree add -q --detach %s HEAD" % wt)
        assert rc == 0, out
        res = {}
        try:
            if not os.path.exists(os.path.join(wt, "Cargo.lock")):
                shutil.copy("/repo/Cargo.lock", os.path.join(wt, "Cargo.lock"))  # ignored by git, so a fresh worktree has none
            rc, out = sh("git apply %s" % os.path.join(d, "patch.diff"), cwd=wt)
            if rc != 0:
                rc, out = sh("patch -p1 --fuzz=3 --no-backup-if-mismatch < %s" % os.path.join(d, "patch.diff"), cwd=wt)
                sh("find . -name '*.orig' -delete", cwd=wt)
            if rc != 0:
                print("%-60s patch does not apply" % os.path.basename(d), flush=True)
                continue
            for c in ids:
                t0 = time.time()
                rc, out = sh("VERIF_EVIDENCE_DIR=%s/evidence-out VERIF_REPO=%s ./check %s quick" % (wt, wt, c), cwd=VERIF)
                res[c] = {"exit": rc, "wall_s": round(time.time() - t0, 1), "lines": [l for l in out.splitlines() if l.startswith(("VIOLATION", "  DETAIL"))][:2]}
        finally:
            sh("git -C /repo worktree remove --force %s" % wt)
            shutil.rmtree(wt, ignore_errors=True)
            tag = hashlib.sha1(wt.encode()).hexdigest()[:10]
            for x in glob.glob(os.path.join(VERIF, ".cache", "hooklib*-" + tag + "*")):
                shutil.rmtree(x, ignore_errors=True) if os.path.isdir(x) else os.remove(x)
        meta["recheck"] = {"at": time.strftime("%Y-%m-%d %H:%M"), "checks": res}
        now = [c for c, v in res.items() if v["exit"] == 1]
        if meta.get("caught_by"):
            gone = [c for c in meta["caught_by"] if c not in now]
            if gone:
                lost.append((os.path.basename(d), gone))
        else:
            if now:
                meta["caught_by"] = now
        json.dump(meta, open(mp, "w"), indent=1)
        print("%-60s %s" % (os.path.basename(d), {c: v["exit"] for c, v in res.items()}), flush=True)
    print("LOST:", lost)


if __name__ == "__main__":
    main()
