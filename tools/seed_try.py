#!/usr/bin/env python3
"""Run further checks against one recorded seeded change and merge the outcome into its meta.json.

usage: tools/seed_try.py <seed name> <check id> [<check id> ...]
"""
import glob
import hashlib
import json
import os
import shutil
import subprocess
import sys
import tempfile
import time

VERIF = os.path.dirname(os.path.dirname(os.path.abspath(__file__)))
ENV = dict(os.environ, CARGO_NET_OFFLINE="true")


def sh(cmd, cwd=None, timeout=7200):
    r = subprocess.run(cmd, shell=True, cwd=cwd, env=ENV, stdout=subprocess.PIPE, stderr=subprocess.STDOUT, text=True, timeout=timeout)
    return r.returncode, r.stdout


def main():
    name, ids = sys.argv[1], sys.argv[2:]
    d = os.path.join(VERIF, "seeded", name)
    mp = os.path.join(d, "meta.json")
    meta = json.load(open(mp))
    wt = tempfile.mkdtemp(prefix="seedwt-", dir="/tmp")
    os.rmdir(wt)
    rc, out = sh("git -C /repo worktree add -q --detach %s HEAD" % wt)
    assert rc == 0, out
    try:
        if not os.path.exists(os.path.join(wt, "Cargo.lock")):
            shutil.copy("/repo/Cargo.lock", os.path.join(wt, "Cargo.lock"))  # ignored by git, so a fresh worktree has none
        rc, out = sh("git apply %s" % os.path.join(d, "patch.diff"), cwd=wt)
        if rc != 0:
            rc, out = sh("patch -p1 --fuzz=3 --no-backup-if-mismatch < %s" % os.path.join(d, "patch.diff"), cwd=wt)
            sh("find . -name '*.orig' -delete", cwd=wt)
        assert rc == 0, "patch does not apply"
        for c in ids:
            t0 = time.time()
            rc, out = sh("VERIF_EVIDENCE_DIR=%s/evidence-out VERIF_REPO=%s ./check %s quick" % (wt, wt, c), cwd=VERIF)
            vio = [l for l in out.splitlines() if l.startswith(("VIOLATION", "  DETAIL"))]
            meta.setdefault("checks", {})[c] = {"exit": rc, "wall_s": round(time.time() - t0, 1), "lines": vio[:6], "after_strengthening": time.strftime("%Y-%m-%d %H:%M")}
    finally:
        sh("git -C /repo worktree remove --force %s" % wt)
        shutil.rmtree(wt, ignore_errors=True)
        tag = hashlib.sha1(wt.encode()).hexdigest()[:10]
        for x in glob.glob(os.path.join(VERIF, ".cache", "hooklib*-" + tag + "*")):
            shutil.rmtree(x, ignore_errors=True) if os.path.isdir(x) else os.remove(x)
    meta["caught_by"] = [c for c, v in meta["checks"].items() if v["exit"] == 1]
    json.dump(meta, open(mp, "w"), indent=1)
    print("%-60s %s" % (name, {c: v["exit"] for c, v in meta["checks"].items()}), flush=True)


if __name__ == "__main__":
    main()
