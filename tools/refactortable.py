#!/usr/bin/env python3
"""Prints the table of behaviour-preserving refactorings (refactorings/*/meta.json) as markdown."""
import glob
import json
import os

VERIF = os.path.dirname(os.path.dirname(os.path.abspath(__file__)))
rows = []
for d in sorted(glob.glob(os.path.join(VERIF, "refactorings", "*"))):
    mp = os.path.join(d, "meta.json")
    if not os.path.exists(mp):
        continue
    m = json.load(open(mp))
    what = open(os.path.join(d, "what.txt")).read().strip() if os.path.exists(os.path.join(d, "what.txt")) else ""
    rows.append((os.path.basename(d), what, "%d/%d identical" % (m["corpus"]["inputs"] - m["corpus"]["differing"], m["corpus"]["inputs"]) if m.get("corpus") else "?",
                 ", ".join(m.get("false_alarms") or []) or "none", ", ".join(m.get("weakened") or []) or "none", m.get("after_fix", "")))
print("| refactoring | what it changes | expansion corpus | checks that alarmed (exit != 0) | checks with INCONCLUSIVE parts | after the corrections of §11.5 |")
print("|---|---|---|---|---|---|")
for r in rows:
    print("| %s | %s | %s | %s | %s | %s |" % r)
