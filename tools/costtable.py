#!/usr/bin/env python3
"""Prints what each check covered and cost on its last recorded run (evidence/*.json) as markdown."""
import glob
import json
import os

VERIF = os.path.dirname(os.path.dirname(os.path.abspath(__file__)))
print("| id | tier | harnesses (Kani) | E3 obligations discharged / total | paths | other cases | solver time | wall |")
print("|---|---|---|---|---|---|---|---|")
for f in sorted(glob.glob(os.path.join(VERIF, "evidence", "C*.json"))):
    e = json.load(open(f))
    c = e.get("coverage", {})
    har = c.get("harness_results")
    h = ""
    if har:
        h = "%d ok of %d" % (har.get("success", 0), c.get("harnesses", 0))
    for k in ("instantiation_results", "resolution_results"):
        if c.get(k):
            h += ("; " if h else "") + "%s %d ok of %d" % (k.split("_")[0], c[k].get("success", 0), sum(c[k].values()))
    ob = ""
    if "obligations" in c:
        ob = "%d / %d" % (c.get("discharged", 0), c.get("obligations", 0))
    elif c.get("e3_obligations"):
        ob = "%d / %d" % (c.get("e3_discharged", 0), c.get("e3_obligations", 0))
    other = []
    if c.get("traces_validated_against_impl"):
        other.append("%d native comparisons" % c["traces_validated_against_impl"])
    if c.get("no_std_scan_inputs"):
        other.append("%d no_std scans" % c["no_std_scan_inputs"])
    print("| %s | %s | %s | %s | %s | %s | %s s | %s s |" % (e["property_id"], e.get("tier"), h, ob, c.get("paths_explored", ""), ", ".join(other), c.get("solver_time_s", ""), round(e.get("wall_s", 0))))
