#!/usr/bin/env python3
"""Port seeded changes that overlap fix 25236d4 (reserved names for generated parameters / locals): apply the patch at the old base, replay the fix's
renamings textually (leniently), then check that the suite passes and the demonstration still fails; write the diff against /repo's HEAD.

usage: tools/seed_port_rename.py <base> <seed name> [<seed name> ...]
"""
import json
import os
import shutil
import subprocess
import sys
import tempfile

VERIF = os.path.dirname(os.path.dirname(os.path.abspath(__file__)))
ENV = dict(os.environ, CARGO_NET_OFFLINE="true")
REN = {
 "derive-ex/src/item_type.rs": [
  ("member(quote!(rhs), field)", "member(quote!(__rhs), field)"), ("(self, rhs: #rhs_ty)", "(self, __rhs: #rhs_ty)"), ("(&mut self, rhs: #rhs_ty)", "(&mut self, __rhs: #rhs_ty)"),
  ("member(quote!(source), field)", "member(quote!(__source), field)"), ("clone_from(&mut self, source: &Self)", "clone_from(&mut self, __source: &Self)"),
  ("match (self, source) {", "match (self, __source) {"), ("(lhs, rhs) => *lhs = <Self as ::core::clone::Clone>::clone(rhs),", "(__lhs, __rhs) => *__lhs = <Self as ::core::clone::Clone>::clone(__rhs),"),
  ("fn fmt(&self, f: &mut ::core::fmt::Formatter)", "fn fmt(&self, __f: &mut ::core::fmt::Formatter)"), ("::core::fmt::Debug::fmt(#e, f)", "::core::fmt::Debug::fmt(#e, __f)"),
  ("quote!(f.#debug_x(#name))", "quote!(__f.#debug_x(#name))")],
 "derive-ex/src/item_type/compare_op.rs": [
  ("(this.#member)", "(__this.#member)"), ("(other.#member)", "(__other.#member)"), ("fn _f #impl_g (this: &#this_ty)", "fn _f #impl_g (__this: &#this_ty)"),
  ("match (self, other) {", "match (self, __other) {"), ("(&self, other: &Self)", "(&self, __other: &Self)"), ("                match this {", "                match __this {"),
  ("o => return o,", "__o => return __o,"), ("(this, other) => {", "(__this, __other) => {"), ("&to_index(this), &to_index(other)", "&__to_index(__this), &__to_index(__other)"),
  ("this: &#ty, other: &#ty, eq: impl", "__this: &#ty, __other: &#ty, __by: impl"), ("eq(this, other)", "__by(__this, __other)"),
  ("this: &#ty, other: &#ty, partial_cmp: impl", "__this: &#ty, __other: &#ty, __by: impl"), ("partial_cmp(this, other)", "__by(__this, __other)"),
  ("this: &#ty, other: &#ty, cmp: impl", "__this: &#ty, __other: &#ty, __by: impl"), ("cmp(this, other)", "__by(__this, __other)"),
  ("                    this: &#ty,\n                    other: &#ty,\n                    partial_cmp: impl", "                    __this: &#ty,\n                    __other: &#ty,\n                    __by: impl"),
  ("                    this: &#ty,\n                    other: &#ty,\n                    cmp: impl", "                    __this: &#ty,\n                    __other: &#ty,\n                    __by: impl"),
  ("(&self, state: &mut __H)", "(&self, __state: &mut __H)"),
  ("                    this: &#ty,\n                    state: &mut __H,\n                    hash: impl", "                    __this: &#ty,\n                    __state: &mut __H,\n                    __by: impl"),
  ("hash(this, state)", "__by(__this, __state)"), ("#fn_ident(&#this, state, #by)", "#fn_ident(&#this, __state, #by)"), ("::core::hash::Hash::hash(&(#this), state);", "::core::hash::Hash::hash(&(#this), __state);"),
  ("let to_index = |this: &Self| -> usize {\n            match this {", "let __to_index = |__this: &Self| -> usize {\n            match __this {")],
 "derive-ex/src/item_impl.rs": [
  ("change_owned(quote!(rhs), &rhs,", "change_owned(quote!(__rhs), &rhs,"), ("fn #binary_func(self, rhs: #impl_rhs)", "fn #binary_func(self, __rhs: #impl_rhs)"),
  ("fn #assign_func(&mut self, rhs: #rhs) {", "fn #assign_func(&mut self, __rhs: #rhs) {"), ("::#binary_func(#l_expr, rhs)", "::#binary_func(#l_expr, __rhs)"),
  ("fn #binary_func(mut self, rhs: #rhs)", "fn #binary_func(mut self, __rhs: #rhs)"), ("::#assign_func(&mut self, rhs);", "::#assign_func(&mut self, __rhs);")],
}


import re
# where a change rewrote one of the lines above, the same renamings as patterns (generated-token contexts only; checked afterwards by the suite and the demonstration)
RX = {
 "derive-ex/src/item_type/compare_op.rs": [
  (r"\bto_index\b", "__to_index"), (r"\|this: &Self\|", "|__this: &Self|"), (r"match this \{", "match __this {"),
  (r"(?<![\w.])(eq|cmp|partial_cmp)\(this, other\)", "__by(__this, __other)"), (r"\(this, other\) =>", "(__this, __other) =>"),
  (r"\bthis: &#ty\b", "__this: &#ty"), (r"\bother: &#ty\b", "__other: &#ty"), (r"\b(eq|cmp|partial_cmp|hash): impl ::core::ops::Fn", "__by: impl ::core::ops::Fn"),
  (r"\bstate: &mut __H", "__state: &mut __H"), (r"(?<![\w.])hash\(this, state\)", "__by(__this, __state)"), (r", state,", ", __state,"), (r", state\)", ", __state)"),
  (r"\bother: &Self\b", "__other: &Self"), (r"match \(self, other\)", "match (self, __other)"), (r"\bo => return o\b", "__o => return __o"),
  (r"\(this\.#member\)", "(__this.#member)"), (r"\(other\.#member\)", "(__other.#member)"), (r"::core::ptr::eq\(self, other\)", "::core::ptr::eq(self, __other)")],
 "derive-ex/src/item_type.rs": [
  (r"quote!\(rhs\)", "quote!(__rhs)"), (r"\brhs: #rhs_ty", "__rhs: #rhs_ty"), (r"quote!\(source\)", "quote!(__source)"), (r"\bsource: &Self", "__source: &Self"),
  (r"match \(self, source\)", "match (self, __source)"), (r"\(lhs, rhs\) => \*lhs = (.*)\(rhs\)", r"(__lhs, __rhs) => *__lhs = \1(__rhs)"),
  (r"\bf: &mut ::core::fmt::Formatter", "__f: &mut ::core::fmt::Formatter"), (r"fmt\(#e, f\)", "fmt(#e, __f)"), (r"quote!\(f\.", "quote!(__f."),
  (r"(?<![\w.#])f\.(write_str|pad|debug_struct|debug_tuple|#debug_x)\b", r"__f.\1"), (r"Formatter::(\w+)\(f, ", r"Formatter::\1(__f, "), (r"\*self = <Self as ::core::clone::Clone>::clone\(source\)", "*self = <Self as ::core::clone::Clone>::clone(__source)"),
  (r"::clone\(source\)", "::clone(__source)")],
 "derive-ex/src/item_impl.rs": [
  (r"quote!\(rhs\)", "quote!(__rhs)"), (r"\brhs: #(impl_rhs|rhs)\b", r"__rhs: #\1"), (r"(#l_expr|&mut self), rhs\)", r"\1, __rhs)")],
}


def sh(cmd, cwd=None):
    r = subprocess.run(cmd, shell=True, cwd=cwd, env=ENV, stdout=subprocess.PIPE, stderr=subprocess.STDOUT, text=True)
    return r.returncode, r.stdout


def main():
    base, names = sys.argv[1], sys.argv[2:]
    head = sh("git -C /repo rev-parse HEAD")[1].strip()
    wt = tempfile.mkdtemp(prefix="portwt-", dir="/tmp")
    os.rmdir(wt)
    assert sh("git -C /repo worktree add -q --detach %s %s" % (wt, base))[0] == 0
    shutil.copy("/repo/Cargo.lock", os.path.join(wt, "Cargo.lock"))
    try:
        for n in names:
            d = os.path.join(VERIF, "seeded", n)
            sh("git reset -q --hard %s && git clean -fdq derive-ex derive-ex-tests" % base, cwd=wt)
            rc, out = sh("git apply %s" % os.path.join(d, "patch.diff"), cwd=wt)
            if rc != 0:
                rc, out = sh("patch -p1 --fuzz=3 --no-backup-if-mismatch < %s && find . -name '*.orig' -delete" % os.path.join(d, "patch.diff"), cwd=wt)
            if rc != 0:
                print("%-70s does not apply at base" % n, flush=True)
                continue
            missing = []
            for f, pairs in REN.items():
                p = os.path.join(wt, f)
                s = open(p).read()
                for a, b in pairs:
                    if a in s:
                        s = s.replace(a, b)
                    elif b not in s:
                        missing.append(a[:40])
                for rx, to in RX.get(f, []):
                    s = re.sub(rx, to, s)
                open(p, "w").write(s)
            rc, out = sh("cargo test --workspace --no-fail-fast --offline 2>&1 | grep -E '^test result|^error' ", cwd=wt)
            passed = sum(int(l.split()[3]) for l in out.splitlines() if l.startswith("test result"))
            failed = sum(int(l.split()[5]) for l in out.splitlines() if l.startswith("test result"))
            shutil.copy(os.path.join(d, "demo.rs"), os.path.join(wt, "derive-ex-tests/tests/demo_seed.rs"))
            rc1, out1 = sh("cargo test --offline -p derive-ex-tests --test demo_seed 2>&1 | tail -4", cwd=wt)
            demo_fails = "test result: ok" not in out1
            os.remove(os.path.join(wt, "derive-ex-tests/tests/demo_seed.rs"))
            good = passed >= 397 and failed == 0 and demo_fails
            if good:
                rc, diff = sh("git diff %s -- derive-ex" % head, cwd=wt)
                shutil.copy(os.path.join(d, "patch.diff"), os.path.join(d, "patch.before-%s.diff" % head[:7]))
                open(os.path.join(d, "patch.diff"), "w").write(diff)
                m = json.load(open(os.path.join(d, "meta.json")))
                m.setdefault("ported_over", []).append(head[:7])
                json.dump(m, open(os.path.join(d, "meta.json"), "w"), indent=1)
            print("%-70s %s suite=%d/%d demo_fails=%s not-renamed=%s" % (n, "PORTED" if good else "CHECK", passed, failed, demo_fails, missing[:4]), flush=True)
    finally:
        sh("git -C /repo worktree remove --force %s" % wt)
        shutil.rmtree(wt, ignore_errors=True)


if __name__ == "__main__":
    main()
