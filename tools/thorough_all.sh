#!/bin/sh
# runs the thorough tier of the given checks one after the other (timing / sanity; evidence goes to a scratch dir)
cd "$(dirname "$0")/.." || exit 2
export VERIF_EVIDENCE_DIR=${VERIF_EVIDENCE_DIR:-/tmp/thorough-evidence}
for c in "$@"; do
  s=$(date +%s)
  ./check $c thorough > /tmp/thorough-$c.out 2>/tmp/thorough-$c.err; e=$?
  echo "$c thorough exit=$e wall=$(( $(date +%s) - s ))s $(grep -c '^VIOLATION' /tmp/thorough-$c.out) violations $(grep -c BROKEN /tmp/thorough-$c.out) broken $(grep -c INCONCLUSIVE /tmp/thorough-$c.out) inconclusive"
  grep -E "VIOLATION|DETAIL|BROKEN|INCONCLUSIVE" /tmp/thorough-$c.out | head -6
  tail -1 /tmp/thorough-$c.err
done
