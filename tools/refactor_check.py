#!/usr/bin/env python3
"""False-alarm test: run every quick check against a behaviour-preserving refactoring of /repo.

usage: tools/refactor_check.py <name> <patch.diff> [check ids...]
 1. scratch worktree of /repo HEAD + patch; the suite must pass
 2. the real expander of the patched tree and of /repo must give token-identical output on a corpus (otherwise the patch is not behaviour preserving: rejected)
 3. every check (quick) with VERIF_REPO pointing at the patched tree: exit 0 expected; VIOLATION / exit != 0 is a false alarm of the machinery
Result: /verif/refactorings/<name>/{patch.diff,meta.json}
"""
import glob
import hashlib
import json
import os
import shutil
import subprocess
import sys
import tempfile
import time

VERIF = os.path.dirname(os.path.dirname(os.path.abspath(__file__)))
ENV = dict(os.environ, CARGO_NET_OFFLINE="true")
ALL = ["C01", "C02", "C03", "C04", "C05", "C06", "C07", "C08", "C09", "C10", "C11", "C12", "C13", "C14", "C15", "C16", "C17", "C18", "C19"]

CORPUS_PY = r'''
import json, sys
sys.path.insert(0, %r)
from vlib import common, c19
reqs = []
for item, tl, dumped, how in c19.differential_cases("quick", 3):
    for mode in ("attr", "derive"):
        reqs.append(c19.render(item, tl, dumped, how, False, mode))
        reqs.append(c19.render(item, tl, dumped, how, True, mode))
for item, attr in c19.IMPL_ITEMS:
    reqs += [("attr", attr, item), ("attr", attr + ", dump", item)]
extra = [
 ("attr", "Debug", "struct X { #[debug(transparent)] a: u8, #[debug(transparent)] b: u8 }"),
 ("attr", "Debug", "struct X { #[debug(transparent)] a: u8, b: u8 }"),
 ("attr", "Ord, PartialOrd, Eq, PartialEq, Hash", "struct X { #[ord(key = $.len())] #[partial_ord(ignore)] a: String, #[hash(by = f)] b: u8 }"),
 ("attr", "Ord, PartialOrd, Eq, PartialEq, Hash", "enum X { A, #[ord(bound(..))] B(#[eq(key = $.0)] (u8, u8), #[ord(reverse)] u8), C { #[ord(ignore)] a: u8 } }"),
 ("attr", "Ord", "struct X { #[partial_ord(reverse)] a: u8 }"),
 ("attr", "Add, Deref", "enum X { A }"),
 ("attr", "Deref", "struct X { a: u8, b: u8 }"),
 ("attr", "Deref, DerefMut", "struct X<T>(T);"),
 ("attr", "Default", "enum X { A, B }"),
 ("attr", "Default", "enum X { #[default] A, #[default] B }"),
 ("attr", "Default", "#[default(X::B(1))] enum X { A, B(u8) }"),
 ("attr", "Default, Clone(bound(T: Copy)), Debug(bound(..))", "#[derive_ex(Copy, bound(T: Copy))] struct X<T, const N: usize> where T: Sized { #[default(Default::default())] a: [T; N], #[debug(ignore)] #[derive_ex(Default(bound(T: Default)))] b: Option<T> }"),
 ("attr", "Clone, Copy", "enum X<'a, T: ?Sized> { A(&'a T), B { x: u8 } }"),
 ("attr", "Neg, Not, Add, AddAssign, Shl(bound(T: Copy))", "struct X<T> { a: T, b: T }"),
 ("attr", "Frob", "struct X;"),
 ("attr", "Clone", "union U { a: u8 }"),
 ("derive", "", "#[derive_ex(Clone)] union U { a: u8 }"),
 ("attr", "Clone, dump, dump", "struct X;"),
 ("attr", "Eq, PartialEq", "struct X { #[eq(ignore, key = $)] a: u8 }"),
 ("attr", "Hash", "struct X { #[hash(reverse)] a: u8 }"),
 ("attr", "PartialEq", "struct r#X { r#type: u8 }"),
 ("attr", "Debug, Clone", "enum X {}"),
 ("attr", "Sub", "impl std::ops::Add<u8> for Y { type Output = Y; fn add(self, r: u8) -> Y { self } }"),
 ("attr", "Add", "impl !Send for Y {}"),
 ("attr", "Add", "fn f() {}"),
]
reqs += extra
res = common.expand_many(reqs)
print(json.dumps([[r.get("out", ""), r.get("panic"), r.get("parse_ok")] for r in res]))
'''


def sh(cmd, cwd=None, timeout=7200, env=None):
    r = subprocess.run(cmd, shell=True, cwd=cwd, env=env or ENV, stdout=subprocess.PIPE, stderr=subprocess.STDOUT, text=True, timeout=timeout)
    return r.returncode, r.stdout


def corpus(repo):
    env = dict(ENV, VERIF_REPO=repo)
    r = subprocess.run(["python3-vt", "-c", CORPUS_PY % VERIF], cwd=VERIF, env=env, stdout=subprocess.PIPE, stderr=subprocess.PIPE, text=True, timeout=3600)
    if r.returncode != 0:
        raise RuntimeError(r.stderr[-2000:])
    return json.loads(r.stdout.strip().splitlines()[-1])


def main():
    name, patch = sys.argv[1:3]
    checks = sys.argv[3:] or ALL
    dst = os.path.join(VERIF, "refactorings", name)
    os.makedirs(dst, exist_ok=True)
    meta = {"patch": os.path.basename(patch)}
    wt = tempfile.mkdtemp(prefix="rfwt-", dir="/tmp")
    os.rmdir(wt)
    rc, out = sh("git -C /repo worktree add -q --detach %s HEAD" % wt)
    assert rc == 0, out
    try:
        rc, out = sh("git apply %s" % os.path.abspath(patch), cwd=wt)
        assert rc == 0, "patch does not apply: " + out
        rc, out = sh("cargo test --workspace --no-fail-fast --offline 2>&1 | grep -E '^test result' ", cwd=wt)
        passed = sum(int(l.split()[3]) for l in out.splitlines() if l.startswith("test result"))
        failed = sum(int(l.split()[5]) for l in out.splitlines() if l.startswith("test result"))
        meta["suite"] = {"passed": passed, "failed": failed}
        a, b = corpus("/repo"), corpus(wt)
        diff = [i for i, (x, y) in enumerate(zip(a, b)) if x != y]
        meta["corpus"] = {"inputs": len(a), "differing": len(diff), "first": [a[diff[0]][0][:300], b[diff[0]][0][:300]] if diff else None}
        meta["behaviour_preserving_on_corpus"] = not diff and failed == 0 and passed >= 397
        res = {}
        if meta["behaviour_preserving_on_corpus"]:
            for c in checks:
                t0 = time.time()
                rc, out = sh("VERIF_EVIDENCE_DIR=%s/evidence-out VERIF_REPO=%s ./check %s quick" % (wt, wt, c), cwd=VERIF)
                lines = [l for l in out.splitlines() if l.startswith(("VIOLATION", "  DETAIL", "INCONCLUSIVE", "BROKEN"))]
                res[c] = {"exit": rc, "wall_s": round(time.time() - t0, 1), "inconclusive": sum(1 for l in lines if l.startswith("INCONCLUSIVE")), "lines": [l[:300] for l in lines[:6]]}
                print(name, c, rc, res[c]["inconclusive"], flush=True)
        meta["checks"] = res
        meta["false_alarms"] = [c for c, v in res.items() if v["exit"] != 0]
        meta["weakened"] = [c for c, v in res.items() if v["exit"] == 0 and v["inconclusive"]]
    finally:
        sh("git -C /repo worktree remove --force %s" % wt)
        shutil.rmtree(wt, ignore_errors=True)
        tag = hashlib.sha1(wt.encode()).hexdigest()[:10]
        for x in glob.glob(os.path.join(VERIF, ".cache", "hooklib*-" + tag + "*")):
            shutil.rmtree(x, ignore_errors=True) if os.path.isdir(x) else os.remove(x)
    shutil.copy(patch, os.path.join(dst, "patch.diff"))
    mp = os.path.join(dst, "meta.json")
    if os.path.exists(mp) and sys.argv[3:]:
        # a re-run of selected checks after the machinery was corrected: keep the first run, add the re-run
        old = json.load(open(mp))
        old["rerun"] = {"at": time.strftime("%Y-%m-%d %H:%M"), "checks": meta.get("checks", {})}
        bad = [c for c, v in meta.get("checks", {}).items() if v["exit"] != 0]
        inc = [c for c, v in meta.get("checks", {}).items() if v["exit"] == 0 and v["inconclusive"]]
        old["after_fix"] = "re-run of %s: %s%s" % (", ".join(meta.get("checks", {})), "all exit 0" if not bad else "exit != 0: " + ", ".join(bad), ("; INCONCLUSIVE parts in " + ", ".join(inc)) if inc else "")
        meta = old
    json.dump(meta, open(mp, "w"), indent=1)
    print(json.dumps({k: v for k, v in meta.items() if k != "checks"}, indent=1))


if __name__ == "__main__":
    main()
