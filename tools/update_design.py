#!/usr/bin/env python3
"""Refreshes the generated seed table inside DESIGN.md."""
import os
import subprocess
V = os.path.dirname(os.path.dirname(os.path.abspath(__file__)))
t = subprocess.run(["python3", os.path.join(V, "tools/seedtable.py")], stdout=subprocess.PIPE, text=True).stdout
p = os.path.join(V, "DESIGN.md")
s = open(p).read()
a = s.index("<!-- BEGIN:seedtable -->") + len("<!-- BEGIN:seedtable -->")
b = s.index("<!-- END:seedtable -->")
open(p, "w").write(s[:a] + "\n" + t + s[b:])

t2 = subprocess.run(["python3", os.path.join(V, "tools/refactortable.py")], stdout=subprocess.PIPE, text=True).stdout
s = open(p).read()
if "<!-- BEGIN:refactortable -->" in s:
    a = s.index("<!-- BEGIN:refactortable -->") + len("<!-- BEGIN:refactortable -->")
    b = s.index("<!-- END:refactortable -->")
    open(p, "w").write(s[:a] + "\n" + t2 + s[b:])

t3 = subprocess.run(["python3", os.path.join(V, "tools/costtable.py")], stdout=subprocess.PIPE, text=True).stdout
s = open(p).read()
if "<!-- BEGIN:costtable -->" in s:
    a = s.index("<!-- BEGIN:costtable -->") + len("<!-- BEGIN:costtable -->")
    b = s.index("<!-- END:costtable -->")
    open(p, "w").write(s[:a] + "\n" + t3 + s[b:])
