#!/usr/bin/env python3
"""Prints the table of seeded changes (seeded/*/meta.json) as markdown."""
import glob
import json
import os

VERIF = os.path.dirname(os.path.dirname(os.path.abspath(__file__)))
rows = []
for d in sorted(glob.glob(os.path.join(VERIF, "seeded", "*"))):
    mp = os.path.join(d, "meta.json")
    if not os.path.exists(mp):
        continue
    m = json.load(open(mp))
    ran = ", ".join("%s:exit %s%s" % (c, v["exit"], " (after strengthening)" if v.get("after_strengthening") else "") for c, v in m.get("checks", {}).items())
    rows.append((os.path.basename(d), m.get("property"), "yes" if m.get("confirmed") else "NO", ", ".join(m.get("caught_by", [])) or "— (missed)", ran, m.get("needs", "")))
print("| seeded change | property | confirmed | caught by (quick tier) | checks run | needs |")
print("|---|---|---|---|---|---|")
for r in rows:
    print("| %s | %s | %s | %s | %s | %s |" % r)
print()
print("%d seeded changes, %d caught by at least one quick check" % (len(rows), sum(1 for r in rows if "missed" not in r[3])))
