#!/usr/bin/env python3
"""Port the seeded changes that conflict textually with the fixes 4defb34 / 5ae857a: both fixes are sets of literal replacements, so a patch written against 25236d4 is ported by
applying it there, applying the same replacements to the result (a replacement whose text the seeded change rewrote is left out) and diffing against HEAD.

usage: tools/seed_port_fix1112.py [--check]      (--check: only verify that the replacements turn 25236d4 into HEAD)
"""
import glob
import os
import shutil
import subprocess
import sys

VERIF = os.path.dirname(os.path.dirname(os.path.abspath(__file__)))
BASE = "25236d4"

T = {
 "derive-ex/src/item_type.rs": [
  ('format_ident!("{}_{}", prefix, ident)', 'format_ident!("__{}_{}", prefix, ident)'),
  ('format_ident!("{}_{}", prefix, self.index)', 'format_ident!("__{}_{}", prefix, self.index)'),
  ("    syn_utils::expand_self,", "    syn_utils::{expand_self, ref_elem},"),
  ('''            let lhs_ty = with_ref(field_ty, lhs_is_ref);
            let rhs_ty = with_ref(field_ty, rhs_is_ref);
            values.push(quote!(<#lhs_ty as #trait_<#rhs_ty>>::#func_name(#lhs, #rhs)));''', '''            let lhs_ty = with_ref_type(field_ty, lhs_is_ref);
            let rhs_ty = with_ref_type(field_ty, rhs_is_ref);
            values.push(quote!(<#lhs_ty as #trait_<#rhs_ty>>::#func_name(#lhs, #rhs)));'''),
  ('''        let wheres = wcb.build(|ty| match (lhs_is_ref, rhs_is_ref) {
            (true, true) => quote!(for<'__a> &'__a #ty : #trait_<&'__a #ty, Output = #ty>),
            (true, false) => quote!(for<'__a> &'__a #ty : #trait_<#ty, Output = #ty>),
            (false, true) => quote!(for<'__a> #ty : #trait_<&'__a #ty, Output = #ty>),
            (false, false) => quote!(#ty : #trait_<#ty, Output = #ty>),
        });''', '''        let wheres = wcb.build(|ty| {
            let ety = ref_elem(ty);
            match (lhs_is_ref, rhs_is_ref) {
                (true, true) => quote!(for<'__a> &'__a #ety : #trait_<&'__a #ety, Output = #ty>),
                (true, false) => quote!(for<'__a> &'__a #ety : #trait_<#ty, Output = #ty>),
                (false, true) => quote!(for<'__a> #ty : #trait_<&'__a #ety, Output = #ty>),
                (false, false) => quote!(#ty : #trait_<#ty, Output = #ty>),
            }
        });'''),
  ('''            let rhs_ty = with_ref(field_ty, rhs_is_ref);
            exprs.push(quote!(<#field_ty as #trait_<#rhs_ty>>::#func_name(&mut #lhs, #rhs)));''', '''            let rhs_ty = with_ref_type(field_ty, rhs_is_ref);
            exprs.push(quote!(<#field_ty as #trait_<#rhs_ty>>::#func_name(&mut #lhs, #rhs)));'''),
  ('''        let wheres = wcb.build(|ty| match rhs_is_ref {
            true => parse_quote!(for<'__a> #ty : #trait_<&'__a #ty>),
            false => parse_quote!(#ty : #trait_<#ty>),
        });''', '''        let wheres = wcb.build(|ty| match rhs_is_ref {
            true => {
                let ety = ref_elem(ty);
                parse_quote!(for<'__a> #ty : #trait_<&'__a #ety>)
            }
            false => parse_quote!(#ty : #trait_<#ty>),
        });'''),
  ('''            let lhs_ty = with_ref(field_ty, lhs_is_ref);
            values.push(quote!(<#lhs_ty as #trait_>::#func_name(#lhs)));''', '''            let lhs_ty = with_ref_type(field_ty, lhs_is_ref);
            values.push(quote!(<#lhs_ty as #trait_>::#func_name(#lhs)));'''),
  ('''        let wheres = wcb.build(|ty| match lhs_is_ref {
            true => quote!(for<'__a> &'__a #ty : #trait_<Output = #ty>),
            false => quote!(#ty : #trait_<Output = #ty>),
        });''', '''        let wheres = wcb.build(|ty| match lhs_is_ref {
            true => {
                let ety = ref_elem(ty);
                quote!(for<'__a> &'__a #ety : #trait_<Output = #ty>)
            }
            false => quote!(#ty : #trait_<Output = #ty>),
        });'''),
  ('''    let target_ty = &fields[0].field.ty;
    let member = fields[0].member();
''', '''    let target_ty = &fields[0].field.ty;
    let target_elem = ref_elem(target_ty);
    let member = fields[0].member();
'''),
  ("fn deref(&self) -> & #target_ty {", "fn deref(&self) -> & #target_elem {"),
  ("fn deref_mut(&mut self) -> &mut #target_ty {", "fn deref_mut(&mut self) -> &mut #target_elem {"),
  ('''fn with_ref(source: &impl ToTokens, is_ref: bool) -> TokenStream {''', '''fn with_ref_type(ty: &Type, is_ref: bool) -> TokenStream {
    if is_ref {
        with_ref(&ref_elem(ty), true)
    } else {
        quote!(#ty)
    }
}
fn with_ref(source: &impl ToTokens, is_ref: bool) -> TokenStream {'''),
 ],
 "derive-ex/src/item_type/compare_op.rs": [
  ("fn eq(&self, __other: &Self) -> bool {", "fn eq(&self, __other: &Self) -> ::core::primitive::bool {"),
  ("__by: impl ::core::ops::Fn(&#ty, &#ty) -> bool) -> bool {", "__by: impl ::core::ops::Fn(&#ty, &#ty) -> ::core::primitive::bool) -> ::core::primitive::bool {"),
  ("-> ::core::option::Option<::core::cmp::Ordering>) -> bool {", "-> ::core::option::Option<::core::cmp::Ordering>) -> ::core::primitive::bool {"),
  ("-> ::core::cmp::Ordering) -> bool {", "-> ::core::cmp::Ordering) -> ::core::primitive::bool {"),
  ("let __to_index = |__this: &Self| -> usize {", "let __to_index = |__this: &Self| -> ::core::primitive::usize {"),
  ("let ty = &field.field.ty;", "let ty = ref_elem(&field.field.ty);"),
  ("use crate::bound::{Bounds, WhereClauseBuilder};", "use crate::bound::{Bounds, WhereClauseBuilder};\nuse crate::syn_utils::ref_elem;"),
 ],
 "derive-ex/src/item_impl.rs": [
  ("use crate::{common::BinaryOp, syn_utils::expand_self};", "use crate::{\n    common::BinaryOp,\n    syn_utils::{expand_self, ref_elem},\n};"),
  ('''fn ref_type(ty: &Type) -> Type {
    parse_quote!(&#ty)
}''', '''fn ref_type(ty: &Type) -> Type {
    let ty = ref_elem(ty);
    parse_quote!(&#ty)
}'''),
 ],
 "derive-ex/src/syn_utils.rs": [
  ("use std::collections::HashSet;\nuse syn::{", "use proc_macro2::TokenStream;\nuse quote::quote;\nuse std::collections::HashSet;\nuse syn::{"),
 ],
}
APPEND = {"derive-ex/src/syn_utils.rs": '''
/// Tokens of `ty` for the position directly behind `&`, `&mut` or `&'a`.
///
/// A bare trait-object or impl-trait type with several bounds is parenthesised, because `&dyn A + B` is not a type.
pub fn ref_elem(ty: &Type) -> TokenStream {
    let bounds = match ty {
        Type::TraitObject(t) => t.bounds.len(),
        Type::ImplTrait(t) => t.bounds.len(),
        _ => 0,
    };
    if bounds > 1 {
        quote!((#ty))
    } else {
        quote!(#ty)
    }
}
'''}


def sh(cmd, cwd=None):
    r = subprocess.run(cmd, shell=True, cwd=cwd, stdout=subprocess.PIPE, stderr=subprocess.STDOUT, text=True)
    return r.returncode, r.stdout


def transform(wt):
    skipped = []
    for f, pairs in T.items():
        p = os.path.join(wt, f)
        s = open(p).read()
        for old, new in pairs:
            if old in s:
                s = s.replace(old, new)
            elif new not in s:
                skipped.append((f, old[:50]))
        if "#target_elem" in s and "let target_elem" not in s:
            # the seeded change rewrote the lines that define the target: keep its own spelling of the signatures
            s = s.replace("& #target_elem {", "& #target_ty {").replace("&mut #target_elem {", "&mut #target_ty {")
        if f in APPEND and "pub fn ref_elem" not in s:
            s = s.rstrip("\n") + "\n" + APPEND[f]
        open(p, "w").write(s)
    return skipped


def main():
    wt = "/tmp/portwt-1112"
    sh("git -C /repo worktree remove --force %s" % wt)
    shutil.rmtree(wt, ignore_errors=True)
    assert sh("git -C /repo worktree add -q --detach %s %s" % (wt, BASE))[0] == 0
    try:
        transform(wt)
        rc, d = sh("git diff HEAD --stat -- derive-ex/src && git -C /repo rev-parse HEAD", cwd=wt)
        rc, d = sh("git diff $(git -C /repo rev-parse HEAD) -- derive-ex/src", cwd=wt)
        print("replacements turn %s into HEAD:" % BASE, "yes" if not d.strip() else "NO\n" + d[:2000])
        if d.strip() or "--check" in sys.argv:
            return
        for dd in sorted(glob.glob(os.path.join(VERIF, "seeded", "*"))):
            patch = os.path.join(dd, "patch.diff")
            if sh("git apply --check %s" % patch, cwd="/repo")[0] == 0:
                continue
            sh("git checkout -q -- . && git clean -fdq derive-ex", cwd=wt)
            src = patch
            # the version of the patch that applies to the base (kept by earlier ports)
            for alt in ("patch.before-4defb34.diff",):
                if os.path.exists(os.path.join(dd, alt)):
                    src = os.path.join(dd, alt)
            if sh("git apply %s" % src, cwd=wt)[0] != 0:
                print("  NOT AT BASE", os.path.basename(dd))
                continue
            skipped = transform(wt)
            rc, d = sh("git diff $(git -C /repo rev-parse HEAD) -- derive-ex/src", cwd=wt)
            if not d.strip():
                print("  EMPTY", os.path.basename(dd))
                continue
            rc, b = sh("cargo build --offline -p derive-ex 2>&1 | grep -E '^error' | head -3", cwd=wt)
            if b.strip():
                print("  DOES NOT BUILD", os.path.basename(dd), b[:200].replace("\n", " "))
                continue
            if not os.path.exists(os.path.join(dd, "patch.before-4defb34.diff")):
                shutil.copy(patch, os.path.join(dd, "patch.before-4defb34.diff"))
            open(patch, "w").write(d)
            ok = sh("git apply --check %s" % patch, cwd="/repo")[0] == 0
            print("  ported" if ok else "  STILL NOT APPLYING", os.path.basename(dd), ("(replacements left out: %s)" % skipped) if skipped else "")
    finally:
        sh("git -C /repo worktree remove --force %s" % wt)
        shutil.rmtree(wt, ignore_errors=True)


if __name__ == "__main__":
    main()
