#!/usr/bin/env python3
"""Regenerates MANIFEST.json from the table below (python3 tools/mkmanifest.py)."""
import json
import os

VERIF = os.path.dirname(os.path.dirname(os.path.abspath(__file__)))

E1_NOTE = ("Trusted: rustc MIR -> Kani goto translation, CBMC 6.11 (cadical), the generated reference oracle (DESIGN.md Appendix A) and the support types in "
           "vlib/support.rs. Programs are enumerated from a bounded grammar (stated in the evidence file); values are symbolic. Counterexamples are replayed natively "
           "(dev + release) against the real macro before a VIOLATION is printed; a compile failure of a generated program is reported as a rustc verdict.")

CHECKS = {
    "C01": dict(engine="E1 kani-gen", ref="DESIGN.md §2, §6 C01",
                text="Bounded model checking (Kani/CBMC) of the ==, partial_cmp and cmp methods that the real macro generates for every program of a stated grammar "
                     "(shapes x helper-attribute placements x derived subsets x entry points): per program the solver decides agreement with a reference comparator "
                     "generated from the documentation for ALL pairs of values.",
                note=E1_NOTE + " Acceptance of a placement is read from the real macro (R).",
                tech="Kani/CBMC bounded model checking of macro-generated code vs generated reference oracle; symbolic operand values"),
    "C02": dict(engine="E1 kani-gen", ref="DESIGN.md §6 C02",
                text="Kani/CBMC decides model-free coherence laws (==/partial_cmp/cmp/hash agreement, equivalence, total order, swap) for all pairs and triples of values of "
                     "every accepted point of the 3136-point per-field attribute matrix (thorough: all points x placements x closed trait subsets; quick: core + seeded sample).",
                note=E1_NOTE + " All key/by callbacks express the same key (payload >> 1). That the refused set is the documented one is C05.",
                tech="Kani/CBMC bounded model checking of algebraic laws over macro-generated impls; symbolic value triples"),
    "C06": dict(engine="E1 kani-gen", ref="DESIGN.md §6 C06",
                text="Kani/CBMC compares, for all field values, the byte feed that the derived Hash::hash gives a recording Hasher with the reference feed (effective input of "
                     "every non-ignored field in order), and decides feed equality <=> effective-input equality for two values of one variant.",
                note=E1_NOTE + " Fixed-width field types only; recorder capacity 16 bytes with an explicit overflow assertion.",
                tech="Kani/CBMC bounded model checking of macro-generated Hash impls against a recording Hasher"),
    "C07": dict(engine="E1 kani-gen", ref="DESIGN.md §6 C07",
                text="Kani/CBMC decides, for all payloads and all ordered pairs of variants, that clone / clone_from produce the reference value and exactly the reference "
                     "trace of Clone::clone / clone_from calls on call-recording fields.",
                note=E1_NOTE, tech="Kani/CBMC bounded model checking of macro-generated Clone impls with call-trace instrumentation"),
    "C08": dict(engine="E1 kani-gen", ref="DESIGN.md §6 C08",
                text="Kani/CBMC decides for all operand payloads that each of the 22 operator traits derived from a struct computes the field-wise reference in all 8 "
                     "owned/reference forms, with exactly one call per field in order and operands in the right order (non-commutative recording field type).",
                note=E1_NOTE, tech="Kani/CBMC bounded model checking of macro-generated operator impls with operand-order traces"),
    "C09": dict(engine="E1 kani-gen", ref="DESIGN.md §6 C09",
                text="Kani/CBMC decides for all operand payloads that every impl derive_ex generates from a user-written `impl Op`/`impl OpAssign` returns the base impl's result on "
                     "the same operands in the same order, calls it exactly once and clones an operand exactly when it was received by reference but is needed by value.",
                note=E1_NOTE + " One recorded known finding (Self in the where-clause of a base impl on &T), see known_findings.json.",
                tech="Kani/CBMC bounded model checking of macro-generated forwarding impls with call/clone traces"),
    "C10": dict(engine="E1 kani-gen", ref="DESIGN.md §6 C10",
                text="Kani/CBMC decides for all field payloads that the bytes written by the derive_ex Debug impl equal those of a same-named std-derived twin with the ignored fields "
                     "deleted (or of the transparent field alone), for concrete non-alternate format specs (width, fill/align, sign, precision, hex, zero-pad); the field type echoes the flags. "
                     "No solver verdict for `{:#?}` on shapes with fields: those programs are only run natively on sampled payloads.",
                note=E1_NOTE + " Restricted claim: non-alternate formatter options (PadAdapter does not finish under CBMC: measured undecided after 900 s for a 1-field struct); the alternate flag "
                     "is covered by native sampling of the same check functions (8880 runs quick), which is sampling and said so in the evidence.",
                tech="Kani/CBMC bounded model checking of macro-generated Debug impls against a std-derived twin, byte-exact sink"),
    "C12": dict(engine="E1 kani-gen", ref="DESIGN.md §6 C12",
                text="Kani/CBMC decides for all values that Clone, clone_from, Default, ==, !=, partial_cmp, <, >=, cmp of the derive_ex type agree with a twin carrying #[derive(..)], that == implies "
                     "equal Hash feeds and (debug flavour) that `{:?}` prints the same bytes, over a shape grammar (struct kinds, 0..5 variants, lifetime/type/const parameters with defaults and "
                     "where-clauses, raw identifiers, repr/non_exhaustive). Behavioural clause; `the program compiles` is reported as rustc's verdict only.",
                note=E1_NOTE + " Restricted claim: behavioural equivalence; compile success only as a rustc by-product; no unsized tails, no `{:#?}`.",
                tech="Kani/CBMC bounded model checking of macro-generated impls against std-derived twins"),
    "C13": dict(engine="E1 kani-gen", ref="DESIGN.md §6 C13",
                text="Kani/CBMC decides for all values that representative programs of every trait family still compute the reference results when fields/variants/types/parameters carry the "
                     "expansion's own identifiers (also user items called like the generics of nested helper functions), the use site shadows prelude and core names through a glob import, and field types "
                     "and the derived types themselves have wrong-answer inherent methods named like the trait methods.",
                note=E1_NOTE + " Restricted claim: silent capture (what the impls compute); whether a renamed program compiles is rustc's verdict (reported: this is how the defect repaired by 25236d4 - "
                     "types / const parameters / items in scope called like the generated locals - was found); #![no_std] is not built - instead the real "
                     "expansion of a corpus is scanned natively for paths through std / alloc (sampling, said so in the evidence).",
                tech="Kani/CBMC bounded model checking of macro-generated impls under hostile names and scopes"),
    "C15": dict(engine="E1 kani-gen", ref="DESIGN.md §6 C15",
                text="Kani/CBMC decides for all values that the same type derived through the attribute macro, through #[derive(Ex)], with split / reordered lists and with supersets of co-derived "
                     "traits has identical derived methods (comparison / Hash, Clone / Default incl. type-level values, Debug with helper attributes); plus E3 obligations on the entry functions, "
                     "DeriveEntry::from_root and from_args_list (same initial attribute kinds, lists merged, entries in list order, every entry's arguments are its own).",
                note=E1_NOTE + " Restricted claim: behavioural equality, not token equality of expansions.",
                tech="Kani/CBMC metamorphic equivalence of macro-generated impls + symbolic execution of rustc MIR for the entry-point kernel"),
    "C11": dict(engine="E1 kani-gen", ref="DESIGN.md §6 C11",
                text="Kani/CBMC decides that default() returns the reference value for every program of a grammar over shapes, default-variant choices, per-field default "
                     "expression kinds (symbolic seeds behind call/block expressions, conversion-observing field types) and type-level values.",
                note=E1_NOTE + " The Into/no-Into decision per Expr kind and the enum rejection rules are read off compile verdicts only.",
                tech="Kani/CBMC bounded model checking of macro-generated Default impls"),
    "C03": dict(engine="E3 mir-smt", ref="DESIGN.md §3, §6 C03",
                text="Symbolic path execution of every builder's MIR with z3: per path, the field-type bounds pushed are exactly those of the fields the documentation calls used, "
                     "given the bound(..) chain reached its end; plus the parameter-mention kernel (GenericParamSet::new, Visitor::visit_path). The instantiation clause (the impl applies "
                     "exactly when the used field types implement the trait) is observed, not encoded: generated programs compare `X<P..>: Trait` of the real derive with a hand-written "
                     "twin impl carrying the documented where-clause, for probe types implementing chosen trait subsets, as compile-time constants decided by rustc's trait solver.",
                note="Trusted: rustc's MIR dump, the executor's MIR subset semantics and callee models (validated by native replay of every counterexample), z3. Token plumbing is opaque. "
                     "Bounds: <=2 fields, 1 variant (E3); instantiation programs: 12 trait families x a 16-entry field-type grammar x attribute shapes x {PAll, PNone, P<only>} per type parameter. "
                     "The instantiation verdicts are rustc's (folded constants), Kani only hosts them.",
                tech="symbolic execution of rustc MIR + z3 (one query per path), native replay of models; trait-solver probing programs under Kani for the instantiation clause"),
    "C04": dict(engine="E3 mir-smt", ref="DESIGN.md §3, §6 C04",
                text="Symbolic path execution of every builder's MIR (Clone, Copy, Debug, Default, Deref, operators, five comparison traits; struct and enum) with z3: per path the "
                     "sequence of bound(..) levels consulted equals the documented nine-level resolution under the path condition, with presence / `..` / entry-presence of every level symbolic; "
                     "DeriveEntry::from_args_list takes each entry's two argument levels from its own written arguments. Counterexamples are turned into items with one marker predicate per "
                     "level and replayed through the real macro. End to end (parser and where-clause included): generated programs with bound(...) written at sampled subsets of the nine places, "
                     "compared through rustc's trait solver (compile-time constants) with a hand-written twin carrying the documented where-clause.",
                note="Trusted: rustc's MIR dump, the executor's MIR subset semantics and callee models, z3 (thorough: cross-checked with z3 4.8.12 and cvc5). Bounds: <=2 variants x <=2 fields. "
                     "`Bound::parse` / `Bounds::from` are outside the E3 encoding; they are exercised only by the resolution programs (7 traits x struct/enum x sampled placements x 5-6 forms; "
                     "verdicts are rustc's, Kani hosts them). Outside: build_default_for_enum in E3, retention of the type's own where-clause (WhereClauseBuilder::new is opaque).",
                tech="symbolic execution of rustc MIR + z3 (one query per path), native replay of models; trait-solver probing programs under Kani for the written-argument-to-where-clause end"),
    "C05": dict(engine="E3 mir-smt", ref="DESIGN.md §3, §6 C05",
                text="Symbolic path execution of the five comparison body builders, the placement verifier and the per-entry error isolation with z3: a path returns Err exactly when "
                     "the documented rejection rule holds for some existing field under the path condition (all 20 attribute-presence atoms of a field symbolic).",
                note="Trusted: rustc's MIR dump, executor semantics (validated on every run against the real macro on sampled configurations), z3. Bounds: <=2 fields / variants. "
                     "Parse wiring (which parse result lands in which attribute slot, every argument copied into the entry, attribute name table) is decided with the result of structmeta's "
                     "`parse_single` as a symbolic input; structmeta's own token parsing is outside and is observed natively on the complete placement matrix and the per-owner recognition "
                     "of every helper attribute (120 expansions; a disagreement is a verdict of the macro's own diagnostics, labelled so).",
                tech="symbolic execution of rustc MIR + z3, encoder validation against the real macro, native replay of models"),
    "C14": dict(engine="E3 mir-smt", ref="DESIGN.md §3, §6 C14",
                text="Symbolic path execution of the attribute-ownership kernel with z3: HelperAttributeKinds::{is_match, extend} against the documentation table, remove_attrs on vectors of 0..3 "
                     "(thorough 0..5) symbolic attributes (kept == the non-matching ones, in order, no panic), the attribute-macro entry functions (incl. that the core builders leave the derive_ex flag of the attribute kinds as they found it on every way out) and lib.rs. "
                     "Restricted scope: token-for-token survival of the rest of the item is not decided.",
                note="Trusted: rustc's MIR dump, executor semantics, z3. Restricted claim: which attributes are stripped, at all three levels, also when derivation fails. Obligations that are "
                     "facts about the code's structure become a VIOLATION only when a native probe of the behaviour they stand for fails (vlib/probes.py), otherwise INCONCLUSIVE.",
                tech="symbolic execution of rustc MIR + z3"),
    "C17": dict(engine="E3 mir-smt", ref="DESIGN.md §3, §6 C17",
                text="Symbolic path execution of build_eq_body / build_eq_checker / build_compare_op with z3: the hidden assertion applies the Eq-bounded helper to exactly the compared "
                     "components and its tokens end up in the returned stream (for enums inside the arm matched by the field's own variant; token streams followed as objects), the helper carries the Eq "
                     "bound and sits in a type-checked function item. Restricted scope: that rustc rejects a non-Eq argument is not re-checked.",
                note="Trusted: rustc's MIR dump, executor semantics, z3. Macro side of the assertion only. Models are replayed in three written forms (named fields, generic fields under an explicit "
                     "bound(), tuple variants with an ignored field in front).",
                tech="symbolic execution of rustc MIR + z3, native replay of models"),
    "C19": dict(engine="E3 mir-smt", ref="DESIGN.md §6 C19",
                text="Symbolic path execution with z3 of the dump kernel: DeriveEntry::from_args_list (an entry's flag is list.dump || own.dump of exactly its list / trait, all flags and "
                     "argument presences symbolic), DeriveEntry::apply_dump (pass-through / message / builder error, message template = label + one `{}` of the generated stream), "
                     "the struct and enum core loops (each result through its own entry's apply_dump, appended in order) and item_impl::build_by_item_impl (code only without dump; the "
                     "dump path builds the stream by the same steps as its sibling). Restricted scope: the printing of the stream into the message is not encoded; it is compared "
                     "natively on a stated list of inputs.",
                note="Trusted: rustc's MIR dump, executor semantics, z3. The builders and item_impl's helpers are opaque (only where their results flow is examined). "
                     "`Display for TokenStream` is outside the encoding: the native differential (R) on the listed (item, trait list, dump placement, entry point) tuples is sampling, and said so.",
                tech="symbolic execution of rustc MIR + z3, native replay of models; native differential of expansions with / without dump for the printing step"),
    "C16": dict(engine="E3 mir-smt", ref="DESIGN.md §6 C16",
                text="Symbolic path execution with z3 of the panic-freedom kernel: every structural panic site of the macro's own code - `unreachable!()`, index bounds `assert`s, "
                     "calls of unwrap / expect / Index on data the macro built - is found in the MIR of the current tree and must be unreachable on every feasible path, either for every "
                     "argument value of its function or in every calling context (builders with all configuration atoms symbolic, the five comparison bodies with all 20 atoms of a field, "
                     "the two core dispatch loops with the Deref builder inlined). Restricted scope: totality over arbitrary token streams (syn / structmeta parsers, parse_quote!, "
                     "Ident::new), well-formedness of the printed tokens and determinism are NOT decided by the solver; they are sampled natively (fresh expander processes on a corpus, expanded in the same, the reverse and a shuffled order) "
                     "and reported as sampling.",
                note="Trusted: rustc's MIR dump, executor semantics and callee models (panic-aware models of unwrap / expect / Index; bounds checks are the MIR's own assert terminators), z3. "
                     "Restricted claim: the panic-freedom kernel over the configuration space; partial calls that depend on token text are listed in the evidence and only exercised natively. "
                     "A feasible path into a panic site is a VIOLATION only when an input built from the model (or the native battery) makes the real macro panic; otherwise INCONCLUSIVE. "
                     "Stated invariant: fields of `Fields::Named` have identifiers (syn).",
                tech="symbolic execution of rustc MIR + z3 (reachability of panic sites), native replay; native sampling of totality / well-formedness / determinism across expander processes"),
    "C18": dict(engine="E1 kani-gen", ref="DESIGN.md §6 C18",
                text="Kani/CBMC decides pointer identity of deref()/deref_mut() with the field, Target identity (type-level) and that writes land in the field, for all field values.",
                note=E1_NOTE + " The arity rejection (0 or >=2 fields) and the tokens of the emitted signatures / bodies (`type Target = <field type>`, `-> &[mut] <field type>`, `&[mut] self.<field>`) "
                     "are E3 obligations on build_deref_for_struct attached to this check (confirmed by native probes).",
                tech="Kani/CBMC bounded model checking of macro-generated Deref/DerefMut impls; symbolic execution of rustc MIR + z3 for arity and emitted signature"),
}

NOT_APPLICABLE = {
    "C20": "the deciding engine is rustc's type checker and lint pass; there is no solver encoding of it (compile failures of generated programs are still reported as rustc verdicts by the E1 checks)",
}


def main():
    props = [json.loads(l)["id"] for l in open(os.path.join(VERIF, "properties.jsonl"))]
    m = {
        "version": 1,
        "setup_cmd": "./setup.sh",
        "hooks": {
            "guard": "frozenlib_derive_ex_verif",
            "enable": "RUSTFLAGS='--cfg frozenlib_derive_ex_verif' when building /verif/hooklib (its [lib] path is /repo/derive-ex/src/lib.rs, built as an ordinary library exposing "
                      "verif_hooks::{expand_attr,expand_derive}); the Kani harness crates and the MIR dump use the unmodified crate",
            "baseline_off_cmd": "cd /repo && cargo test --workspace --no-fail-fast --offline",
            "source_commits": ["161a4d9"],
            "add_only": True,
        },
        "engines": [
            {"name": "E1 kani-gen", "path": "vlib/kani_runner.py", "serves_properties": sorted(k for k, v in CHECKS.items() if v["engine"].startswith("E1")),
             "kind_free_text": "Kani 0.68 / CBMC 6.11 over impls generated by the real proc-macro at harness build time; symbolic field values; native replay of counterexamples"},
            {"name": "E3 mir-smt", "path": "vlib/mir/", "serves_properties": sorted(k for k, v in CHECKS.items() if v["engine"].startswith("E3")),
             "kind_free_text": "symbolic path execution of derive-ex's nightly MIR with z3; configuration atoms symbolic; models replayed through the native expander"},
            {"name": "R native expander", "path": "hooklib/", "serves_properties": sorted(CHECKS),
             "kind_free_text": "in-process expansion through the cfg hook; replays counterexamples, validates the MIR encoder, tells generators which inputs the macro accepts; never decides"},
        ],
        "checks": [],
        "notes": "See DESIGN.md. Exit codes: 0 held on everything explored, 1 VIOLATION (natively replayed), 2 broken check / unconfirmed counterexample. "
                 "known_findings.json lists the genuine defects found (one left open, C09, printed as KNOWN-FINDING) and the ten fix: commits made in /repo.",
        "not_applicable": [],
    }
    for pid in props:
        if pid in CHECKS:
            c = CHECKS[pid]
            m["checks"].append({
                "property_id": pid, "quick_cmd": "./check %s quick" % pid, "thorough_cmd": "./check %s thorough" % pid,
                "evidence_file": "/verif/evidence/%s.json" % pid, "replay_cmd_template": "sh {path}/run.sh", "engine": c["engine"],
                "level_claimed": {"category": "model_checking", "text": c["text"], "design_ref": c["ref"]},
                "level_note": c["note"], "technique": c["tech"]})
        else:
            m["not_applicable"].append({"property_id": pid, "reason": NOT_APPLICABLE.get(pid, "check not built yet (work in progress; engine planned in DESIGN.md §6)")})
    json.dump(m, open(os.path.join(VERIF, "MANIFEST.json"), "w"), indent=1)
    print("checks:", [c["property_id"] for c in m["checks"]])


if __name__ == "__main__":
    main()
