#!/usr/bin/env python3
"""Regenerates MANIFEST.json from the table below (python3 tools/mkmanifest.py)."""
import json
import os

VERIF = os.path.dirname(os.path.dirname(os.path.abspath(__file__)))

E1_NOTE = ("Trusted: rustc MIR -> Kani goto translation, CBMC 6.11 (cadical), the generated reference oracle (DESIGN.md Appendix A) and the support types in "
           "vlib/support.rs. Programs are enumerated from a bounded grammar (stated in the evidence file); values are symbolic. Counterexamples are replayed natively "
           "(dev + release) against the real macro before a VIOLATION is printed; a compile failure of a generated program is reported as a rustc verdict.")

CHECKS = {
    "C01": dict(engine="E1 kani-gen", ref="DESIGN.md §2, §6 C01",
                text="Bounded model checking (Kani/CBMC) of the ==, partial_cmp and cmp methods that the real macro generates for every program of a stated grammar "
                     "(shapes x helper-attribute placements x derived subsets x entry points): per program the solver decides agreement with a reference comparator "
                     "generated from the documentation for ALL pairs of values.",
                note=E1_NOTE + " Acceptance of a placement is read from the real macro (R).",
                tech="Kani/CBMC bounded model checking of macro-generated code vs generated reference oracle; symbolic operand values"),
    "C02": dict(engine="E1 kani-gen", ref="DESIGN.md §6 C02",
                text="Kani/CBMC decides model-free coherence laws (==/partial_cmp/cmp/hash agreement, equivalence, total order, swap) for all pairs and triples of values of "
                     "every accepted point of the 3136-point per-field attribute matrix (thorough: all points x placements x closed trait subsets; quick: core + seeded sample).",
                note=E1_NOTE + " All key/by callbacks express the same key (payload >> 1). That the refused set is the documented one is C05.",
                tech="Kani/CBMC bounded model checking of algebraic laws over macro-generated impls; symbolic value triples"),
    "C06": dict(engine="E1 kani-gen", ref="DESIGN.md §6 C06",
                text="Kani/CBMC compares, for all field values, the byte feed that the derived Hash::hash gives a recording Hasher with the reference feed (effective input of "
                     "every non-ignored field in order), and decides feed equality <=> effective-input equality for two values of one variant.",
                note=E1_NOTE + " Fixed-width field types only; recorder capacity 16 bytes with an explicit overflow assertion.",
                tech="Kani/CBMC bounded model checking of macro-generated Hash impls against a recording Hasher"),
    "C07": dict(engine="E1 kani-gen", ref="DESIGN.md §6 C07",
                text="Kani/CBMC decides, for all payloads and all ordered pairs of variants, that clone / clone_from produce the reference value and exactly the reference "
                     "trace of Clone::clone / clone_from calls on call-recording fields.",
                note=E1_NOTE, tech="Kani/CBMC bounded model checking of macro-generated Clone impls with call-trace instrumentation"),
    "C08": dict(engine="E1 kani-gen", ref="DESIGN.md §6 C08",
                text="Kani/CBMC decides for all operand payloads that each of the 22 operator traits derived from a struct computes the field-wise reference in all 8 "
                     "owned/reference forms, with exactly one call per field in order and operands in the right order (non-commutative recording field type).",
                note=E1_NOTE, tech="Kani/CBMC bounded model checking of macro-generated operator impls with operand-order traces"),
    "C18": dict(engine="E1 kani-gen", ref="DESIGN.md §6 C18",
                text="Kani/CBMC decides pointer identity of deref()/deref_mut() with the field, Target identity (type-level) and that writes land in the field, for all field values.",
                note=E1_NOTE + " The arity rejection (0 or >=2 fields) is outside this check.", tech="Kani/CBMC bounded model checking of macro-generated Deref/DerefMut impls"),
}

NOT_APPLICABLE = {
    "C16": "quantifies over arbitrary token streams through syn's parser; Kani cannot compile TokenStream code here (ICE) and the MIR executor treats parsing as opaque; determinism is a whole-crate data-flow fact (DESIGN.md §6)",
    "C19": "the observable is the text of a compile error produced by TokenStream's Display; no encoding of token printing / re-lexing is within reach (DESIGN.md §6)",
    "C20": "the deciding engine is rustc's type checker and lint pass; there is no solver encoding of it (compile failures of generated programs are still reported as rustc verdicts by the E1 checks)",
}


def main():
    props = [json.loads(l)["id"] for l in open(os.path.join(VERIF, "properties.jsonl"))]
    m = {
        "version": 1,
        "setup_cmd": "./setup.sh",
        "hooks": {
            "guard": "frozenlib_derive_ex_verif",
            "enable": "RUSTFLAGS='--cfg frozenlib_derive_ex_verif' when building /verif/hooklib (its [lib] path is /repo/derive-ex/src/lib.rs, built as an ordinary library exposing "
                      "verif_hooks::{expand_attr,expand_derive}); the Kani harness crates and the MIR dump use the unmodified crate",
            "baseline_off_cmd": "cd /repo && cargo test --workspace --no-fail-fast --offline",
            "source_commits": ["161a4d9"],
            "add_only": True,
        },
        "engines": [
            {"name": "E1 kani-gen", "path": "vlib/kani_runner.py", "serves_properties": sorted(k for k, v in CHECKS.items() if v["engine"].startswith("E1")),
             "kind_free_text": "Kani 0.68 / CBMC 6.11 over impls generated by the real proc-macro at harness build time; symbolic field values; native replay of counterexamples"},
            {"name": "E3 mir-smt", "path": "vlib/mir/", "serves_properties": sorted(k for k, v in CHECKS.items() if v["engine"].startswith("E3")),
             "kind_free_text": "symbolic path execution of derive-ex's nightly MIR with z3; configuration atoms symbolic; models replayed through the native expander"},
            {"name": "R native expander", "path": "hooklib/", "serves_properties": sorted(CHECKS),
             "kind_free_text": "in-process expansion through the cfg hook; replays counterexamples, validates the MIR encoder, tells generators which inputs the macro accepts; never decides"},
        ],
        "checks": [],
        "notes": "See DESIGN.md. Exit codes: 0 held on everything explored, 1 VIOLATION (natively replayed), 2 broken check / unconfirmed counterexample. "
                 "known_findings.json lists genuine defects (none open) and the fix: commits made in /repo.",
        "not_applicable": [],
    }
    for pid in props:
        if pid in CHECKS:
            c = CHECKS[pid]
            m["checks"].append({
                "property_id": pid, "quick_cmd": "./check %s quick" % pid, "thorough_cmd": "./check %s thorough" % pid,
                "evidence_file": "/verif/evidence/%s.json" % pid, "replay_cmd_template": "sh {path}/run.sh", "engine": c["engine"],
                "level_claimed": {"category": "model_checking", "text": c["text"], "design_ref": c["ref"]},
                "level_note": c["note"], "technique": c["tech"]})
        else:
            m["not_applicable"].append({"property_id": pid, "reason": NOT_APPLICABLE.get(pid, "check not built yet (work in progress; engine planned in DESIGN.md §6)")})
    json.dump(m, open(os.path.join(VERIF, "MANIFEST.json"), "w"), indent=1)
    print("checks:", [c["property_id"] for c in m["checks"]])


if __name__ == "__main__":
    main()
