#!/bin/sh
# runs every quick check under several VERIF_SEED values on the unchanged tree; prints any non-zero exit
cd "$(dirname "$0")/.." || exit 2
export VERIF_EVIDENCE_DIR=${VERIF_EVIDENCE_DIR:-/tmp/seed-sweep-evidence}
rc=0
for seed in ${SEEDS:-1 2 3 5 8 13}; do
  for c in C01 C02 C03 C04 C05 C06 C07 C08 C09 C10 C11 C12 C13 C14 C15 C16 C17 C18 C19; do
    VERIF_SEED=$seed ./check $c quick > /tmp/sweep.out 2>/tmp/sweep.err; e=$?
    echo "seed=$seed $c exit=$e $(grep -c '^VIOLATION' /tmp/sweep.out) violations $(grep -c BROKEN /tmp/sweep.out) broken $(grep -c INCONCLUSIVE /tmp/sweep.out) inconclusive"
    if [ $e -ne 0 ]; then rc=1; grep -E "VIOLATION|DETAIL|BROKEN" /tmp/sweep.out | head -6; fi
  done
done
exit $rc
