#!/usr/bin/env python3
"""Confirm a seeded change and record it under /verif/seeded/<name>/.

usage: tools/seed_verify.py <name> <property> <patch.diff> <demo.rs> "<needs>" [check ids...]
 1. in a scratch worktree of /repo (removed afterwards): the suite passes with the patch, the demo fails with it and passes without it
 2. in /repo: apply the patch, run the given checks (quick tier), undo the patch
"""
import json
import os
import shutil
import subprocess
import sys
import tempfile
import time

VERIF = os.path.dirname(os.path.dirname(os.path.abspath(__file__)))
ENV = dict(os.environ, CARGO_NET_OFFLINE="true")


def sh(cmd, cwd=None, timeout=3600):
    r = subprocess.run(cmd, shell=True, cwd=cwd, env=ENV, stdout=subprocess.PIPE, stderr=subprocess.STDOUT, text=True, timeout=timeout)
    return r.returncode, r.stdout


def suite(wt):
    rc, out = sh("cargo test --workspace --no-fail-fast --offline 2>&1 | grep -E '^test result|error(\\[|:)' ", cwd=wt)
    passed = failed = 0
    for l in out.splitlines():
        if l.startswith("test result"):
            w = l.split()
            passed += int(w[3])
            failed += int(w[5])
    return passed, failed, out[-500:]


def main():
    name, prop, patch, demo, needs = sys.argv[1:6]
    checks = sys.argv[6:] or [prop]
    dst = os.path.join(VERIF, "seeded", name)
    os.makedirs(dst, exist_ok=True)
    meta = {"property": prop, "needs": needs, "ran": []}
    wt = tempfile.mkdtemp(prefix="seedwt-", dir="/tmp")
    os.rmdir(wt)
    rc, out = sh("git -C /repo worktree add -q --detach %s HEAD" % wt)
    assert rc == 0, out
    try:
        shutil.copy(demo, os.path.join(wt, "derive-ex-tests/tests/demo_seed.rs"))
        rc0, out0 = sh("cargo test --offline -p derive-ex-tests --test demo_seed 2>&1 | tail -5", cwd=wt)
        clean_ok = "test result: ok" in out0
        rc, out = sh("git apply %s" % os.path.abspath(patch), cwd=wt)
        if rc != 0:
            # the tree moved on since the patch was written (fix: commits): retry with fuzz and store the refreshed diff
            rc, out = sh("patch -p1 --fuzz=3 --no-backup-if-mismatch < %s" % os.path.abspath(patch), cwd=wt)
            if rc != 0 and os.environ.get("SEED_BASE"):
                # still not: the patch was written against an earlier commit and overlaps a later fix. Apply it there and bring the later commits on top (3-way)
                sh("git checkout -q -- . && git clean -fdq derive-ex", cwd=wt)
                base = os.environ["SEED_BASE"]
                rc, out = sh("git checkout -q --detach %s && git apply %s && git -c user.name=v -c user.email=v@v commit -qam seed && git -c user.name=v -c user.email=v@v cherry-pick %s..%s" % (
                    base, os.path.abspath(patch), base, sh("git -C /repo rev-parse HEAD")[1].strip()), cwd=wt)
                if rc == 0:
                    sh("git reset -q %s" % sh("git -C /repo rev-parse HEAD")[1].strip(), cwd=wt)
                    meta["ported_from"] = base
                else:
                    sh("git cherry-pick --abort", cwd=wt)
            assert rc == 0, "patch does not apply: " + out
            sh("find . -name '*.orig' -delete", cwd=wt)
            rc2, refreshed = sh("git diff -- derive-ex", cwd=wt)
            patch = os.path.join(dst, "patch.refreshed.diff")
            open(patch, "w").write(refreshed)
            meta["patch_refreshed"] = True
        p, f, tail = suite(wt)
        # the suite count includes the demo; rerun demo alone for the verdict
        rc1, out1 = sh("cargo test --offline -p derive-ex-tests --test demo_seed 2>&1 | tail -8", cwd=wt)
        mut_fails = "test result: ok" not in out1
        os.remove(os.path.join(wt, "derive-ex-tests/tests/demo_seed.rs"))
        p2, f2, tail2 = suite(wt)
        meta["ran"].append({"cmd": "cargo test --workspace --no-fail-fast --offline (scratch worktree, patch applied, demo removed)", "passed": p2, "failed": f2})
        meta["ran"].append({"cmd": "demo on clean tree", "passes": clean_ok})
        meta["ran"].append({"cmd": "demo with patch", "fails": mut_fails, "tail": out1[-400:]})
        meta["confirmed"] = bool(clean_ok and mut_fails and f2 == 0 and p2 >= 397)
        # run the checks against the patched tree (VERIF_REPO points the machinery at the scratch worktree,
        # which is /repo's HEAD + the patch; equivalent to `git -C /repo apply` but does not disturb /repo)
        detected = {}
        for c in checks:
            t0 = time.time()
            rc, out = sh("VERIF_EVIDENCE_DIR=%s/evidence-out VERIF_REPO=%s ./check %s quick" % (wt, wt, c), cwd=VERIF)
            vio = [l for l in out.splitlines() if l.startswith("VIOLATION") or l.startswith("  DETAIL")]
            detected[c] = {"exit": rc, "wall_s": round(time.time() - t0, 1), "lines": vio[:6]}
    finally:
        sh("git -C /repo worktree remove --force %s" % wt)
        shutil.rmtree(wt, ignore_errors=True)
        import glob, hashlib
        tag = hashlib.sha1(wt.encode()).hexdigest()[:10]
        for d in glob.glob(os.path.join(VERIF, ".cache", "hooklib*-" + tag + "*")):
            shutil.rmtree(d, ignore_errors=True) if os.path.isdir(d) else os.remove(d)
    shutil.copy(patch, os.path.join(dst, "patch.diff"))
    shutil.copy(demo, os.path.join(dst, "demo.rs"))
    meta["checks"] = detected
    meta["caught_by"] = [c for c, d in detected.items() if d["exit"] == 1]
    json.dump(meta, open(os.path.join(dst, "meta.json"), "w"), indent=1)
    print(json.dumps(meta, indent=1))


if __name__ == "__main__":
    main()
