#!/usr/bin/env python3
"""Make every stored seeded patch apply to /repo's current HEAD (`git -C /repo apply seeded/<id>/patch.diff`).
Patches written against an earlier HEAD are ported with `patch --fuzz=3` in a scratch worktree and re-diffed."""
import glob
import json
import os
import shutil
import subprocess
import tempfile

V = os.path.dirname(os.path.dirname(os.path.abspath(__file__)))


def sh(cmd, cwd=None):
    r = subprocess.run(cmd, shell=True, cwd=cwd, stdout=subprocess.PIPE, stderr=subprocess.STDOUT, text=True)
    return r.returncode, r.stdout


bad = []
for d in sorted(glob.glob(os.path.join(V, "seeded", "*"))):
    p = os.path.join(d, "patch.diff")
    if not os.path.exists(p):
        continue
    rc, out = sh("git -C /repo apply --check %s" % p)
    if rc == 0:
        continue
    wt = tempfile.mkdtemp(prefix="seedport-", dir="/tmp")
    os.rmdir(wt)
    sh("git -C /repo worktree add -q --detach %s HEAD" % wt)
    try:
        rc, out = sh("patch -p1 --fuzz=3 --no-backup-if-mismatch < %s" % p, cwd=wt)
        if rc != 0:
            bad.append((os.path.basename(d), out.strip().splitlines()[-1] if out.strip() else "?"))
            continue
        sh("find . -name '*.orig' -delete -o -name '*.rej' -delete", cwd=wt)
        rc, diff = sh("git diff -- derive-ex", cwd=wt)
        shutil.copy(p, os.path.join(d, "patch.original.diff"))
        open(p, "w").write(diff)
        mp = os.path.join(d, "meta.json")
        if os.path.exists(mp):
            m = json.load(open(mp))
            m["ported_to_head"] = subprocess.run("git -C /repo rev-parse --short HEAD", shell=True, stdout=subprocess.PIPE, text=True).stdout.strip()
            json.dump(m, open(mp, "w"), indent=1)
        print("ported", os.path.basename(d))
    finally:
        sh("git -C /repo worktree remove --force %s" % wt)
        shutil.rmtree(wt, ignore_errors=True)
for b in bad:
    print("DOES NOT APPLY:", b)
print("done; %d not portable" % len(bad))
