#!/bin/sh
# Run once after a fresh restore, offline: builds the native expander (hook library) and warms
# one scratch slot so that the first check does not pay for the dependency builds.
cd "$(dirname "$0")" || exit 2
export CARGO_NET_OFFLINE=true
python3-vt - <<'PY'
import sys
sys.path.insert(0, ".")
from vlib import common, kani_runner
common.build_expander()
# warm the Kani target dir (builds syn/quote/structmeta/derive-ex for the host once)
p = kani_runner.Program("p00000", """use crate::support::*;
use derive_ex::derive_ex;
#[derive_ex(PartialEq)]
pub struct T(u8);
pub fn check<S: Src>(s: &mut S) { let x = T(s.u8()); assert!(x == x, "eq"); }
#[cfg(kani)]
#[kani::proof]
pub fn h() { check(&mut KaniSrc) }
""", "warmup", "warmup")
st = kani_runner.run_kani([p])
print("warmup:", p.result.status, st)
sys.exit(0 if p.result.status == "success" else 1)
PY
