"""C08 — operators derived from a struct act field-wise in all reference forms (E1)."""
import random
import time

from . import common, e1, kani_runner, e3_extras
from .gen_cmp import Field, TypeSpec, Variant

PID = "C08"
F = Field
BIN = [("Add", "add", 1), ("BitAnd", "bitand", 2), ("BitOr", "bitor", 3), ("BitXor", "bitxor", 4), ("Div", "div", 5),
       ("Mul", "mul", 6), ("Rem", "rem", 7), ("Shl", "shl", 8), ("Shr", "shr", 9), ("Sub", "sub", 10)]
UN = [("Neg", "neg", 40), ("Not", "not", 41)]


def struct_helpers(t):
    tu = t.ty_use()
    v = t.variants[0]

    def ctor(vals):
        if v.kind == "unit":
            return t.name
        if v.kind == "named":
            return "%s { %s }" % (t.name, ", ".join("%s: %s" % (f.name, e) for f, e in zip(v.fields, vals)))
        return "%s(%s)" % (t.name, ", ".join(vals))

    def acc(x, i, f):
        return "%s.%s.0" % (x, f.name if v.kind == "named" else i)

    n = len(v.fields)
    out = []
    out.append("pub fn snap(x: &%s) -> %s { %s }" % (tu, tu, ctor(["W(%s)" % acc("x", i, f) for i, f in enumerate(v.fields)])))
    out.append("pub fn same(x: &%s, y: &%s) -> bool { %s }" % (tu, tu, " && ".join("%s == %s" % (acc("x", i, f), acc("y", i, f)) for i, f in enumerate(v.fields)) or "true"))
    out.append("/// field-wise reference: field i = wop(code, x.i, y.i), left operand on the left\npub fn ref_bin(code: u8, x: &%s, y: &%s) -> %s { %s }" % (
        tu, tu, tu, ctor(["W(wop(code, %s, %s))" % (acc("x", i, f), acc("y", i, f)) for i, f in enumerate(v.fields)])))
    out.append("pub fn ref_un(code: u8, x: &%s) -> %s { %s }" % (tu, tu, ctor(["W(wop(code, %s, 0))" % acc("x", i, f) for i, f in enumerate(v.fields)])))
    ev = "\n".join("    out[%d] = Ev { op: code, a: %s, b: %s };" % (i, acc("x", i, f), acc("y", i, f)) for i, f in enumerate(v.fields))
    out.append("/// reference trace: exactly one call per field, in declaration order\npub fn exp_bin(code: u8, x: &%s, y: &%s, out: &mut [Ev; 4]) -> usize {\n%s\n    %d\n}" % (tu, tu, ev, n))
    ev = "\n".join("    out[%d] = Ev { op: code, a: %s, b: 0 };" % (i, acc("x", i, f)) for i, f in enumerate(v.fields))
    out.append("pub fn exp_un(code: u8, x: &%s, out: &mut [Ev; 4]) -> usize {\n%s\n    %d\n}" % (tu, ev, n))
    return "\n".join(out) + "\n"


def check_bin(tr, fn, code):
    forms = [("val-val", "snap(&x0)", "snap(&y0)"), ("val-ref", "snap(&x0)", "&y"), ("ref-val", "&x", "snap(&y0)"), ("ref-ref", "&x", "&y")]
    b = ["    let x = mk(s);", "    let y = mk(s);", "    let x0 = snap(&x);", "    let y0 = snap(&y);",
         "    let want = ref_bin(%d, &x0, &y0);" % code, "    let mut exp = [Ev { op: 0, a: 0, b: 0 }; 4];",
         "    let n = exp_bin(%d, &x0, &y0, &mut exp);" % code]
    for name, l, r in forms:
        b += ["    trace_reset();",
              "    let r = core::ops::%s::%s(%s, %s);" % (tr, fn, l, r),
              '    assert!(same(&r, &want), "%s-value");' % name,
              '    assert!(trace_is(&exp[..n]), "%s-trace");' % name,
              '    assert!(same(&x, &x0) && same(&y, &y0), "%s-operands-unchanged");' % name]
    return b


def check_assign(tr, fn, code):
    code += 16
    b = ["    let x = mk(s);", "    let y = mk(s);", "    let x0 = snap(&x);", "    let y0 = snap(&y);",
         "    let want = ref_bin(%d, &x0, &y0);" % code, "    let mut exp = [Ev { op: 0, a: 0, b: 0 }; 4];",
         "    let n = exp_bin(%d, &x0, &y0, &mut exp);" % code]
    for name, r in (("assign-val", "snap(&y0)"), ("assign-ref", "&y")):
        b += ["    trace_reset();", "    let mut z = snap(&x0);",
              "    core::ops::%sAssign::%s_assign(&mut z, %s);" % (tr, fn, r),
              '    assert!(same(&z, &want), "%s-value");' % name,
              '    assert!(trace_is(&exp[..n]), "%s-trace");' % name,
              '    assert!(same(&y, &y0), "%s-operand-unchanged");' % name]
    return b


def check_un(tr, fn, code):
    b = ["    let x = mk(s);", "    let x0 = snap(&x);", "    let want = ref_un(%d, &x0);" % code,
         "    let mut exp = [Ev { op: 0, a: 0, b: 0 }; 4];", "    let n = exp_un(%d, &x0, &mut exp);" % code]
    for name, l in (("un-val", "snap(&x0)"), ("un-ref", "&x")):
        b += ["    trace_reset();", "    let r = core::ops::%s::%s(%s);" % (tr, fn, l),
              '    assert!(same(&r, &want), "%s-value");' % name,
              '    assert!(trace_is(&exp[..n]), "%s-trace");' % name,
              '    assert!(same(&x, &x0), "%s-operand-unchanged");' % name]
    return b


def mk_struct(kind, n, generic=False):
    fs = [F(("w", "c", "x", "a", "m")[i] if kind == "named" else None,  # names not in alphabetical order: declaration order counts
           "A" if (generic and generic != "macro" and i == 0) else "W") for i in range(n)]
    if generic == "self":
        # an inline bound that mentions `Self`: in the impls for `&T<A>` it must still mean `T<A>` (implemented for exactly that type below)
        t = TypeSpec("struct", [Variant(None, kind, fs)], [("A: Bnd<Self>", "W")], shape="%s%d-generic-self-bound" % (kind, n))
        t.post_items = "impl Bnd<T<W>> for W {}\n"
        return t
    if generic == "macro":
        # the struct comes out of a macro_rules! definition that receives its field types as identifiers: the receiver tokens of the generated methods must resolve all the same
        t = TypeSpec("struct", [Variant(None, kind, fs)], None, shape="%s%d-from-macro_rules" % (kind, n))
        t.via_macro = True
        return t
    if generic == "self-nested":
        # `Self` inside the generic arguments of another type in the declared bound (and inside a tuple / reference): every occurrence means `T<A>` in the impls for `&T<A>` as well
        t = TypeSpec("struct", [Variant(None, kind, fs)], [("A: Bnd<Option<Self>> + Bnd<(u8, [Self; 1])>", "W")], shape="%s%d-generic-nested-self-bound" % (kind, n))
        t.post_items = "impl Bnd<Option<T<W>>> for W {}\nimpl Bnd<(u8, [T<W>; 1])> for W {}\n"
        return t
    return TypeSpec("struct", [Variant(None, kind, fs)], [("A", "W")] if generic else None,
                    shape="%s%d%s" % (kind, n, "-generic" if generic else ""))


# bound(...) decorations: they may change the where-clause, never the behaviour (non-generic W fields need no bound)
DECOR = ["", "per-trait:bound()", "shared:bound()", "per-trait:bound(..)", "field0:T(bound())", "fieldlast:bound()", "field0:T(bound(..))", "fieldlast:T(bound(..))", "fieldlast:T(bound())", "fieldlast:T"]


def build(name, t, what, tr, fn, code, entry, decor="", co=()):
    """co: other operator traits derived on the same struct, (name, before|after|stacked)"""
    trait = tr + ("Assign" if what == "assign" else "")
    la = trait
    fs = t.variants[0].fields
    if decor.startswith("per-trait:"):
        la = "%s(%s)" % (trait, decor.split(":", 1)[1])
    elif decor.startswith("shared:"):
        la = "%s, %s" % (trait, decor.split(":", 1)[1])
    elif decor.startswith("field") and fs:
        f = fs[0] if decor.startswith("field0") else fs[-1]
        spec = decor.split(":", 1)[1]
        f.extra_attrs.append("#[derive_ex(%s)]" % (trait if spec == "T" else spec.replace("T(", trait + "(")))
    t.shape += ("+" + decor) if decor else ""
    stacked = [c for c, where in co if where == "stacked"]
    la = ", ".join([c for c, where in co if where == "before"] + [la] + [c for c, where in co if where == "after"])
    if co:
        t.shape += "+co[%s]" % ",".join("%s:%s" % c for c in co)
    desc = "op=%s shape=%s entry=%s" % (la, t.shape, entry)
    src = e1.HEADER.format(pid=PID, name=name, desc=desc)
    pre = ["#[derive_ex(%s)]" % la] if entry == "attr" else ["#[derive(Ex)]", "#[derive_ex(%s)]" % la]
    pre = pre[:1] + ["#[derive_ex(%s)]" % c for c in stacked] + pre[1:] if entry == "derive" else pre + ["#[derive_ex(%s)]" % c for c in stacked]
    if getattr(t, "via_macro", False):
        src += "macro_rules! mk_t {\n    ($n:ident; $($f:ident : $t:ident),*) => {\n        %s\n        pub struct $n { $(pub $f: $t),* }\n    };\n}\nmk_t!(%s; %s);\n\n" % (
            "\n        ".join(pre), t.name, ", ".join("%s: %s" % (f.name, f.ty) for f in fs))
        src += struct_helpers(t) + "\n" + t.mk_fn() + "\n"
    else:
        src += t.item_text(pre) + "\n\n" + getattr(t, "post_items", "") + struct_helpers(t) + "\n" + t.mk_fn() + "\n"
    body = {"bin": check_bin, "assign": check_assign, "un": check_un}[what](tr, fn, code)
    src += "pub fn check<S: Src>(s: &mut S) {\n%s\n}\n\n" % "\n".join(body) + e1.harness(unwind=6)
    return kani_runner.Program(name, src, "%s|%s|%s" % (la, t.shape, entry), desc, nontrivial=True)


def run(tier):
    t0 = time.time()
    rnd = random.Random(common.seed())
    shapes = [("unit", 0, False)] + [(k, n, False) for k in ("tuple", "named") for n in (0, 1, 2, 3, 4)] + [("named", 2, True), ("tuple", 3, True)]
    ops = [("bin",) + o for o in BIN] + [("assign",) + o for o in BIN] + [("un",) + o for o in UN]
    cands = []
    if tier == "thorough":
        for sh in shapes:
            for op in ops:
                cands.append((sh, op, "attr", ""))
        for op in ops:
            cands.append((("named", 2, "self"), op, "attr", ""))
            cands.append((("named", 2, "self-nested"), op, "attr", ""))
            cands.append((("named", 2, "macro"), op, "attr", ""))
            cands.append((("named", 2, False), op, "derive", ""))
            for d in DECOR[1:]:
                cands.append((("named", 2, False), op, "attr", d))
                cands.append((("tuple", 3, False), op, "attr", d))
    else:
        for op in ops:
            cands.append((("named", 3, False), op, "attr", ""))
            cands.append((("tuple", 2, False), op, "attr", ""))
        for sh in shapes:
            cands.append((sh, ops[0], "attr", ""))
            cands.append((sh, ops[19], "attr", ""))
            cands.append((sh, ops[20], "attr", ""))
        cands.append((("named", 2, False), ops[9], "derive", ""))
        for op in (ops[0], ops[13], ops[20], ops[21]):
            cands.append((("named", 2, "self"), op, "attr", ""))
        for op in (ops[1], ops[12], ops[20]):
            cands.append((("named", 2, "self-nested"), op, "attr", ""))
        for op in (ops[0], ops[11], ops[21]):
            cands.append((("named", 2, "macro"), op, "attr", ""))
        cands.append((("named", 2, "macro"), ops[2], "derive", ""))
        for i, d in enumerate(DECOR[1:]):
            for op in (ops[0], ops[10 + (i % 10)], ops[20 + (i % 2)], ops[rnd.randrange(22)]):
                cands.append((("named", 2, False), op, "attr", d))
        allc = [(sh, op, "attr", d) for sh in shapes for op in ops for d in DECOR]
        cands += rnd.sample(allc, 30)
    progs, seen = [], set()
    for (kind, n, gen), (what, tr, fn, code), entry, extra in cands:
        t = mk_struct(kind, n, gen)
        if gen and extra and "bound()" in extra:
            continue  # an empty bound on a generic field type does not type-check (user error)
        k = (t.shape, what, tr, entry, extra)
        if k in seen:
            continue
        seen.add(k)
        progs.append(build("p%05d" % len(progs), t, what, tr, fn, code, entry, extra))
    # several operator traits derived on one struct: the tested trait after / before / next to other ones (same and other families)
    names = [o[0] for o in BIN] + [o[0] + "Assign" for o in BIN] + [o[0] for o in UN]
    combos = []
    for i, op in enumerate(ops):
        tested = op[1] + ("Assign" if op[0] == "assign" else "")
        others = [x for x in names if x != tested]
        first = others[(i * 7 + 3) % len(others)]
        second = [x for x in others if x != first][(i * 11 + 5) % (len(others) - 1)]
        combos.append((op, ((first, "before"),), "attr"))
        if tier == "thorough" or i % 4 == common.seed() % 4:
            combos.append((op, ((first, "after"),), "attr"))
            combos.append((op, ((first, "before"), (second, "stacked")), "attr"))
            combos.append((op, ((first, "stacked"),), "derive"))
    for op, co, entry in combos:
        what, tr, fn, code = op
        for sh in ((("named", 2, False), ("tuple", 3, True)) if tier == "thorough" else (("named", 2, False),)):
            t = mk_struct(*sh)
            progs.append(build("p%05d" % len(progs), t, what, tr, fn, code, entry, "", co))
    out = common.Outcome(PID)
    extra = e3_extras.summary(e3_extras.safe(e3_extras.c08_tables, out))
    return e1.finish(
        PID, tier, progs, t0, outcome=out, extra=extra,
        rule="one Kani harness per (operator trait, struct shape): all payloads of both operands symbolic; every owned/reference form of the trait is "
             "called in the harness; non-trivial = at least one field; distinct by trait|shape|entry",
        bounds="10 binary + 10 assign + Neg/Not; unit/tuple/named structs with 0..4 fields of W (non-commutative, call-recording) or generic A:=W (also with `Self` - plain and nested in generic arguments - in the declared bound); a struct produced by macro_rules! with identifier field types; field names not in alphabetical order; trace <= 4 events",
        outside="field types other than W; more than 4 fields; which reference form of the FIELD operator is invoked (not part of the statement)",
        functions=["the 4 `impl Op<..>`, 2 `impl OpAssign<..>` or 2 unary impls generated by derive_ex per program"],
        assumptions=["W's operator result wop(code,a,b)=3a+b+code (wrapping) is non-commutative so that swapped operands and cross-wired fields change the value"])
