"""Native replay of an E3 counterexample: python3-vt -m vlib.replay_e3 <case.json>; exit 0 = violation reproduces."""
import json
import re
import sys

from . import common


LOCALS = re.compile(r"\b__(this|other|rhs|lhs|state|source|f|o|to_index|by)\b")


BINDERS = re.compile(r"\b__(_this|_self|_other|l|r|)_(\w+)\b")


def unlocal(text):
    """the expansion spells its own parameters and locals with the reserved `__` prefix (fix 25236d4), and so the bindings of its match arms (fix 4defb34:
    `___this_0`, `__l_x`, `___x`); how they are spelled is no property of derive-ex, so the needles and patterns of the replay cases are written with the plain
    names (`this`, `_this_0`, `l_x`, `_x`) and the observed text is brought to that spelling"""
    # the hidden Eq assertion: `fn __f`, its helper `fn __eq` (plain spellings `_f`, `_eq`; reserved since the third naming fix)
    text = re.sub(r"\bfn __f\b", "fn _f", text or "")
    text = re.sub(r"\b__eq\b", "_eq", text)
    return BINDERS.sub(lambda m: "%s_%s" % (m.group(1), m.group(2)), LOCALS.sub(lambda m: m.group(1), text))


def observe(case):
    """-> dict of observed facts for the case's item"""
    obs = _observe(case)
    for k in ("out", "item0"):
        if isinstance(obs.get(k), str):
            obs[k] = unlocal(obs[k])
    return obs


def _observe(case):
    if case.get("kind") == "dump":
        from . import c19
        pl = case["plain"]
        dres, plain = common.expand_many([(case.get("mode", "attr"), case.get("attr", ""), case["item"]), (pl["mode"], pl["attr"], pl["item"])])
        d = c19.compare_impl_dump(plain, dres) if case.get("order") is None else c19.compare_dump(plain, dres, case["order"], set(case["dumped"]), case.get("mode", "attr"))
        return {"dump_diff": d, "with_dump": [it.get("msg", it.get("text", ""))[:300] for it in dres.get("items", [])],
                "without_dump": [it.get("text", "")[:300] for it in plain.get("items", [])]}
    if case.get("kind") == "same_gen":
        o = case["other"]
        a, b = common.expand_many([(case.get("mode", "attr"), case.get("attr", ""), case["item"]), (o["mode"], o["attr"], o["item"])])
        # `only_dumps`: compile errors other than dump messages (the error of a neighbouring trait that cannot be generated) are not part of the comparison
        keep = lambda it: not (case.get("only_dumps") and it.get("kind") == "compile_error" and not it.get("msg", "").lstrip().startswith("dump"))
        gen = lambda r, mode: [common.norm(it.get("text", it.get("msg", ""))) for it in r.get("items", [])[(1 if mode == "attr" else 0):] if keep(it)]
        return {"gen_a": gen(a, case.get("mode", "attr")), "gen_b": gen(b, o["mode"])}
    res = common.expand_many([(case.get("mode", "attr"), case.get("attr", ""), case["item"])])[0]
    errs = common.compile_errors(res)
    impls = [it for it in res.get("items", []) if it.get("kind") == "impl"]
    import re
    rej = set()
    for e in errs:
        for m in re.finditer(r"default implementation of `(\w+)`|`#\[derive_ex\((\w+)\)\]` is specified", e):
            rej.add(m.group(1) or m.group(2))
    return {"rejected_traits": sorted(rej), "panic": res.get("panic"), "parse_ok": res.get("parse_ok"), "errors": errs, "rejected": bool(errs) or "panic" in res,
            "where": {common.norm(i["trait"]): sorted(common.norm(w) for w in i["where"]) for i in impls},
            "item0": res["items"][0].get("text", "") if res.get("items") else "", "out": res.get("out", ""),
            "impls": [re.sub(r"<.*$", "", common.norm(i["trait"])).rsplit("::", 1)[-1] for i in impls]}


def markers_of(case, obs):
    """-> [sorted marker predicates, sorted field types that are bounded] of the first generated impl"""
    import re
    ws = None
    for tr, w in obs["where"].items():
        ws = w
        break
    if ws is None:
        return None
    marks = sorted(w for w in ws if re.fullmatch(r"T:(M\d+|Own)", w))
    rest = [w for w in ws if w not in marks]
    fts = sorted(ft for ft in case["all_field_types"] if any(common.norm(ft) + ":" in w for w in rest))
    return [marks, fts]


def disagrees(case, obs):
    k = case["kind"]
    if k == "where_markers":
        got = markers_of(case, obs)
        if got is None:
            return False  # no impl was generated at all (the macro refuses the item): nothing to compare; acceptance is C05's subject
        if case.get("only_field_types"):
            # C03 looks at the field-type bounds only (the explicit levels are C04's subject and not part of the reference here)
            return got[1] != sorted(case["expected_field_types"])
        return got != [sorted(common.norm(m) for m in case["expected_markers"]), sorted(case["expected_field_types"])]
    if k == "dump":
        return obs["dump_diff"] not in (None, "skip")
    if k == "impl_order":
        got = [t for n, t in enumerate(obs["impls"]) if n == 0 or obs["impls"][n - 1] != t]
        return got != case["expected"]
    if k == "matches":
        import re
        return (re.search(case["regex"], obs[case.get("where", "out")], re.S) is not None) != case["expected"]
    if k == "reject_msg":
        if obs["rejected"] != case["expected_reject"]:
            return True
        return bool(case.get("message")) and not any(case["message"] in e for e in obs["errors"])
    if k == "same_gen":
        return obs["gen_a"] != obs["gen_b"]
    if k == "where_exact":
        import re
        for tr, ws in obs["where"].items():
            if re.sub(r"<.*$", "", tr).rsplit("::", 1)[-1] == case["trait"]:
                return sorted(ws) != sorted(common.norm(w) for w in case["expected"])
        return True
    if k == "where_markers_of":
        import re
        for tr, ws in obs["where"].items():
            if re.sub(r"<.*$", "", tr).rsplit("::", 1)[-1] == case["trait"]:
                return sorted(w for w in ws if re.fullmatch(r"T:[ML]\d+", w)) != sorted(case["expected_markers"])
        return True
    if k == "eq_binders":
        from . import c17
        return c17.binders_misplaced(obs["out"]) is not None
    if k == "attr_order":
        import re
        return re.findall(r"k\d+", obs["item0"]) != case["expected_docs"] or "derive_ex" in obs["item0"]
    if k == "reject":
        return obs["rejected"] != case["expected_reject"]
    if k == "reject_trait":
        return (case["trait"] in obs["rejected_traits"]) != case["expected_reject"]
    if k == "where":
        got = obs["where"].get(common.norm(case["trait_path"]))
        if got is None:
            return not case.get("expected_rejected", False)
        return sorted(got) != sorted(common.norm(w) for w in case["expected_where"])
    if k == "contains":
        return (common.norm(case["needle"]) in common.norm(obs["out"])) != case["expected"]
    if k == "stripped":
        return any((("#[%s" % a) in common.norm(obs["item0"])) != keep for a, keep in case["expected_kept"].items())
    raise SystemExit("unknown case kind " + k)


def main():
    case = json.load(open(sys.argv[1]))
    obs = observe(case)
    bad = disagrees(case, obs)
    print(json.dumps({"observed": {k: v for k, v in obs.items() if k != "out"}, "reproduces": bad}, indent=1)[:3000])
    sys.exit(0 if bad else 1)


if __name__ == "__main__":
    main()
