"""Concretisation of C04 / C03 counterexamples: z3 model -> item whose every bound(..) level carries its own marker predicate."""
import re

import z3

from .mir import cmpcfg

FIELD_TYPES = ["Box<T>", "Vec<T>", "Option<T>", "Rc<T>"]
LIST_NAME = {"Clone": "Clone", "Copy": "Copy", "Debug": "Debug", "Default": "Default", "Deref": "Deref", "Op": "AddAssign"}


def role_key(blabel, why, actual):
    return "%s|%s" % (blabel, why.split(" (")[0][:80])


class C:
    def __init__(self, ex, model, fam, trait):
        self.ex, self.m, self.fam, self.trait = ex, model, fam, trait
        self.n = 0
        self.markers = {}

    def tv(self, e):
        return z3.is_true(self.m.eval(e, model_completion=True))

    def iv(self, e):
        return self.m.eval(e, model_completion=True).as_long()

    def present(self, path):
        return self.tv(self.ex.ivar("disc(%s)" % path, 0, 1) == 1)

    def bound(self, path):
        self.n += 1
        self.markers[path] = "T: M%d" % self.n
        return "bound(T: M%d%s)" % (self.n, ", .." if self.tv(self.ex.bvar(path + ".default")) else "")

    def lname(self):
        return self.trait if self.fam == "CompareOp" else LIST_NAME[self.fam]

    def derive_ex_attr(self, epath):
        return "%s(%s), %s" % (self.lname(), self.bound(epath + ".bounds_this"), self.bound(epath + ".bounds_common"))

    def items_attr(self, hattrs, kk):
        p = "%s.items.{%s}" % (hattrs, kk)
        if self.present(p):
            return ["#[derive_ex(%s)]" % self.derive_ex_attr(p + ".<Some>.0")]
        return []

    def helper(self, hattrs, field_base=None):
        out = []
        if self.fam == "CompareOp":
            fa = cmpcfg.FieldAtoms(self.ex, field_base) if field_base else None
            for a in cmpcfg.ATTRS:
                args = []
                if fa is not None:
                    if self.tv(fa.ignore(a)):
                        args.append("ignore")
                    if self.tv(fa.by(a)):
                        args.append("by = f")
                    if self.tv(fa.key(a)):
                        args.append("key = $.k()")
                if a in cmpcfg.PREC[self.trait]:
                    args.append(self.bound("%s.cmp.%s.bounds" % (hattrs, a)))
                if args:
                    out.append("#[%s(%s)]" % (a, ", ".join(args)))
        elif self.fam == "Debug":
            args = []
            if field_base:
                if self.present(field_base + ".hattrs.debug.ignore.span"):
                    args.append("ignore")
                if self.present(field_base + ".hattrs.debug.transparent.span"):
                    args.append("transparent")
            args.append(self.bound("%s.debug.bounds" % hattrs))
            out.append("#[debug(%s)]" % ", ".join(args))
        elif self.fam == "Default":
            d = "%s.default" % hattrs
            if self.present(d):
                val = "X::new()" if (field_base is None) else "mk()"
                v = val if self.present(d + ".<Some>.0.value") else "_"
                out.append("#[default(%s, %s)]" % (v, self.bound(d + ".<Some>.0.bounds")))
        return out


def concretize(ex, ref, shape, model, fam, trait):
    c = C(ex, model, fam, trait)
    kk = None
    for name in ex.vars:
        mm = re.search(r"\.items\.\{(.*?)\}\)$", name)
        if mm:
            kk = mm.group(1)
            break
    kk = kk or "?"
    roots = shape.roots
    attr = c.derive_ex_attr(roots["e"])
    type_attrs = c.helper(roots["hattrs"]) if "hattrs" in roots else []
    all_ft = []

    def field_text(fb, idx, named=True):
        ft = FIELD_TYPES[len(all_ft) % len(FIELD_TYPES)]
        all_ft.append((fb, ft))
        ats = c.helper(fb + ".hattrs", field_base=fb) + c.items_attr(fb + ".hattrs", kk)
        return "%s f%d: %s" % (" ".join(ats), idx, ft)

    if shape.kind == "struct":
        n = min(c.iv(shape.lenvar(roots["fields"])), shape.nf)
        fs = [field_text("%s.[%d]" % (roots["fields"], i), i) for i in range(n)]
        item = "%s struct X<T> where T: Own { %s }" % (" ".join(type_attrs), ", ".join(fs))
    else:
        nvv = min(c.iv(shape.lenvar(roots["variants"])), shape.nv)
        vs = []
        for v in range(nvv):
            vb = "%s.[%d]" % (roots["variants"], v)
            n = min(c.iv(shape.lenvar(vb + ".fields")), shape.nf)
            vat = (c.helper(vb + ".hattrs") if fam in ("CompareOp", "Debug") else []) + c.items_attr(vb + ".hattrs", kk)
            fs = [field_text("%s.fields.[%d]" % (vb, i), i) for i in range(n)]
            vs.append("%s V%d { %s }" % (" ".join(vat), v, ", ".join(fs)))
        item = "%s enum X<T> where T: Own { %s }" % (" ".join(type_attrs), ", ".join(vs))
    # the reference: levels whose documented condition holds in the model
    exp_m, exp_f = ["T: Own"], []
    ftmap = dict(all_ft)
    for (kind, path), cond in ref.levels:
        if not c.tv(cond):
            continue
        if kind == "bounds":
            if path in c.markers:
                exp_m.append(c.markers[path])
        else:
            fb = path[:-len(".field")]
            if fb in ftmap:
                exp_f.append(ftmap[fb])
    return {"kind": "where_markers", "mode": "attr", "attr": attr, "item": item, "expected_markers": exp_m, "expected_field_types": sorted(set(exp_f)),
            "all_field_types": [ft for _, ft in all_ft],
            "explain": "each bound(..) level carries its own marker predicate T: Mk; a level contributes iff the documented resolution visits it"}
