"""C15 — same impls via either entry point, merged or split lists, any co-derived set (E1 behavioural + E3 kernel).

E1: metamorphic pairs. One module holds the same type several times (identical fields and helper attributes): P derived through the attribute macro with one merged
list; P' through #[derive(Ex)], with the list split over several derive_ex attributes, or with a superset of co-derived traits. Kani decides for all values that
every derived method of P and P' agrees. E3: both entry points hand the same initial HelperAttributeKinds to the same core builder, DeriveEntry::from_root merges
the macro arguments and the derive_ex attributes, and from_args_list yields the entries in list order. Token-for-token equality of expansions is outside.
"""
import random
import re
import time

from . import common, e1, e3, kani_runner
from .common import log
from . import probes
from .mir import engine as mir_engine, exec as mx

PID = "C15"

BODIES = {
    # name -> (fields with helper attributes, traits, constructor args from payloads, checks)
    "cmp-key-reverse": ("{ #[ord(key = kk::<1, _>(&$), reverse)] pub a: u8, #[eq(ignore)] #[ord(ignore)] pub b: u8, pub c: i8 }",
                        ["PartialEq", "Eq", "PartialOrd", "Ord", "Hash"], "{ a: v[0], b: v[1], c: v[2] as i8 }", "cmp"),
    "cmp-by": ("{ #[partial_ord(by = by_po_total::<2, u8>)] #[ord(by = by_ord::<2, u8>)] #[hash(key = kk::<2, _>(&$))] pub a: u8, pub b: u8 }",
               ["PartialEq", "Eq", "PartialOrd", "Ord", "Hash"], "{ a: v[0], b: v[1] }", "cmp"),
    "cmp-partial-only": ("{ #[ord(key = kk::<3, _>(&$))] pub a: u8, #[partial_ord(reverse)] pub b: u8 }",
                         ["PartialEq", "PartialOrd"], "{ a: v[0], b: v[1] }", "pcmp"),
    "hash-only": ("{ #[eq(key = kk::<1, _>(&$))] pub a: u8, #[ord(ignore)] pub b: u8, pub c: u8 }", ["Hash"], "{ a: v[0], b: v[1], c: v[2] }", "hash"),
    "enum-cmp": ("ENUM { A, B(#[ord(key = kk::<1, _>(&$))] u8, #[eq(ignore)] #[ord(ignore)] u8), C { #[ord(reverse)] a: u8 } }",
                 ["PartialEq", "Eq", "PartialOrd", "Ord", "Hash"], "ENUM", "cmp"),
    "clone-default": ("{ #[default(sd(0))] pub a: u8, #[default(K0)] pub m: M, pub r: R }", ["Clone", "Default"], None, "clone-default"),
    # type-level helper attributes (value for the whole type; bound(..) placements that change nothing for a non-generic type)
    "type-level": ("TATTR[#[default(Self { a: sd(1), m: M::direct(5), r: R(9) })]]{ pub a: u8, pub m: M, pub r: R }",
                   ["Default", "Clone"], None, "clone-default"),
    # Debug with helper attributes, Debug in every position of the list
    "debug-helpers": ("TATTR[#[debug(bound(..))] #[partial_eq(bound(..))]]{ #[debug(ignore)] pub a: u8, pub b: F, #[debug(ignore)] pub c: u8 }", ["Debug", "Clone", "PartialEq"], "{ a: v[0], b: F(v[1]), c: v[2] }", "debug"),
}


def type_text(name, body, pre):
    if body.startswith("TATTR["):
        tattrs, body = body[6:].split("]{", 1)
        return "%s\n%s\npub struct %s {%s\n" % ("\n".join(pre), tattrs, name, body)
    if body.startswith("ENUM"):
        return "%s\npub enum %s %s\n" % ("\n".join(pre), name, body[4:])
    return "%s\npub struct %s %s\n" % ("\n".join(pre), name, body)


def variants_of(traits, rnd, tier):
    """list of (label, attribute lines) that must all generate the same impls for `traits`"""
    merged = ", ".join(traits)
    out = [("attr-merged", ["#[derive_ex(%s)]" % merged]), ("derive-merged", ["#[derive(Ex)]", "#[derive_ex(%s)]" % merged])]
    if len(traits) >= 2:
        k = 1 + (rnd.randrange(len(traits) - 1) if tier == "thorough" else (len(traits) - 1) // 2)
        out.append(("attr-split", ["#[derive_ex(%s)]" % ", ".join(traits[:k]), "#[derive_ex(%s)]" % ", ".join(traits[k:])]))
        out.append(("derive-split", ["#[derive(Ex)]", "#[derive_ex(%s)]" % ", ".join(traits[:k]), "#[derive_ex(%s)]" % ", ".join(traits[k:])]))
        out.append(("attr-one-per-list", ["#[derive_ex(%s)]" % t for t in traits]))
        # lists that are not adjacent: a doc comment and a foreign attribute between them
        out.append(("derive-split-with-gap", ["#[derive(Ex)]", "#[derive_ex(%s)]" % ", ".join(traits[:k]), "/// something between the lists", "#[allow(dead_code)]",
                                              "#[derive_ex(%s)]" % ", ".join(traits[k:])]))
        out.append(("attr-split-with-gap", ["#[derive_ex(%s)]" % ", ".join(traits[k:]), "#[allow(dead_code)]", "/// something between the lists", "#[derive_ex(%s)]" % ", ".join(traits[:k])]))
        out.append(("attr-reordered", ["#[derive_ex(%s)]" % ", ".join(reversed(traits))]))
    return out


def build(name, body_id, rnd, tier, superset=False):
    body, traits, ctor, kind = BODIES[body_id]
    desc = "body=%s traits=%s superset=%s" % (body_id, "+".join(traits), superset)
    src = e1.HEADER.format(pid=PID, name=name, desc=desc)
    vs = variants_of(traits, rnd, tier)
    if superset:
        extra = [t for t in ("Clone", "Debug", "Copy") if t not in traits]
        if "Default" not in traits and kind != "clone-default" and not body.startswith("ENUM"):
            extra.append("Default")
        if kind == "clone-default":
            extra = ["Debug"]
        vs = [vs[0], ("attr-superset", ["#[derive_ex(%s)]" % ", ".join(traits + extra)]), ("derive-superset", ["#[derive(Ex)]", "#[derive_ex(%s)]" % ", ".join(extra + traits)])]
        if body_id == "clone-default":
            vs = vs[:1]
    manual = ""
    names = []
    for i, (label, pre) in enumerate(vs):
        tn = "T%d" % i
        names.append(tn)
        src += "// %s\n%s\n" % (label, type_text(tn, body, pre))
        # supertraits that are not derived are written by hand (identically for every copy)
        if "PartialOrd" in traits and "PartialEq" not in traits:
            manual += "impl PartialEq for %s { fn eq(&self, o: &Self) -> bool { self.a == o.a } }\n" % tn
    src += manual
    b = []
    if kind in ("cmp", "pcmp", "hash"):
        b += ["    let v = [s.u8(), s.u8(), s.u8()];", "    let w = [s.u8(), s.u8(), s.u8()];"]
        if ctor == "ENUM":
            b += ["    let (sx, sy) = (s.below(3), s.below(3));"]
            for tn in names:
                mk = lambda sel, vv: "match %s { 0 => %s::A, 1 => %s::B(%s[0], %s[1]), _ => %s::C { a: %s[2] } }" % (sel, tn, tn, vv, vv, tn, vv)
                b.append("    let (x_%s, y_%s) = (%s, %s);" % (tn, tn, mk("sx", "v"), mk("sy", "w")))
        for tn in (names if ctor != "ENUM" else []):
            b.append("    let (x_%s, y_%s) = (%s %s, %s %s);" % (tn, tn, tn, ctor, tn, ctor.replace("v[", "w[")))
        t0n = names[0]
        for tn in names[1:]:
            if "PartialEq" in traits:
                b.append('    assert!((x_%s == y_%s) == (x_%s == y_%s), "eq-differs-%s");' % (t0n, t0n, tn, tn, tn))
            if "PartialOrd" in traits:
                b.append('    assert!(x_%s.partial_cmp(&y_%s) == x_%s.partial_cmp(&y_%s), "partial_cmp-differs-%s");' % (t0n, t0n, tn, tn, tn))
            if "Ord" in traits:
                b.append('    assert!(x_%s.cmp(&y_%s) == x_%s.cmp(&y_%s), "cmp-differs-%s");' % (t0n, t0n, tn, tn, tn))
            if "Hash" in traits:
                b += ["    { let mut h0 = Rec::new(); Hash::hash(&x_%s, &mut h0); let mut h1 = Rec::new(); Hash::hash(&x_%s, &mut h1);" % (t0n, tn),
                      '      assert!(h0.same(&h1), "hash-feed-differs-%s"); }' % tn]
    elif kind == "debug":
        # same bytes from every copy; the copies are named T0..T5, so the second byte (the digit) is left out of the comparison
        b += ["    use core::fmt::Write;", "    let v = [s.u8(), s.u8(), s.u8()];"]
        for tn in names:
            b += ["    let x_%s = %s %s;" % (tn, tn, ctor), "    let mut k_%s = Sink::new();" % tn, '    let _ = write!(k_%s, "{:?}", x_%s);' % (tn, tn)]
        b.append('    cover!(k_%s.len > 8 && !k_%s.overflow, "printed");' % (names[0], names[0]))
        for tn in names[1:]:
            b += ["    {", "        let mut same = k_%s.len == k_%s.len && k_%s.overflow == k_%s.overflow;" % (names[0], tn, names[0], tn),
                  "        let mut i = 0;", "        while i < 24 {", "            if i != 1 && k_%s.buf[i] != k_%s.buf[i] { same = false; }" % (names[0], tn),
                  "            i += 1;", "        }", '        assert!(same, "debug-differs-%s");' % tn, "    }"]
    else:
        b += ["    set_seeds(s);"]
        for tn in names:
            b.append("    let d_%s = <%s as Default>::default();" % (tn, tn))
        for tn in names[1:]:
            b.append('    assert!(d_%s.a == d_%s.a && d_%s.m == d_%s.m && d_%s.r.0 == d_%s.r.0, "default-differs-%s");' % (names[0], tn, names[0], tn, names[0], tn, tn))
        b.append("    let p = s.u8();")
        for tn in names:
            b += ["    trace_reset();", "    let c_%s = %s { a: p, m: M::direct(p), r: R(p) }.clone();" % (tn, tn), "    let t_%s = trace_take();" % tn]
        for tn in names[1:]:
            b.append('    assert!(c_%s.a == c_%s.a && c_%s.r.0 == c_%s.r.0 && trace_same(&t_%s, &t_%s), "clone-differs-%s");' % (names[0], tn, names[0], tn, names[0], tn, tn))
    src += "pub fn check<S: Src>(s: &mut S) {\n%s\n}\n\n" % "\n".join(b) + e1.harness(unwind=66 if kind == "debug" else 18)
    return kani_runner.Program(name, src, "%s|%s" % (body_id, "superset" if superset else "entry+split"), desc, True)


def e3_kernel(out):
    eng = mir_engine.Engine()
    obl = e3.Obligations(PID)
    def part_a():
        # (a) the three entry points start from HelperAttributeKinds::new(true) and call the matching core builder with it
        for entry, core in (("build_from_derive_input", ("build_by_item_struct_core", "build_by_item_enum_core")), ("build_by_item_struct", ("build_by_item_struct_core",)),
                            ("build_by_item_enum", ("build_by_item_enum_core",))):
            ex = eng.executor(opaque_local=set(core) | {"remove_attrs", "to_item_struct", "to_item_enum", "HelperAttributeKinds::new"},
                              trace=set(core) | {"HelperAttributeKinds::new"})
            fn = eng.find(entry)
            res = ex.run(fn, eng.args_for(fn))
            obl.note_paths(entry, res, ex)
            obl.total += 1
            ok = bool(res)
            for r in res:
                if r.kind != "return":
                    continue
                news = [e for e in r.events if e[0] == "HelperAttributeKinds::new"]
                cores = [e for e in r.events if e[0] in core]
                if cores and not (len(news) == 1 and news[0][1] == ["True"] and "HelperAttributeKinds::new" in cores[0][1][-1]):
                    ok = False
            if ok:
                obl.discharged += 1
            else:
                probes.structural(out, "entry-kinds|" + entry, "%s does not start its core builder from HelperAttributeKinds::new(true): %s" % (entry, [r.events for r in res][:2]), "C15.kinds")
    def part_b():
        # (b) from_root merges macro arguments and derive_ex attributes, in this order
        ex = eng.executor(opaque_local={"DeriveEntry::from_args_list", "parse_derive_ex_attrs"}, trace={"DeriveEntry::from_args_list", "parse_derive_ex_attrs", "syn::parse2", "Vec::push", "Extend::Vec::extend"})
        fn = eng.find("DeriveEntry::from_root")
        res = ex.run(fn, eng.args_for(fn))
        obl.note_paths("DeriveEntry::from_root", res, ex)
        obl.total += 1
        ok = bool(res)
        n_with_attr = 0
        for r in res:
            names = [e[0] for e in r.events]
            if "DeriveEntry::from_args_list" not in names:
                continue  # a parse error path
            has_attr = any("disc(attr) == 1" in str(c) for c in r.pc)
            n_with_attr += 1 if has_attr else 0
            if "parse_derive_ex_attrs" not in names or names.index("parse_derive_ex_attrs") > names.index("DeriveEntry::from_args_list"):
                ok = False
            if has_attr and not any(n == "syn::parse2" for n in names):
                ok = False
            ext = [e for e in r.events if e[0] == "Extend::Vec::extend"]
            if not ext or "parse_derive_ex_attrs" not in " ".join(ext[-1][1]):
                ok = False
        if ok and n_with_attr >= 1:
            obl.discharged += 1
        else:
            probes.structural(out, "from_root-merge", "DeriveEntry::from_root does not merge the macro arguments with every derive_ex attribute of the item: %s" % (
                [[e[0] for e in r.events] for r in res][:4],), "C15.merge")
    def part_c():
        # (c) from_args_list keeps the list order
        ex = eng.executor(opaque_local={"DeriveItemKind::from_ident", "Bounds::from"}, trace={"Vec::push"}, slice_bound=2)
        fn = eng.find("DeriveEntry::from_args_list")
        res = ex.run(fn, eng.args_for(fn))
        obl.note_paths("DeriveEntry::from_args_list", res, ex)
        for r in res:
            if r.kind != "return" or (isinstance(r.value, mx.Agg) and r.value.variant == "Err"):
                continue
            obl.total += 1
            seq = []
            for e in r.events:
                m = re.search(r"args_list\.\[(\d+)\]\.items\.\[(\d+)\]", " ".join(e[1][1:]))
                if m:
                    seq.append((int(m.group(1)), int(m.group(2))))
            want = sorted(seq)
            n_items = sum(1 for c in r.pc if re.search(r"len\(args_list\.\[\d+\]\.items\) > \d+", str(c)))
            if seq == want and len(seq) == len(set(seq)) and len(seq) >= n_items:
                obl.discharged += 1
            else:
                probes.structural(out, "from_args_list-order", "DeriveEntry::from_args_list does not yield one entry per listed trait in list order: %s" % (seq,), "C15.order")
    def part_d():
        # (d) every entry's arguments are its own (nothing carried over from the neighbouring trait or list)
        from . import e3_extras
        o2 = e3_extras.safe(e3_extras.entry_args_provenance, out, PID)
        obl.total += o2.total
        obl.discharged += o2.discharged
        obl.solver_time += o2.solver_time
        obl.functions.update(o2.functions)
    for part in (part_a, part_b, part_c, part_d):
        e3.safe_part(out, part)
    return eng, obl


FIELD_LEVEL = """
// lists written on a field / on a variant: merged, split over several derive_ex attributes, split in the other order; both entry points
#[derive_ex(Clone, Default)]
pub struct P0<A> { #[derive_ex(Clone(bound(A: Clone)), Default(bound(A: Default)))] pub a: A, pub r: R }
#[derive_ex(Clone, Default)]
pub struct P1<A> { #[derive_ex(Clone(bound(A: Clone)))] #[derive_ex(Default(bound(A: Default)))] pub a: A, pub r: R }
#[derive(Ex)]
#[derive_ex(Clone)]
#[derive_ex(Default)]
pub struct P2<A> { #[derive_ex(Default(bound(A: Default)))] #[derive_ex(Clone(bound(A: Clone)))] pub a: A, pub r: R }
#[derive_ex(Clone, PartialEq)]
pub enum E0<A> { #[derive_ex(Clone(bound(A: Clone)), PartialEq(bound(A: PartialEq)))] V(A, R), W }
#[derive_ex(Clone, PartialEq)]
pub enum E1<A> { #[derive_ex(Clone(bound(A: Clone)))] #[derive_ex(PartialEq(bound(A: PartialEq)))] V(A, R), W }
#[derive(Ex)]
#[derive_ex(PartialEq, Clone)]
pub enum E2<A> { #[derive_ex(PartialEq(bound(A: PartialEq)))] #[derive_ex(Clone(bound(A: Clone)))] V(A, R), W }

pub fn check<S: Src>(s: &mut S) {
    let (p, q) = (s.u8(), s.u8());
    trace_reset();
    let c0 = P0 { a: R(p), r: R(q) }.clone();
    let t0 = trace_take();
    trace_reset();
    let c1 = P1 { a: R(p), r: R(q) }.clone();
    let t1 = trace_take();
    trace_reset();
    let c2 = P2 { a: R(p), r: R(q) }.clone();
    let t2 = trace_take();
    assert!(c0.a.0 == c1.a.0 && c0.r.0 == c1.r.0 && trace_same(&t0, &t1), "clone-differs-split");
    assert!(c0.a.0 == c2.a.0 && c0.r.0 == c2.r.0 && trace_same(&t0, &t2), "clone-differs-split-derive");
    let (d0, d1, d2) = (<P0<u8> as Default>::default(), <P1<u8> as Default>::default(), <P2<u8> as Default>::default());
    assert!(d0.a == d1.a && d0.r.0 == d1.r.0 && d0.a == d2.a && d0.r.0 == d2.r.0, "default-differs-split");
    let sel = s.bool();
    let (x0, y0) = (if sel { E0::V(p, R(q)) } else { E0::W }, E0::V(q, R(q)));
    let (x1, y1) = (if sel { E1::V(p, R(q)) } else { E1::W }, E1::V(q, R(q)));
    let (x2, y2) = (if sel { E2::V(p, R(q)) } else { E2::W }, E2::V(q, R(q)));
    assert!((x0 == y0) == (x1 == y1) && (x0 == y0) == (x2 == y2), "eq-differs-split");
    assert!(matches!(x1.clone(), E1::V(..)) == sel && matches!(x2.clone(), E2::V(..)) == sel && matches!(x0.clone(), E0::V(..)) == sel, "enum-clone-differs-split");
}

"""


CO_DERIVED_COPY = """
// `Clone` for itself does not depend on what is requested alongside: with Copy in the same list, in another list, through either entry point, clone() still
// clones field by field (the field type is Copy with a hand-written, call-recording Clone)
#[derive_ex(Clone)]
pub struct Q0 { pub a: RC, pub b: RC }
#[derive_ex(Clone, Copy)]
pub struct Q1 { pub a: RC, pub b: RC }
#[derive_ex(Copy)]
#[derive_ex(Clone)]
pub struct Q2 { pub a: RC, pub b: RC }
#[derive(Ex)]
#[derive_ex(Copy, Clone)]
pub struct Q3 { pub a: RC, pub b: RC }
#[derive_ex(Clone)]
pub enum N0 { A(RC), B { x: RC }, C }
#[derive_ex(Copy, Clone)]
pub enum N1 { A(RC), B { x: RC }, C }

pub fn check<S: Src>(s: &mut S) {
    let (p, q) = (s.u8(), s.u8());
    trace_reset();
    let c0 = Q0 { a: RC(p), b: RC(q) }.clone();
    let t0 = trace_take();
    trace_reset();
    let c1 = Q1 { a: RC(p), b: RC(q) }.clone();
    let t1 = trace_take();
    trace_reset();
    let c2 = Q2 { a: RC(p), b: RC(q) }.clone();
    let t2 = trace_take();
    trace_reset();
    let c3 = Q3 { a: RC(p), b: RC(q) }.clone();
    let t3 = trace_take();
    assert!(c0.a.0 == c1.a.0 && c0.b.0 == c1.b.0 && trace_same(&t0, &t1), "clone-differs-with-copy-in-list");
    assert!(c0.a.0 == c2.a.0 && trace_same(&t0, &t2), "clone-differs-with-copy-in-other-list");
    assert!(c0.a.0 == c3.a.0 && trace_same(&t0, &t3), "clone-differs-with-copy-derive-entry");
    let sel = s.below(3);
    trace_reset();
    let e0 = match sel { 0 => N0::A(RC(p)), 1 => N0::B { x: RC(q) }, _ => N0::C }.clone();
    let u0 = trace_take();
    trace_reset();
    let e1 = match sel { 0 => N1::A(RC(p)), 1 => N1::B { x: RC(q) }, _ => N1::C }.clone();
    let u1 = trace_take();
    assert!(trace_same(&u0, &u1) && matches!(e0, N0::C) == matches!(e1, N1::C), "enum-clone-differs-with-copy");
}

"""


def build_co_derived_copy(name):
    desc = "Clone alone vs Clone with Copy requested alongside (same list, other list, derive entry)"
    src = e1.HEADER.format(pid=PID, name=name, desc=desc) + CO_DERIVED_COPY + e1.harness(unwind=18)
    return kani_runner.Program(name, src, "co-derived-copy|clone", desc, True)


CO_DERIVED_ORD = """
// PartialOrd / PartialEq requested alone vs with Ord / Eq (/ Hash / Clone) alongside, in the same list, in another list and through the derive entry:
// `partial_cmp` and `==` are the same impls. The field `a` is totally ordered by Ord and only partially by PartialOrd; the field `b` has different keys for the two.
__ITEMS__

pub fn check<S: Src>(s: &mut S) {
    let (a, b, c, d) = (s.u8(), s.u8(), s.u8(), s.u8());
    let want = S0 { a: Wo(a), b }.partial_cmp(&S0 { a: Wo(c), b: d });
    let weq = S0 { a: Wo(a), b } == S0 { a: Wo(c), b: d };
    cover!(want.is_none(), "incomparable");
    cover!(want == Some(Ordering::Equal) && b != d, "equal-through-the-partial_ord-key-only");
    assert!(S1 { a: Wo(a), b }.partial_cmp(&S1 { a: Wo(c), b: d }) == want && (S1 { a: Wo(a), b } == S1 { a: Wo(c), b: d }) == weq, "struct-partial_cmp-differs-with-ord-alongside");
    assert!(S2 { a: Wo(a), b }.partial_cmp(&S2 { a: Wo(c), b: d }) == want && (S2 { a: Wo(a), b } == S2 { a: Wo(c), b: d }) == weq, "struct-partial_cmp-differs-with-ord-in-another-list");
    assert!(S3 { a: Wo(a), b }.partial_cmp(&S3 { a: Wo(c), b: d }) == want && (S3 { a: Wo(a), b } == S3 { a: Wo(c), b: d }) == weq, "struct-partial_cmp-differs-through-derive-entry");
    let (sx, sy) = (s.below(3), s.below(3));
    macro_rules! mk { ($t:ident, $sel:expr, $p:expr, $q:expr) => { match $sel { 0 => $t::A(Wo($p)), 1 => $t::B { x: $q, y: Wo($p) }, _ => $t::C } }; }
    let ewant = mk!(E0, sx, a, b).partial_cmp(&mk!(E0, sy, c, d));
    let eweq = mk!(E0, sx, a, b) == mk!(E0, sy, c, d);
    assert!(mk!(E1, sx, a, b).partial_cmp(&mk!(E1, sy, c, d)) == ewant && (mk!(E1, sx, a, b) == mk!(E1, sy, c, d)) == eweq, "enum-partial_cmp-differs-with-ord-alongside");
    assert!(mk!(E2, sx, a, b).partial_cmp(&mk!(E2, sy, c, d)) == ewant && (mk!(E2, sx, a, b) == mk!(E2, sy, c, d)) == eweq, "enum-partial_cmp-differs-through-derive-entry");
}

"""


def build_co_derived_ord(name):
    desc = "PartialOrd / PartialEq alone vs with Ord / Eq / Hash / Clone requested alongside (same list, other list, derive entry), field with a partial order and different keys per trait"
    sbody = "pub struct %s { pub a: Wo, #[partial_ord(key = kk::<1, _>(&$))] #[ord(key = kk::<2, _>(&$))] pub b: u8 }"
    ebody = "pub enum %s { A(Wo), B { #[partial_ord(key = kk::<1, _>(&$))] #[ord(key = kk::<2, _>(&$))] x: u8, y: Wo }, C }"
    items = [("#[derive_ex(PartialOrd, PartialEq)]", sbody, "S0"), ("#[derive_ex(PartialOrd, PartialEq, Ord, Eq)]", sbody, "S1"),
             ("#[derive_ex(Ord, Eq, Hash, Clone)]\n#[derive_ex(PartialEq, PartialOrd)]", sbody, "S2"), ("#[derive(Ex)]\n#[derive_ex(Eq, Ord, PartialOrd, PartialEq)]", sbody, "S3"),
             ("#[derive_ex(PartialOrd, PartialEq)]", ebody, "E0"), ("#[derive_ex(Ord, PartialOrd, Eq, PartialEq)]", ebody, "E1"),
             ("#[derive(Ex)]\n#[derive_ex(PartialEq, PartialOrd)]\n#[derive_ex(Eq, Ord)]", ebody, "E2")]
    text = CO_DERIVED_ORD.replace("__ITEMS__", "\n".join("%s\n%s" % (at, bd % nm) for at, bd, nm in items))
    src = e1.HEADER.format(pid=PID, name=name, desc=desc) + text + e1.harness(unwind=18)
    return kani_runner.Program(name, src, "co-derived-ord|partial_cmp+eq", desc, True)


def build_field_level(name):
    desc = "field- and variant-level derive_ex lists: merged vs split vs split in the other order, both entry points"
    src = e1.HEADER.format(pid=PID, name=name, desc=desc) + FIELD_LEVEL + e1.harness(unwind=18)
    return kani_runner.Program(name, src, "field-level-lists|merged+split", desc, True)


def run(tier):
    t0 = time.time()
    rnd = random.Random(common.seed())
    out = common.Outcome(PID)
    progs = []
    for body_id in BODIES:
        progs.append(build("p%05d" % len(progs), body_id, rnd, tier))
        if body_id not in ("clone-default", "type-level", "debug-helpers"):
            progs.append(build("p%05d" % len(progs), body_id, rnd, tier, superset=True))
    progs.append(build_field_level("p%05d" % len(progs)))
    progs.append(build_co_derived_copy("p%05d" % len(progs)))
    progs.append(build_co_derived_ord("p%05d" % len(progs)))
    try:
        eng, obl = e3_kernel(out)
        extra = {"e3_obligations": obl.total, "e3_discharged": obl.discharged, "e3_functions": obl.functions, "e3_solver_time_s": round(obl.solver_time, 2)}
    except Exception as e:  # noqa: an MIR shape the executor cannot follow is INCONCLUSIVE, the E1 part still runs
        out.inconclusive.append("fn=? reason=%s: %s" % (type(e).__name__, str(e)[:200]))
        extra = {"e3_obligations": 0}
    return e1.finish(
        PID, tier, progs, t0, outcome=out,
        rule="one Kani harness per (type body with helper attributes, family of equivalent requests): the same type is derived through the attribute macro with a merged list, "
             "through #[derive(Ex)], with the list split / reordered over several derive_ex attributes, and with supersets of co-derived traits; all values symbolic; every derived "
             "method must agree across the copies; plus E3 obligations on the entry functions, DeriveEntry::from_root and from_args_list",
        bounds="8 type bodies (comparison with key/reverse/ignore/by, PartialOrd without Ord, Hash alone with eq/ord attributes, Clone+Default with values, ...) x up to 8 equivalent requests (merged, split, one per list, reordered, split with a doc comment and a foreign attribute between the lists, both entry points); PartialOrd/PartialEq alone vs with Ord/Eq/Hash/Clone alongside on a partially ordered field; "
               "E3: <=2 lists x <=2 items",
        outside="token-for-token equality of the expansions; the order in which impls appear in the output beyond the order of DeriveEntry values (from_args_list) and the per-entry loop (C05)",
        functions=["all derived methods of the programs above", "build_from_derive_input", "build_by_item_struct", "build_by_item_enum", "DeriveEntry::from_root", "DeriveEntry::from_args_list"],
        extra=extra)
