"""Small E3 obligations attached to E1 checks (DESIGN.md §6: C01 precedence, C08 name tables, C10 transparent rejection, C11 Into table, C18 arity)."""
import re

import z3

from . import common, e3, probes
from .mir import engine as mir_engine, exec as mx, cmpcfg
from .mir.cmpcfg import FieldAtoms

_engine = None


def engine():
    global _engine
    if _engine is None:
        _engine = mir_engine.Engine()
    return _engine


def is_err(r):
    v = r.value
    return isinstance(v, mx.Agg) and v.name == "Result" and v.variant == "Err"


def safe(fn, out, *args):
    """E3 obligations attached to an E1 check must never take the E1 part down: an MIR shape the executor cannot follow is INCONCLUSIVE"""
    try:
        return fn(out, *args)
    except mx.Inconclusive as e:
        out.inconclusive.append("fn=%s reason=%s" % (fn.__name__, e))
    except Exception as e:  # noqa: a parser / executor surprise after a refactoring of derive-ex
        out.inconclusive.append("fn=%s reason=executor error %s: %s" % (fn.__name__, type(e).__name__, str(e)[:200]))
    return e3.Obligations("-")


def summary(*obls):
    obls = [o for o in obls if o is not None]
    return {"e3_obligations": sum(o.total for o in obls), "e3_discharged": sum(o.discharged for o in obls), "e3_functions": sorted({f for o in obls for f in o.functions}),
            "e3_solver_time_s": round(sum(o.solver_time for o in obls), 2)}


def c18_arity(out):
    """build_deref_for_struct returns Err exactly when the struct does not have exactly one field (0..4 fields)"""
    eng = engine()
    obl = e3.Obligations("C18")
    ex = eng.executor(slice_bound=4, opaque_local={"DeriveItemKind::to_path", "WhereClauseBuilder::new", "WhereClauseBuilder::build", "DeriveEntry::push_bounds_to", "FieldEntry::member"})
    fn = eng.find("build_deref_for_struct")
    k = ex.ivar("disc(e.kind)", 0, 9)
    pre = [k >= 8]
    res = ex.run(fn, eng.args_for(fn), pre=pre)
    obl.note_paths("build_deref_for_struct", res, ex)
    n = ex.ivar("len(fields)", 0, 4)
    for r in res:
        if r.kind != "return":
            out.inconclusive.append("fn=build_deref_for_struct reason=%s" % (r.value,))
            continue
        obl.check_unsat(ex, "deref-arity", list(r.pc) + [(n != 1) if not is_err(r) else (n == 1)], info="arity")
    e3.coverage_check(ex, obl, "build_deref_for_struct", res, pre=pre)
    for label, m, info in obl.failed:
        probes.structural(out, "deref-arity", "build_deref_for_struct accepts / rejects the wrong number of fields (model: len(fields) = %s)" % m.eval(n, model_completion=True), 'C18.arity')
    return obl


def c18_signature(out):
    """what build_deref_for_struct emits for a single-field struct: `type Target = <the field's type>;` and methods that return `&` / `&mut` of that same type and whose body
    is `&self.<the field>` / `&mut self.<the field>` (token streams as objects; the tokens are the same for every field type). A differing emission is confirmed natively."""
    from .mir import tokens as tk
    from .mir.streams import sid
    from .replay_e3 import unlocal
    eng = engine()
    obl = e3.Obligations("C18")
    ex = eng.executor(slice_bound=1, opaque_local={"DeriveItemKind::to_path", "WhereClauseBuilder::new", "WhereClauseBuilder::build", "DeriveEntry::push_bounds_to", "FieldEntry::member", "ref_elem"})
    ex.trace = _Everything()
    ex.unique_streams = True
    fn = eng.find("build_deref_for_struct")
    k = ex.ivar("disc(e.kind)", 0, 9)
    n = ex.ivar("len(fields)", 0, 1)
    res = ex.run(fn, eng.args_for(fn), pre=[k >= 8, n == 1])
    obl.note_paths("build_deref_for_struct[tokens]", res, ex)
    ty = r"<(?:sym:fields\.\[0\]\.field\.ty|opaque:ref_elem\(sym:fields\.\[0\]\.field\.ty\))>"
    mem = r"<opaque:FieldEntry::member\(sym:fields\.\[0\]\)>"
    want = {8: r"\{ type Target = <sym:fields\.\[0\]\.field\.ty> ; fn deref \( & self \) -> & %s \{ & self \. %s \} \}$" % (ty, mem),
            9: r"\{ fn deref_mut \( & mut self \) -> & mut %s \{ & mut self \. %s \} \}$" % (ty, mem)}
    for r in res:
        if r.kind != "return" or is_err(r):
            continue
        obl.total += 1
        try:
            st = tk.render(r.events)
            got = unlocal(tk.text(st.get(sid(ex.summ(mx.State(), r.value)), [])))
        except Exception as e:  # noqa
            out.inconclusive.append("fn=build_deref_for_struct[tokens] reason=%s" % str(e)[:200])
            continue
        kinds = [kk for kk in (8, 9) if ex.feasible_pc(list(r.pc) + [k == kk])] if hasattr(ex, "feasible_pc") else [kk for kk in (8, 9) if ("disc(e.kind) == %d" % kk) in " ".join(str(c) for c in r.pc)]
        if len(kinds) == 1 and re.search(want[kinds[0]], got):
            obl.discharged += 1
        else:
            probes.structural(out, "deref-signature|%s" % ("Deref" if kinds == [8] else "DerefMut" if kinds == [9] else kinds),
                              "build_deref_for_struct emits `%s`, not the field's own type in Target / the method signature and `&self.<field>` in the body" % got[-260:], "C18.signature")
    return obl


def c11_into(out, nv=2):
    """`Into` is emitted exactly for string literals and paths; `_` / no attribute gives no value"""
    eng = engine()
    obl = e3.Obligations("C11")
    ex = eng.executor(trace={"__private::push_ident", "__private::push_ident_spanned"})
    fn = eng.find("HelperAttributeForDefault::value")
    res = ex.run(fn, eng.args_for(fn))
    obl.note_paths("HelperAttributeForDefault::value", res, ex)
    if len(res) > 4000:
        # (a few hundred paths on the pinned tree) a change that makes the function recursive over syn::Expr multiplies its 40-way match: one query per path would take hours
        out.inconclusive.append("fn=HelperAttributeForDefault::value reason=path explosion (%d paths): the `Into` obligation is not examined" % len(res))
        return obl
    exprs = eng.ti.enums.get("Expr")
    lits = eng.ti.enums.get("Lit")
    if not exprs or not lits or "Lit" not in exprs or "Path" not in exprs:
        out.inconclusive.append("fn=HelperAttributeForDefault::value reason=syn::Expr / syn::Lit variant order not found")
        return obl
    has = ex.ivar("disc(self.value)", 0, 1) == 1
    d = ex.ivar("disc(self.value.<Some>.0)", 0, len(exprs) - 1)
    l = ex.ivar("disc(self.value.<Some>.0.<Lit>.0.lit)", 0, len(lits) - 1)
    want_into = z3.And(has, z3.Or(d == exprs.index("Path"), z3.And(d == exprs.index("Lit"), l == lits.index("Str"))))
    for r in res:
        if r.kind != "return":
            out.inconclusive.append("fn=value reason=%s" % (r.value,))
            continue
        some = isinstance(r.value, mx.Agg) and r.value.variant == "Some"
        into = any(e[1][-1] == "str:Into" for e in r.events)
        obl.check_unsat(ex, "default-value:some-iff-present", list(r.pc) + [has if not some else z3.Not(has)], info="value presence")
        obl.check_unsat(ex, "default-value:into-iff-strlit-or-path", list(r.pc) + [want_into if not into else z3.Not(want_into)], info="Into table", keep_smt=True)
    e3.coverage_check(ex, obl, "HelperAttributeForDefault::value", res)
    SAMPLE = {"Path": "K", "Call": "f()", "MethodCall": "x.f()", "Macro": "m!()", "Block": "{ 1 }", "Tuple": "(1, 2)", "Array": "[1]", "Binary": "1 + 2", "Unary": "-1", "Paren": "(1)",
              "Reference": "&1", "Struct": "S { a: 1 }", "Index": "a[0]", "Field": "a.b", "Cast": "1 as u8", "Closure": "|| 1", "If": "if true { 1 } else { 2 }", "Match": "match 1 { _ => 1 }",
              "Range": "0..1", "Repeat": "[0; 2]", "Unsafe": "unsafe { 1 }", "Const": "const { 1 }", "Loop": "loop { }", "Try": "a?", "Return": "return 1"}
    LIT = {"Str": "\"s\"", "ByteStr": "b\"s\"", "Byte": "b'x'", "Char": "'c'", "Int": "1", "Float": "1.5", "Bool": "true", "CStr": "c\"s\""}
    from . import replay_e3
    seen = set()
    for label, m, info in obl.failed:
        kind = exprs[m.eval(d, model_completion=True).as_long()]
        lk = lits[m.eval(l, model_completion=True).as_long()]
        text = LIT.get(lk) if kind == "Lit" else SAMPLE.get(kind)
        what = "HelperAttributeForDefault::value: wrong %s decision for a default expression of kind Expr::%s (Lit kind %s)" % (info, kind, lk)
        if (kind, lk if kind == "Lit" else "") in seen:
            continue
        seen.add((kind, lk if kind == "Lit" else ""))
        if text is None or info != "Into table":
            out.inconclusive.append("fn=HelperAttributeForDefault::value reason=%s; no native sample for this expression kind" % what)
            continue
        texts = [text] + (["a::K", "<T as Tr>::K", "Self::K", "K::<u8>"] if kind == "Path" else [])
        hit = None
        for tx in texts:
            case = {"property": "C11", "kind": "matches", "mode": "attr", "attr": "Default", "item": "struct X { #[default(%s)] a: T }" % tx, "regex": r":: core :: convert :: Into",
                    "expected": kind == "Path" or (kind == "Lit" and lk == "Str"), "where": "out", "explain": "only string literals and paths are converted with Into; " + what}
            if replay_e3.disagrees(case, replay_e3.observe(case)):
                hit = case
                break
        if hit:
            path = e3.write_replay("C11", "into-%s-%s" % (kind, lk if kind == "Lit" else ""), hit)
            out.violation("into-table|%s%s" % (kind, ":" + lk if kind == "Lit" else ""), path, "%s: #[derive_ex(Default)] %s" % (what, hit["item"]))
        else:
            out.inconclusive.append("fn=HelperAttributeForDefault::value reason=%s; not reproduced natively with %s" % (what, texts))
    obl.failed = []
    try:
        c11_enum_rules(out, obl, nv)
    except mx.Inconclusive as e:
        out.inconclusive.append("fn=build_default_for_enum reason=%s" % e)
    for label, m, info in obl.failed:
        if label.startswith("coverage"):
            out.broken.append("build_default_for_enum: path conditions do not cover the configuration space")
            continue
        _, ex2, n, has, val, tv = info
        tvb = lambda e: z3.is_true(m.eval(e, model_completion=True))
        k = m.eval(n, model_completion=True).as_long()
        vs = []
        for v in range(k):
            at = ""
            if tvb(has[v]):
                at = "#[default(7)] " if tvb(val[v]) else "#[default] "
            vs.append("%sV%d(u8)" % (at, v))
        item = "%senum X { %s }" % ("#[default(X::V0(1))] " if tvb(tv) else "", ", ".join(vs))
        nh = sum(1 for v in range(k) if tvb(has[v]))
        ref = (not tvb(tv)) and (nh >= 2 or (nh == 0 and k != 1) or any(tvb(has[v]) and tvb(val[v]) for v in range(k)) and nh == 1)
        case = {"property": "C11", "kind": "reject", "mode": "attr", "attr": "Default", "item": item, "expected_reject": ref,
                "explain": "enum default-variant rules"}
        from . import replay_e3
        obs = replay_e3.observe(case)
        path = e3.write_replay("C11", "enum-rules-%d" % len(out.violations), case)
        if replay_e3.disagrees(case, obs):
            out.violation("default-enum-rules|%s" % common.norm(item)[:80], path, "macro %s but the documentation says %s: #[derive_ex(Default)] %s" % (
                "rejects" if obs["rejected"] else "accepts", "reject" if ref else "accept", item))
        else:
            e3.not_reproduced(out, m, "for the enum default-variant rules: %s" % item)
    return obl


def c11_enum_rules(out, obl, nv=3):
    """build_default_for_enum refuses exactly: no #[default] variant (unless the enum has a single variant), several of them, or a value on the variant's attribute;
    a type-level value makes all of that irrelevant"""
    eng = engine()
    ex = eng.executor(slice_bound=nv, opaque_local={"WhereClauseBuilder::new", "WhereClauseBuilder::build", "GenericParamSet::contains_in_type", "DeriveItemKind::to_path",
                                                     "build_ctor_args"})
    fn = eng.find("build_default_for_enum")
    pre = [z3.Not(ex.bvar("hattrs.default.<Some>.0.bounds.default")), z3.Not(ex.bvar("e.bounds_this.default")),
           ex.ivar("disc(hattrs.items.{agg:DeriveItemKind::Default()})", 0, 1) == 0]
    res = ex.run(fn, eng.args_for(fn), pre=pre)
    obl.note_paths("build_default_for_enum", res, ex)
    stuck = [r for r in res if r.kind != "return"]
    for r in stuck[:1]:
        out.inconclusive.append("fn=build_default_for_enum reason=%s %s" % (r.kind, r.value))
    pres = lambda p: ex.ivar("disc(%s)" % p, 0, 1) == 1
    n = ex.ivar("len(variants)", 0, nv)
    tv = z3.And(pres("hattrs.default"), pres("hattrs.default.<Some>.0.value"))
    has = [z3.And(n > v, pres("variants.[%d].hattrs.default" % v)) for v in range(nv)]
    val = [pres("variants.[%d].hattrs.default.<Some>.0.value" % v) for v in range(nv)]
    count = z3.Sum([z3.If(h, 1, 0) for h in has])
    sel_value = z3.Or([z3.And(count == 1, has[v], val[v]) for v in range(nv)])
    reject = z3.And(z3.Not(tv), z3.Or(count >= 2, z3.And(count == 0, n != 1), sel_value))
    for r in res:
        if r.kind != "return":
            continue
        obl.check_unsat(ex, "default-enum:rejection-rules", list(r.pc) + [reject if not is_err(r) else z3.Not(reject)], info=("enum-rules", ex, n, has, val, tv), keep_smt=True)
    if not stuck:
        e3.coverage_check(ex, obl, "build_default_for_enum", res, pre=pre)


def c10_transparent(out):
    """build_debug_expr refuses exactly when two or more existing fields are transparent (0..3 fields)"""
    eng = engine()
    obl = e3.Obligations("C10")
    ex = eng.executor(slice_bound=3, opaque_local={"FieldEntry::push_bounds_to", "FieldEntry::member", "WhereClauseBuilder::push_bounds_for_field"})
    fn = eng.find("build_debug_expr")
    res = ex.run(fn, eng.args_for(fn))
    obl.note_paths("build_debug_expr", res, ex)
    n = ex.ivar("len(fields)", 0, 3)
    ts = [z3.And(n > i, ex.ivar("disc(fields.[%d].hattrs.debug.transparent.span)" % i, 0, 1) == 1) for i in range(3)]
    two = z3.Or(z3.And(ts[0], ts[1]), z3.And(ts[0], ts[2]), z3.And(ts[1], ts[2]))
    stuck = [r for r in res if r.kind == "stuck"]
    for r in stuck[:1]:
        out.inconclusive.append("fn=build_debug_expr reason=%s" % (r.value,))
    for r in res:
        if r.kind != "return":
            continue
        obl.check_unsat(ex, "debug-transparent-rejection", list(r.pc) + [two if not is_err(r) else z3.Not(two)], info="transparent")
    from . import replay_e3
    seen = set()
    for label, m, info in obl.failed:
        nn = m.eval(n, model_completion=True).as_long()
        tv = [z3.is_true(m.eval(t, model_completion=True)) for t in ts][:nn]
        if tuple(tv) in seen:
            continue
        seen.add(tuple(tv))
        item = "struct X { %s }" % ", ".join("%sf%d: u8" % ("#[debug(transparent)] " if t else "", i) for i, t in enumerate(tv))
        case = {"property": "C10", "kind": "reject", "mode": "attr", "attr": "Debug", "item": item, "expected_reject": sum(tv) >= 2,
                "explain": "two or more #[debug(transparent)] fields must be refused; one or none must be accepted"}
        obs = replay_e3.observe(case)
        if replay_e3.disagrees(case, obs):
            path = e3.write_replay("C10", "transparent%d" % len(seen), case)
            out.violation("transparent-rejection|%s" % "".join("t" if t else "-" for t in tv), path,
                          "#[derive_ex(Debug)] %s is %s" % (item, "accepted" if case["expected_reject"] else "refused"))
        else:
            e3.not_reproduced(out, m, "for build_debug_expr: %s" % item)
    return obl


def c10_chain(out, nmax=3):
    """build_debug_expr emits, for every configuration of 0..3 fields, exactly the builder chain that the standard derive's helper functions run:
    `f.debug_struct|debug_tuple(name)` + `.field([name,] &expr)` for each field that is not ignored, in order, + `.finish()`; with one transparent field
    `::core::fmt::Debug::fmt(expr, f)`. One z3 query per path (ignore / transparent flags, field count and named-ness symbolic). The obligation is about the
    tokens the macro emits, so it holds for every formatter state - including the alternate flag, which CBMC cannot reach. A failing configuration is
    confirmed (or not) by running the real expansion natively against a std-derived twin on alternate and plain format specs."""
    import itertools
    from .mir import tokens as tk
    eng = engine()
    obl = e3.Obligations("C10")
    ex = eng.executor(slice_bound=nmax, opaque_local={"FieldEntry::push_bounds_to", "FieldEntry::member", "WhereClauseBuilder::push_bounds_for_field"})
    ex.trace = _Everything()
    ex.unique_streams = True
    fn = eng.find("build_debug_expr")
    n = ex.ivar("len(fields)", 0, nmax)
    named = ex.ivar("disc(fields_source)", 0, 2) == 0
    tr = [ex.ivar("disc(fields.[%d].hattrs.debug.transparent.span)" % i, 0, 1) == 1 for i in range(nmax)]
    ig = [ex.ivar("disc(fields.[%d].hattrs.debug.ignore.span)" % i, 0, 1) == 1 for i in range(nmax)]
    # syn invariant: the fields of `Fields::Named` have identifiers, those of `Fields::Unnamed` have none; a unit shape has no fields
    pre = [z3.Implies(n > i, (ex.ivar("disc(fields.[%d].field.ident)" % i, 0, 1) == 1) == named) for i in range(nmax)]
    pre.append(z3.Implies(ex.ivar("disc(fields_source)", 0, 2) == 2, n == 0))
    res = ex.run(fn, eng.args_for(fn), pre=pre)
    obl.note_paths("build_debug_expr[chain]", res, ex)
    for r in [r for r in res if r.kind == "stuck"][:1]:
        out.inconclusive.append("fn=build_debug_expr[chain] reason=%s" % (r.value,))

    def reference(k, nm, trs, igs):
        t_idx = [i for i in range(k) if trs[i]]
        if len(t_idx) >= 2:
            return None  # refused (decided by c10_transparent)
        e = lambda i: "<opaque:impl Fn(&FieldEntry) -::call(sym:to_expr,agg:tuple(sym:fields.[%d]))>" % i
        if t_idx:
            return ":: core :: fmt :: Debug :: fmt ( %s , f )" % e(t_idx[0])
        toks = ["f", ".", "debug_struct" if nm else "debug_tuple", "(", "<opaque:ToString::Ident::to_string(opaque:IdentExt::Ident::unraw(sym:ident))>", ")"]
        for i in range(k):
            if igs[i]:
                continue
            toks += [".", "field", "("]
            if nm:
                toks += ["<opaque:ToString::Ident::to_string(opaque:IdentExt::Ident::unraw(sym:fields.[%d].field.ident.<Some>.0))>" % i, ","]
            toks += ["&", e(i), ")"]
        toks += [".", "finish", "(", ")"]
        return " ".join(toks)

    combos = []
    for k in range(nmax + 1):
        for nm in (True, False):
            for trs in itertools.product((False, True), repeat=k):
                for igs in itertools.product((False, True), repeat=k):
                    combos.append((k, nm, trs, igs, reference(k, nm, trs, igs)))

    def formula(k, nm, trs, igs):
        cs = [n == k, named if nm else z3.Not(named)]
        for i in range(k):
            cs.append(tr[i] if trs[i] else z3.Not(tr[i]))
            cs.append(ig[i] if igs[i] else z3.Not(ig[i]))
        return z3.And(cs)

    unknown = None
    for r in res:
        if r.kind != "return" or is_err(r):
            continue
        try:
            streams = tk.render(r.events)
        except tk.Unknown as e:
            unknown = str(e)
            continue
        from .mir.streams import sid
        ret = sid(ex.summ(mx.State(), r.value))
        from .replay_e3 import unlocal
        got = unlocal(tk.text(streams.get(ret, []))) if ret else None
        if got is None:
            unknown = "the returned value is not a stream the executor followed"
            continue
        good = [formula(k, nm, trs, igs) for (k, nm, trs, igs, ref) in combos if ref is not None and "".join(ref.split()) == "".join(got.split())]
        refused = [formula(k, nm, trs, igs) for (k, nm, trs, igs, ref) in combos if ref is None]
        obl.check_unsat(ex, "debug-chain", list(pre) + list(r.pc) + [z3.Not(z3.Or(good + refused)) if (good or refused) else z3.BoolVal(True)], info=got, keep_smt=True)
    if unknown:
        out.inconclusive.append("fn=build_debug_expr[chain] reason=%s" % unknown)
    if len(obl.samples) < 2 and res:
        obl.samples.append({"function": "build_debug_expr", "obligation": "path_condition AND NOT(configuration is one whose documented chain equals the emitted tokens) is UNSAT",
                            "example_reference": reference(2, True, (False, False), (True, False))})
    # confirmation of failing configurations: behaviour of the real expansion against a std-derived twin, alternate specs included
    seen = set()
    for label, m, got in obl.failed:
        k = m.eval(n, model_completion=True).as_long()
        nm = z3.is_true(m.eval(named, model_completion=True))
        trs = tuple(z3.is_true(m.eval(tr[i], model_completion=True)) for i in range(k))
        igs = tuple(z3.is_true(m.eval(ig[i], model_completion=True)) for i in range(k))
        key = (k, nm, trs, igs)
        if key in seen or len(seen) >= 4:
            continue
        seen.add(key)
        from . import c10, kani_runner, common
        shape = ("named%d" % k if nm else "tuple%d" % k) if k else ("empty-braces" if nm else "empty-parens")
        if shape not in c10.SHAPES:
            out.inconclusive.append("fn=build_debug_expr[chain] reason=emits `%s` for %s; no native shape to confirm with" % (got[:120], key))
            continue
        ign = tuple((0, i) for i in range(k) if igs[i])
        t1 = [(0, i) for i in range(k) if trs[i]]
        progs = [c10.build("c%02d%d" % (len(seen), j), shape, ign, t1[0] if t1 else None, sp, "attr", False, False, "Debug") for j, sp in enumerate(["{:#?}", "{:?}", "{:#x?}", "{:08.2?}"])]
        before = len(out.violations)
        kani_runner.run_native("C10", progs, 60, common.seed(), out)
        if len(out.violations) == before:
            ref = reference(*key)
            out.inconclusive.append("fn=build_debug_expr[chain] reason=for %s fields (named=%s, transparent=%s, ignored=%s) the macro emits `%s`, the documented chain is `%s`; "
                                    "no behavioural difference from the std-derived twin on sampled payloads" % (k, nm, trs, igs, got[:160], (ref or "")[:160]))
    obl.failed = []
    return obl


class _Everything(set):
    def __contains__(self, x):
        return True


def c01_selection(out):
    """the comparator source used by build_{partial_eq,partial_ord,ord,hash}_expr is the first present one of the documented precedence list; is_reverse table"""
    eng = engine()
    obl = e3.Obligations("C01")
    tr = {"Template::build_eq_expr", "Template::build_partial_cmp_expr", "Template::build_cmp_expr", "Template::build_hash_stmt", "ToTokens::Expr::to_tokens"}
    ex_by_trait = {}
    for trait, fname in (("PartialEq", "build_partial_eq_expr"), ("PartialOrd", "build_partial_ord_expr"), ("Ord", "build_ord_expr"), ("Hash", "build_hash_expr")):
        ex = eng.executor(trace=tr, opaque_local={"ItemSourceKind::this_of", "ItemSourceKind::self_of", "ItemSourceKind::other_of", "FieldEntry::make_ident", "FieldEntry::span",
                                                   "Template::build_eq_expr", "Template::build_partial_cmp_expr", "Template::build_cmp_expr", "Template::build_hash_stmt"})
        fn = eng.find(fname)
        pre = [z3.Not(ex.bvar("use_bounds"))]
        res = ex.run(fn, eng.args_for(fn), pre=pre)
        obl.note_paths(fname, res, ex)
        ex_by_trait[trait] = ex
        fa = FieldAtoms(ex, "field")
        for r in res:
            if r.kind != "return" or is_err(r):
                continue
            used = None
            for name, args in r.events:
                m = re.search(r"field\.hattrs\.cmp\.(\w+)\.(key|by)", " ".join(args))
                if m:
                    used = (m.group(1), m.group(2))
                    break
            cond = fa.comparator_is(trait, used[0], used[1]) if used else z3.And(fa.default_comparator(trait), z3.Not(fa.any_custom()))
            obl.check_unsat(ex, "%s:comparator-precedence" % fname, list(r.pc) + [z3.Not(cond)], info=(trait, used), keep_smt=True)
    ex = eng.executor()
    fn = eng.find("HelperAttributesForCompareOp::is_reverse")
    op = ex.ivar("disc(op)", 0, 4)
    pre = [op <= 1]
    res = ex.run(fn, eng.args_for(fn), pre=pre)
    obl.note_paths("is_reverse", res, ex)
    rv = lambda a: ex.ivar("disc(self.%s.reverse.span)" % a, 0, 1) == 1
    for r in res:
        if r.kind != "return":
            continue
        if is_err(r):
            obl.check_unsat(ex, "is_reverse:err", list(r.pc) + [z3.Not(z3.And(op == 0, rv("partial_ord")))], info=("rev", "err"))
        else:
            v = r.value.fields[0]
            if isinstance(v, mx.Sym):
                v = ex.bvar(mx.pstr(v.path))
            elif not z3.is_expr(v):
                if not isinstance(v, bool):
                    out.inconclusive.append("fn=is_reverse reason=value is %r" % (v,))
                    continue
                v = z3.BoolVal(v)
            want = z3.If(op == 0, rv("ord"), z3.Or(rv("partial_ord"), rv("ord")))
            obl.check_unsat(ex, "is_reverse:value", list(r.pc) + [v != want], info=("rev", "value"))
            obl.check_unsat(ex, "is_reverse:ok", list(r.pc) + [z3.And(op == 0, rv("partial_ord"))], info=("rev", "ok"))
    # a failed obligation is an alarm only if the real expansion of the model's attributes uses another comparator than the documented one
    from . import replay_e3
    from .mir import cmpcfg as cc
    seen = set()
    for label, m, info in obl.failed:
        if info[0] == "rev":
            keyattrs = [a for a in ("ord", "partial_ord") if z3.is_true(m.eval(ex.ivar("disc(self.%s.reverse.span)" % a, 0, 1) == 1, model_completion=True))]
            ordop = z3.is_true(m.eval(op == 0, model_completion=True))
            attrs = " ".join("#[%s(reverse)]" % a for a in keyattrs)
            trait = "Ord" if ordop else "PartialOrd"
            item = "struct X { %s a: u8 }" % attrs
            # documented: Ord is reversed by ord(reverse) only and refuses partial_ord(reverse); PartialOrd by either
            if ordop and "partial_ord" in keyattrs:
                case = {"property": "C01", "kind": "reject_trait", "trait": "Ord", "mode": "attr", "attr": "Ord, PartialOrd, Eq, PartialEq", "item": item, "expected_reject": True}
            else:
                rev = ("ord" in keyattrs) if ordop else bool(keyattrs)
                method = "cmp" if ordop else "partial_cmp"
                needle = r"fn %s \(.*?:: %s \(& \(\(other \. a\)\) , & \(\(self \. a\)\)\)" % (method, method)
                case = {"property": "C01", "kind": "matches", "mode": "attr", "attr": "Ord, PartialOrd, Eq, PartialEq", "item": item, "regex": needle, "expected": rev, "where": "out"}
        else:
            trait, used = info
            fa = FieldAtoms(ex_by_trait[trait], "field")
            attrs = fa.attrs_from_model(m, with_bounds=False)
            tvb = lambda e: z3.is_true(m.eval(e, model_completion=True))
            doc = None
            for a in cc.PREC[trait]:
                for how in (("key",) if (trait == "Hash" and a != "hash") else ("by", "key")):
                    if doc is None and tvb(fa.by(a) if how == "by" else fa.key(a)):
                        doc = (a, how)
            item = "struct X { %s a: NotEq }" % " ".join(attrs)
            marker = lambda a, how: ("f_%s" % a) if how == "by" else (r"k_%s \(\)" % a)
            method = {"PartialEq": "eq", "PartialOrd": "partial_cmp", "Ord": "cmp", "Hash": "hash"}[trait]
            body = r"fn %s [(<].*?(?=# \[automatically_derived\]|$)" % method
            if doc is None and tvb(fa.any_custom()):
                # a comparator customised for other traits only: the default implementation must be refused for this one (A.4)
                case = {"property": "C01", "kind": "reject_trait", "trait": trait, "mode": "attr", "attr": "Ord, PartialOrd, Eq, PartialEq, Hash", "item": item, "expected_reject": True}
            elif doc is None:
                case = {"property": "C01", "kind": "matches", "mode": "attr", "attr": "Ord, PartialOrd, Eq, PartialEq, Hash", "item": item, "regex": body.replace(".*?", "(?:(?!k_|f_).)*?", 1), "expected": True, "where": "out"}
            else:
                case = {"property": "C01", "kind": "matches", "mode": "attr", "attr": "Ord, PartialOrd, Eq, PartialEq, Hash", "item": item,
                        "regex": r"impl :: core :: [a-z]+ :: %s for X \{ fn %s [(<](?:(?!automatically_derived).)*?%s" % (trait if trait != "Hash" else "Hash", method, marker(*doc)), "expected": True, "where": "out"}
        key = "e3|%s|%s" % (label, common.norm(case["item"])[:80])
        if key in seen:
            continue
        seen.add(key)
        obs = replay_e3.observe(case)
        if trait in obs.get("rejected_traits", []) and case["kind"] != "reject_trait":
            e3.not_reproduced(out, m, "for %s: the macro refuses %s for %s" % (label, trait, case["item"]))
        elif replay_e3.disagrees(case, obs):
            path = e3.write_replay("C01", "sel-%d" % len(seen), dict(case, explain="MIR path of %s disagrees with the documented precedence / reverse rule (%s)" % (label, info)))
            out.violation(key, path, "%s uses another comparator / direction than documented for: #[derive_ex(%s)] %s" % (trait, case["attr"], case["item"]))
        else:
            e3.not_reproduced(out, m, "for %s (%s): the real expansion follows the documented rule on %s" % (label, info, case["item"]))
    try:
        c01_to_index(out, obl)
    except mx.Inconclusive as e:
        out.inconclusive.append("fn=build_to_index_fn reason=%s" % e)
    return obl


class _All(set):
    def __contains__(self, x):
        return True


def c01_to_index(out, obl):
    """cross-variant ordering: the arm generated for the i-th variant maps it to the index i (an untyped usize literal, nothing else)"""
    eng = engine()
    ex = eng.executor(opaque_local={"VariantEntry::make_pat_wildcard"}, slice_bound=3)
    ex.trace = _All()
    fn = eng.find("build_to_index_fn")
    res = ex.run(fn, eng.args_for(fn))
    obl.note_paths("build_to_index_fn", res, ex)
    for r in res:
        if r.kind != "return":
            out.inconclusive.append("fn=build_to_index_fn reason=%s" % (r.value,))
            continue
        evs = [e for e in r.events if e[0] != "TokenStream::new"]
        n = sum(1 for c in r.pc if re.fullmatch(r"len\(variants\) > \d+", str(c)))
        arms = []
        i = 0
        while i < len(evs):
            if evs[i][0] == "VariantEntry::make_pat_wildcard":
                j = i + 1
                arm = []
                while j < len(evs) and evs[j][0] not in ("Vec::push",):
                    arm.append(evs[j])
                    j += 1
                arms.append((evs[i][1][0], arm))
                i = j
            i += 1
        obl.total += 1
        ok = len(arms) == n
        for idx, (pat, arm) in enumerate(arms):
            names = [e[0].split("::")[-1] for e in arm]
            ok = ok and pat == "sym:variants.[%d]" % idx
            ok = ok and names == ["to_tokens", "push_group", "push_fat_arrow", "to_tokens", "push_comma"]
            ok = ok and len(arm) == 5 and arm[3][0] == "ToTokens::usize::to_tokens" and arm[3][1][0] == str(idx)
        if ok:
            obl.discharged += 1
        else:
            probes.structural(out, "to_index-arms", "build_to_index_fn does not map the i-th variant to the plain index i: %s" % ([(p, [e[0].split("::")[-1] + ":" + e[1][0][:20] for e in a]) for p, a in arms][:3],), 'C01.to_index')


def c09_kernels(out):
    """owned <-> borrowed adaptation of operands (change_owned) and base-form detection (to_ref_elem)"""
    eng = engine()
    obl = e3.Obligations("C09")
    ex = eng.executor()
    ex.trace = _All()
    fn = eng.find("change_owned")
    res = ex.run(fn, eng.args_for(fn))
    obl.note_paths("change_owned", res, ex)
    i, o = ex.bvar("input_ref"), ex.bvar("output_ref")
    for r in res:
        if r.kind != "return":
            out.inconclusive.append("fn=change_owned reason=%s" % (r.value,))
            continue
        idents = [e[1][-1] for e in r.events if e[0].endswith("push_ident")]
        interp = any(e[0].endswith("to_tokens") for e in r.events)
        clones = "str:Clone" in idents and "str:clone" in idents
        borrows = any(e[0].endswith("push_and") for e in r.events) and not clones
        asis = isinstance(r.value, mx.Sym) and mx.pstr(r.value.path) == "expr"
        # clone exactly when received by reference but needed by value; re-borrow exactly when owned but needed by reference; otherwise pass on unchanged
        obl.check_unsat(ex, "change_owned:clone", list(r.pc) + [z3.And(i, z3.Not(o)) if not clones else z3.Not(z3.And(i, z3.Not(o)))], info="clone")
        obl.check_unsat(ex, "change_owned:borrow", list(r.pc) + [z3.And(z3.Not(i), o) if not borrows else z3.Not(z3.And(z3.Not(i), o))], info="borrow")
        obl.check_unsat(ex, "change_owned:as-is", list(r.pc) + [(i == o) if not asis else (i != o)], info="as-is")
    e3.coverage_check(ex, obl, "change_owned", res)
    ex = eng.executor()
    ex.trace = _All()
    fn = eng.find("to_ref_elem")
    res = ex.run(fn, eng.args_for(fn))
    obl.note_paths("to_ref_elem", res, ex)
    types = eng.ti.enums.get("Type")
    if types and "Reference" in types:
        d = ex.ivar("disc(ty)", 0, len(types) - 1)
        lt = ex.ivar("disc(ty.<Reference>.0.1)", 0, 1) == 0  # no lifetime
        mu = ex.ivar("disc(ty.<Reference>.0.2)", 0, 1) == 0  # not `mut`
        want = z3.And(d == types.index("Reference"), lt, mu)
        for r in res:
            if r.kind != "return" or not isinstance(r.value, mx.Agg) or len(r.value.fields) != 2:
                out.inconclusive.append("fn=to_ref_elem reason=%s" % (r.value,))
                continue
            flag = r.value.fields[1]
            if isinstance(flag, mx.Sym):
                flag = ex.bvar(mx.pstr(flag.path))
            elif not z3.is_expr(flag):
                if not isinstance(flag, bool):
                    out.inconclusive.append("fn=to_ref_elem reason=flag is %r" % (flag,))
                    continue
                flag = z3.BoolVal(flag)
            obl.check_unsat(ex, "to_ref_elem:is-ref", list(r.pc) + [flag != want], info="base form detection")
            elem = "ty.<Reference>.0.3" in ex.summ(mx.State(), r.value.fields[0])
            obl.check_unsat(ex, "to_ref_elem:elem", list(r.pc) + [want if not elem else z3.Not(want)], info="referent")
    else:
        out.inconclusive.append("fn=to_ref_elem reason=syn::Type variant order not found")
    for label, m, info in obl.failed:
        # decided together with the E1 programs of C09 (e1.finish): on its own a kernel failure may only mean that the executor's reading of the tokens no longer fits
        if not hasattr(out, "pending"):
            out.pending = []
        out.pending.append(("e3|%s" % label, "MIR path of %s disagrees with the documented operand adaptation (%s)" % (label, info)))
    return obl


def _name_table_failure(out, key, what, nm):
    """an operator name-table obligation failed: alarm only if deriving that operator natively gives another trait / method than its name says"""
    from . import replay_e3
    base = nm[:-6] if nm.endswith("Assign") else nm
    meth = {"BitAnd": "bitand", "BitOr": "bitor", "BitXor": "bitxor"}.get(base, base.lower()) + ("_assign" if nm.endswith("Assign") else "")
    case = {"property": "C08", "kind": "matches", "mode": "attr", "attr": nm, "item": "struct X(u8);", "where": "out", "expected": True,
            "regex": r"impl :: core :: ops :: %s (?:< [^{]*?> )?for X \{ (?:type Output = X ; )?fn %s \(" % (nm, meth), "explain": what}
    obs = replay_e3.observe(case)
    if replay_e3.disagrees(case, obs):
        out.violation(key, e3.write_replay("C08", "name-" + nm, case), what + "; natively #[derive_ex(%s)] struct X(u8); does not give `impl ::core::ops::%s .. fn %s`" % (nm, nm, meth))
    else:
        msg = "structure not recognised: %s [deriving %s natively gives the trait and method of that name]" % (what, nm)
        if msg not in out.inconclusive:
            out.inconclusive.append(msg)


def c08_tables(out):
    """operator name tables: trait name <-> enum <-> method name are mutually consistent for all 22 operator traits"""
    eng = engine()
    obl = e3.Obligations("C08")
    names = {"BinaryOp": ["Add", "BitAnd", "BitOr", "BitXor", "Div", "Mul", "Rem", "Shl", "Shr", "Sub"], "UnaryOp": ["Neg", "Not"]}
    for ty, ns in names.items():
        for idx, nm in enumerate(ns):
            variants = eng.ti.enums.get(ty)
            if not variants:
                out.inconclusive.append("fn=%s reason=enum not found" % ty)
                return obl
            for meth, want in (("to_str", nm), ("to_func_name", nm.lower())):
                ex = eng.executor()
                fn = eng.find("%s::%s" % (ty, meth))
                res = ex.run(fn, [mx.Agg("adt", ty, nm, [])])
                obl.note_paths("%s::%s" % (ty, meth), res, ex)
                obl.total += 1
                got = [r.value.extra for r in res if r.kind == "return" and isinstance(r.value, mx.Agg) and r.value.kind == "str"]
                if got == [want]:
                    obl.discharged += 1
                else:
                    _name_table_failure(out, "name-table|%s::%s(%s)" % (ty, meth, nm), "%s::%s(%s) = %s, expected %s" % (ty, meth, nm, got, want), nm)
            ex = eng.executor()
            fn = eng.find("%s::from_str" % ty)
            res = ex.run(fn, [mx.Agg("str", None, None, [], extra=nm)])
            obl.note_paths("%s::from_str" % ty, res, ex)
            obl.total += 1
            got = [(r.value.variant, r.value.fields[0].variant if r.value.fields else None) for r in res if r.kind == "return" and isinstance(r.value, mx.Agg)]
            if got == [("Some", nm)]:
                obl.discharged += 1
            else:
                _name_table_failure(out, "name-table|%s::from_str(%s)" % (ty, nm), "%s::from_str(\"%s\") = %s" % (ty, nm, got), nm)
    # DeriveItemKind::from_str: `XAssign` -> AssignOp(X), `X` -> BinaryOp(X) / UnaryOp(X), and the trait path is ::core::ops::<name>
    for nm in names["BinaryOp"] + names["UnaryOp"]:
        for suffix, kind in (("", "BinaryOp" if nm in names["BinaryOp"] else "UnaryOp"), ("Assign", "AssignOp")):
            if suffix and nm in names["UnaryOp"]:
                continue
            ex = eng.executor()
            fn = eng.find("DeriveItemKind::from_str")
            res = ex.run(fn, [mx.Agg("str", None, None, [], extra=nm + suffix)])
            obl.note_paths("DeriveItemKind::from_str", res, ex)
            obl.total += 1
            got = []
            for r in res:
                if r.kind == "return" and isinstance(r.value, mx.Agg) and r.value.variant == "Some" and isinstance(r.value.fields[0], mx.Agg):
                    k = r.value.fields[0]
                    got.append((k.variant, k.fields[0].variant if k.fields and isinstance(k.fields[0], mx.Agg) else None))
                else:
                    got.append((r.kind, str(r.value)[:40]))
            if got == [(kind, nm)]:
                obl.discharged += 1
            else:
                _name_table_failure(out, "name-table|DeriveItemKind::from_str(%s)" % (nm + suffix), "DeriveItemKind::from_str(\"%s\") = %s, expected %s(%s)" % (nm + suffix, got, kind, nm), nm + suffix)
    return obl


def entry_args_provenance(out, pid, n=2):
    """DeriveEntry::from_args_list: every entry takes its per-trait bound from its own `(..)` arguments (an empty Bounds when it has none) and its shared bound from
    the list it was written in - nothing is carried over from a neighbouring entry or list. Presence of per-trait arguments is symbolic."""
    eng = engine()
    obl = e3.Obligations(pid)
    ex = eng.executor(slice_bound=n, opaque_local={"DeriveItemKind::from_ident", "Bounds::from", "From::Bounds::from", "Bounds::new"})
    fn = eng.find("DeriveEntry::from_args_list")
    res = ex.run(fn, eng.args_for(fn))
    tag = "DeriveEntry::from_args_list[<=%d lists x <=%d traits]" % (n, n)
    obl.note_paths(tag, res, ex)
    names = eng.ti.structs.get("DeriveEntry")
    # `Bounds::from(&None)` is the empty Bounds as well - decided on the MIR of Bounds::from / Bounds::new, not assumed
    none_is_empty = False
    try:
        ex0 = eng.executor()
        f_from, f_new = eng.find("Bounds::from"), eng.find("Bounds::new")
        r_from = ex0.run(f_from, [mx.Agg("adt", "Option", "None", [])])
        r_new = eng.executor().run(f_new, [])
        obl.note_paths("Bounds::from(None)", r_from, ex0)
        none_is_empty = len(r_from) == 1 and len(r_new) == 1 and r_from[0].kind == r_new[0].kind == "return" and \
            ex0.summ(mx.State(), r_from[0].value) == ex0.summ(mx.State(), r_new[0].value)
    except Exception:  # noqa
        pass
    for r in res:
        if r.kind == "stuck":
            out.inconclusive.append("fn=%s reason=%s" % (tag, r.value))
            continue
        if r.kind != "return" or is_err(r) or not isinstance(r.value.fields[0], mx.VecL):
            continue
        conj, what = [], []
        for ent in r.value.fields[0].items:
            if not (isinstance(ent, mx.Agg) and names and len(names) == len(ent.fields)):
                out.inconclusive.append("fn=%s reason=DeriveEntry not recognised" % tag)
                continue
            f = {k: ex.summ(mx.State(), v) if not z3.is_expr(v) else str(v) for k, v in zip(names, ent.fields)}
            m = re.search(r"args_list\.\[(\d+)\]\.items\.\[(\d+)\]\.trait_ident", f.get("kind", ""))
            if not m or "bounds_this" not in f or "bounds_common" not in f:
                out.inconclusive.append("fn=%s reason=entry without provenance" % tag)
                continue
            i, j = int(m.group(1)), int(m.group(2))
            is_some = ex.ivar("disc(args_list.[%d].items.[%d].args)" % (i, j), 0, 1) == 0
            own = re.fullmatch(r"opaque:Bounds::from\(sym:args_list\.\[%d\]\.items\.\[%d\]\.args\.<Some>\.\w+\.bound\)" % (i, j), f["bounds_this"]) is not None
            empty = f["bounds_this"] == "opaque:Bounds::new()" or (none_is_empty and f["bounds_this"] == "opaque:Bounds::from(agg:Option::None())")
            conj.append(is_some if own else (z3.Not(is_some) if empty else z3.BoolVal(False)))
            conj.append(z3.BoolVal(f["bounds_common"] == "opaque:Bounds::from(sym:args_list.[%d].bound)" % i))
            what.append((i, j, f["bounds_this"][7:], f["bounds_common"][7:]))
        obl.check_unsat(ex, tag + ":args-provenance", list(r.pc) + [z3.Not(z3.And(conj))] if conj else list(r.pc) + [z3.BoolVal(False)], info=(what, ex, n), keep_smt=True)
    from . import replay_e3
    seen = set()
    for label, model, info in obl.failed:
        what, ex2, n2 = info
        tv = lambda e: z3.is_true(model.eval(e, model_completion=True))
        # concrete lists: a marker bound on every entry that has arguments and on every list; each impl must carry exactly its own markers
        traits = ["Clone", "Default", "Debug", "PartialEq", "Hash", "Add", "Sub", "Neg", "Not"]
        nl = model.eval(ex2.ivar("len(args_list)", 0, n2), model_completion=True).as_long()
        lists, expect, t = [], {}, 0
        # a list carries a shared bound(..) unless the model says that it has none (the presence is a configuration atom only on paths that ask for it)
        shared = []
        for i in range(min(nl, n2)):
            dv = model[ex2.ivar("disc(args_list.[%d].bound)" % i, 0, 1)]
            shared.append(not (dv is not None and dv.as_long() == 0))
        for i in range(min(nl, n2)):
            li = model.eval(ex2.ivar("len(args_list.[%d].items)" % i, 0, n2), model_completion=True).as_long()
            ents = []
            for j in range(min(li, n2)):
                name = traits[t]
                t += 1
                some = tv(ex2.ivar("disc(args_list.[%d].items.[%d].args)" % (i, j), 0, 1) == 0)
                ents.append("%s(bound(T: M%d%d, ..))" % (name, i, j) if some else name)
                expect[name] = sorted((["T:M%d%d" % (i, j)] if some else []) + (["T:L%d" % i] if shared[i] else []))
            lists.append(", ".join(ents + (["bound(T: L%d, ..)" % i] if shared[i] else [])))
        if not expect or tuple(lists) in seen:
            continue
        if sum(1 for v in out.violations if v[0].startswith("args-provenance|")) >= 3:
            break  # three replayed inputs say it; further models of the same obligation add nothing
        seen.add(tuple(lists))
        item = "%s struct X<T> { a: T }" % " ".join("#[derive_ex(%s)]" % l for l in lists[1:])
        res1 = common.expand_many([("attr", lists[0], item)])[0]
        bad = None
        for it in res1.get("items", []):
            if it.get("kind") != "impl":
                continue
            tn = re.sub(r"<.*$", "", common.norm(it.get("trait", ""))).rsplit("::", 1)[-1]
            if tn in expect:
                got = sorted(w for w in (common.norm(x) for x in it.get("where", [])) if re.fullmatch(r"T:[ML]\d+", w))
                if got != expect[tn]:
                    bad = (tn, got, expect[tn])
                    break
        if bad:
            case = {"property": pid, "kind": "where_markers_of", "mode": "attr", "attr": lists[0], "item": item, "trait": bad[0], "expected_markers": bad[2],
                    "explain": "each entry's where-clause carries the markers of its own arguments and of its own list only; MIR path: %s" % (what,)}
            path = e3.write_replay(pid, "args-%s" % re.sub(r"\W+", "_", " | ".join(lists))[:60], case)
            out.violation("args-provenance|%s" % common.norm(" | ".join(lists))[:80], path,
                          "impl %s carries the bounds %s, its own arguments and list say %s: #[derive_ex(%s)] %s" % (bad[0], bad[1], bad[2], lists[0], item))
        else:
            e3.not_reproduced(out, model, "for %s: #[derive_ex(%s)] %s" % (label, lists[0], item))
    return obl
