"""C10 — Debug prints like the std derive minus ignored fields; transparent delegates (E1, non-alternate formatter options).

`{:#?}` is only claimed for field-less shapes: PadAdapter does not finish under CBMC (measured: 1-field struct undecided after 900 s).
"""
import itertools
import random
import time

from . import common, e1, kani_runner, e3_extras

PID = "C10"
SPECS = ["{:?}", "{:8?}", "{:<6?}", "{:*^9?}", "{:+?}", "{:.2?}", "{:x?}", "{:08?}", "{:-?}", "{:>5.1?}"]

# shape: (id, kind, variants) ; variant = (name, vkind, [field names or None])
SHAPES = {
    "unit": ("struct", [(None, "unit", [])]),
    "tuple1": ("struct", [(None, "tuple", [None])]),
    "tuple2": ("struct", [(None, "tuple", [None, None])]),
    "tuple3": ("struct", [(None, "tuple", [None, None, None])]),
    "named1": ("struct", [(None, "named", ["a"])]),
    "named2": ("struct", [(None, "named", ["a", "b"])]),
    "named3": ("struct", [(None, "named", ["z", "a", "m"])]),  # not in alphabetical order: declaration order counts
    "empty-braces": ("struct", [(None, "named", [])]),
    "empty-parens": ("struct", [(None, "tuple", [])]),
    "enum-mixed": ("enum", [("Q", "unit", []), ("B", "tuple", [None]), ("C", "named", ["y", "x"])]),
    "enum-units": ("enum", [("Left", "unit", []), ("Right", "unit", [])]),
    "enum-single": ("enum", [("Only", "tuple", [None, None])]),
    "raw-ident": ("struct", [(None, "named", ["r#type", "b"])]),
    "raw-variants": ("enum", [("r#type", "unit", []), ("r#fn", "tuple", [None]), ("r#match", "named", ["r#in", "b"])]),
    "hostile-names": ("enum", [("A", "named", ["f", "state"]), ("B", "named", ["this", "other"])]),
}


def render(kind, variants, attrs_of, fty, derive, name="T", generic=False, drop=None):
    """attrs_of(vi, fi) -> attribute text; drop(vi, fi) -> True to delete the field (twin)"""
    g = "<A>" if generic else ""
    out = []
    for vi, (vn, vk, fields) in enumerate(variants):
        fs = []
        for fi, fname in enumerate(fields):
            if drop and drop(vi, fi):
                continue
            at = attrs_of(vi, fi) if attrs_of else ""
            t = ("A" if generic and fi == 0 else fty)
            fs.append("%s%s%s" % (at + " " if at else "", ("pub %s: " % fname) if vk == "named" else "pub ", t))
        if vk == "unit":
            body = ""
        elif vk == "named":
            body = " { %s }" % ", ".join(fs)
        else:
            body = "(%s)" % ", ".join(fs)
        out.append((vn, vk, body))
    if kind == "struct":
        vn, vk, body = out[0]
        semi = ";" if vk in ("unit", "tuple") else ""
        return "%s\npub struct %s%s%s%s" % (derive, name, g, body, semi)
    vs = ",\n".join("    %s%s" % (vn, body.replace("pub ", "")) for vn, vk, body in out)
    return "%s\npub enum %s%s {\n%s\n}" % (derive, name, g, vs)


def ctor(kind, variants, vi, vals, path="T", drop=None):
    vn, vk, fields = variants[vi]
    p = path if kind == "struct" else "%s::%s" % (path, vn)
    items = [(fn, v) for fi, (fn, v) in enumerate(zip(fields, vals)) if not (drop and drop(vi, fi))]
    if vk == "unit":
        return p
    if vk == "named":
        return "%s { %s }" % (p, ", ".join("%s: %s" % (fn, v) for fn, v in items))
    return "%s(%s)" % (p, ", ".join(v for _, v in items))


def build(name, shape_id, ignored, transparent, spec, entry="attr", generic=False, nested=False, list_args="Debug"):
    kind, variants = SHAPES[shape_id]
    ignored = set(ignored)
    # one transparent field (vi, fi), or several - one per variant at most - as a tuple of positions
    tr_set = set() if transparent is None else ({transparent} if isinstance(transparent[0], int) else set(transparent))
    desc = "shape=%s ignored=%s transparent=%s spec=%s entry=%s generic=%s nested=%s list=%s" % (shape_id, sorted(ignored), transparent, spec, entry, generic, nested, list_args)
    sig = "%s|ign=%s|tr=%s|%s|%s%s%s|%s" % (shape_id, ",".join("%d.%d" % x for x in sorted(ignored)), transparent, spec, entry, "|generic" if generic else "",
                                           "|nested" if nested else "", list_args)
    fty = "Inner" if nested else "F"

    def attrs_of(vi, fi):
        a = []
        if (vi, fi) in ignored:
            a.append("ignore")
        if (vi, fi) in tr_set:
            a.append("transparent")
        return "#[debug(%s)]" % ", ".join(a) if a else ""

    pre = "#[derive_ex(%s)]" % list_args if entry == "attr" else "#[derive(Ex)]\n#[derive_ex(%s)]" % list_args
    src = e1.HEADER.format(pid=PID, name=name, desc=desc)
    if nested:
        src += "#[derive_ex(Debug)]\n#[derive(Clone, Copy)]\npub struct Inner(pub F);\n"
    src += render(kind, variants, attrs_of, fty, pre, generic=generic) + "\n\n"
    drop = lambda vi, fi: (vi, fi) in ignored
    twin = render(kind, variants, None, "F" if not nested else "Inner", "#[derive(Debug)]", generic=generic, drop=drop)
    src += "pub mod twin {\n    use crate::support::*;\n    %s\n    %s\n}\n\n" % (
        "use super::Inner;" if nested else "", twin.replace("\n", "\n    "))
    nv = len(variants)
    maxf = max(len(v[2]) for v in variants)
    body = ["    use core::fmt::Write;"]
    body += ["    let v%d = %s;" % (i, "Inner(F(s.u8()))" if nested else "F(s.u8())") for i in range(maxf)]
    body += ["    let mut s1 = Sink::new();", "    let mut s2 = Sink::new();"]
    tparm = "::<F>" if generic else ""
    arms = []
    for vi, (vn, vk, fields) in enumerate(variants):
        vals = ["v%d" % i for i in range(len(fields))]
        x = ctor(kind, variants, vi, vals, "T")
        if any(t[0] == vi for t in tr_set):
            second = "let _ = write!(s2, \"%s\", v%d);" % (spec, [t[1] for t in tr_set if t[0] == vi][0])
        else:
            y = ctor(kind, variants, vi, vals, "twin::T", drop=drop)
            second = "let y = %s; let _ = write!(s2, \"%s\", y);" % (y, spec)
        arms.append("        %d => { let x = %s; let _ = write!(s1, \"%s\", x); %s }" % (vi, x, spec, second))
    if nv == 1:
        body.append("    " + arms[0].split("=> ", 1)[1].strip()[1:-1].strip())
    else:
        body.append("    match s.below(%d) {\n%s\n        _ => {}\n    }" % (nv, "\n".join(arms)))
    body += ['    assert!(!s1.overflow && !s2.overflow && s2.len > 0, "harness-sink-capacity");', '    assert!(s1.same(&s2), "debug-output");']
    src += "pub fn check<S: Src>(s: &mut S) {\n%s\n}\n\n" % "\n".join(body) + e1.harness(unwind=66)
    return kani_runner.Program(name, src, sig, desc, nontrivial=maxf >= 1)


def field_positions(shape_id):
    kind, variants = SHAPES[shape_id]
    return [(vi, fi) for vi, v in enumerate(variants) for fi in range(len(v[2]))]


def candidates(tier, rnd):
    c = []
    specs = SPECS
    rot = [0]

    def spec():
        rot[0] += 1
        return specs[rot[0] % len(specs)]
    # core: every shape plain with {:?}; widths on unit-like shapes; ignore / transparent singles
    for sh in SHAPES:
        if sh == "raw-ident":
            c.append((sh, (), None, "{:?}", "attr", False, False, "Debug"))
            continue
        c.append((sh, (), None, "{:?}", "attr", False, False, "Debug"))
    for sh in ("unit", "enum-units", "enum-mixed", "empty-braces", "empty-parens"):
        c.append((sh, (), None, "{:8?}", "attr", False, False, "Debug"))
        c.append((sh, (), None, "{:.2?}", "attr", False, False, "Debug"))
    for sh in ("unit", "enum-units", "empty-parens"):
        c.append((sh, (), None, "{:#?}", "attr", False, False, "Debug"))
    c.append(("named2", ((0, 1),), None, spec(), "attr", False, False, "Debug"))
    c.append(("tuple2", ((0, 0),), None, spec(), "attr", False, False, "Debug"))
    c.append(("enum-mixed", ((2, 0),), None, spec(), "attr", False, False, "Debug"))
    c.append(("named2", (), (0, 1), spec(), "attr", False, False, "Debug"))
    c.append(("enum-mixed", (), (2, 1), spec(), "attr", False, False, "Debug"))
    c.append(("named2", ((0, 1),), (0, 1), "{:?}", "attr", False, False, "Debug"))  # ignore + transparent on the same field
    # a transparent field in two different variants of one enum (the `only one field` rule is per variant)
    c.append(("enum-mixed", (), ((1, 0), (2, 1)), "{:?}", "attr", False, False, "Debug"))
    c.append(("enum-mixed", ((2, 0),), ((1, 0), (2, 1)), "{:8?}", "derive", False, False, "Debug"))
    # tuple variants / tuple structs: ignoring a non-trailing field, a transparent non-first field
    c.append(("enum-single", ((0, 0),), None, "{:?}", "attr", False, False, "Debug"))
    c.append(("enum-single", (), (0, 1), "{:8?}", "attr", False, False, "Debug"))
    c.append(("tuple3", ((0, 0), (0, 1)), None, "{:?}", "attr", False, False, "Debug"))
    c.append(("tuple3", ((0, 1),), None, "{:x?}", "derive", False, False, "Debug"))
    c.append(("named3", (), (0, 2), "{:<6?}", "attr", False, False, "Debug"))
    c.append(("tuple1", (), (0, 0), "{:+?}", "derive", False, False, "Debug"))
    c.append(("named2", (), None, "{:?}", "attr", True, False, "Debug"))
    c.append(("tuple1", (), None, "{:?}", "attr", False, True, "Debug"))
    c.append(("named2", (), None, "{:?}", "attr", False, False, "Debug(bound())"))
    c.append(("named2", (), None, "{:x?}", "attr", False, False, "Debug, Clone"))
    full = []
    for sh in SHAPES:
        if sh == "raw-ident":
            continue
        pos = field_positions(sh)
        for k in range(0, len(pos) + 1):
            for ign in itertools.combinations(pos, k):
                for tr in [None] + pos:
                    for sp in SPECS:
                        full.append((sh, ign, tr, sp, "attr", False, False, "Debug"))
    if tier == "thorough":
        c += rnd.sample(full, min(len(full), 360))
        for sp in SPECS:
            c.append(("named2", (), None, sp, "derive", False, False, "Debug"))
            c.append(("tuple1", (), None, sp, "attr", False, True, "Debug"))
            c.append(("named2", (), None, sp, "attr", True, False, "Debug"))
    else:
        c += rnd.sample(full, 10)
    return c


def run(tier):
    t0 = time.time()
    rnd = random.Random(common.seed())
    progs, seen = [], set()
    for cand in candidates(tier, rnd):
        p = build("p%05d" % len(progs), *cand)
        if p.sig in seen:
            continue
        seen.add(p.sig)
        progs.append(p)
    out = common.Outcome(PID)
    o1 = e3_extras.safe(e3_extras.c10_transparent, out)
    # the emitted builder chain for every configuration of 0..3 fields (holds for every formatter state, the alternate flag included)
    o2 = e3_extras.safe(e3_extras.c10_chain, out)
    extra = e3_extras.summary(o1)
    extra.update({"e3_obligations": o1.total + o2.total, "e3_discharged": o1.discharged + o2.discharged, "e3_solver_time_s": round(o1.solver_time + o2.solver_time, 2),
                  "e3_chain_obligations": o2.total, "e3_chain_discharged": o2.discharged,
                  "e3_chain_rule": "build_debug_expr, 0..3 fields, ignore / transparent flags and named-ness symbolic: the tokens appended to the returned stream are exactly "
                                   "`f.debug_struct|debug_tuple(name)` `.field([name,] &expr)` per non-ignored field in order `.finish()`, or `::core::fmt::Debug::fmt(expr, f)` for one "
                                   "transparent field - the call sequence the standard derive's helper functions perform; trusted: core's DebugStruct / DebugTuple"})
    extra["e3_functions"] = dict(o1.functions, **o2.functions)
    # `{:#?}` on shapes with fields does not finish under CBMC (PadAdapter). The same programs are run natively on sampled inputs instead:
    # sampling, not a solver verdict - reported separately in the evidence
    alt = []
    aspecs = ["{:#?}", "{:#x?}", "{:#7?}", "{:+#.1?}"]
    k = 0
    for sh in SHAPES:
        if sh == "raw-ident":
            continue
        pos = field_positions(sh)
        configs = [((), None)] + [((p_,), None) for p_ in pos[:2]] + [((), p_) for p_ in pos[-1:]] + ([(tuple(pos[:1]), pos[-1])] if len(pos) >= 2 else [])
        for ign, tr in configs:
            for sp in (aspecs if tier == "thorough" else [aspecs[k % len(aspecs)], aspecs[0]]):
                k += 1
                p = build("a%05d" % len(alt), sh, ign, tr, sp, "derive" if k % 5 == 0 else "attr", False, False, "Debug")
                if p.sig not in seen:
                    seen.add(p.sig)
                    alt.append(p)
    runs = kani_runner.run_native(PID, alt, 400 if tier == "thorough" else 120, common.seed(), out)
    extra.update({"native_sampling_programs": len(alt), "native_sampling_runs": runs,
                  "native_sampling_rule": "alternate-flag specs %s on every shape x ignore / transparent placements: the same check functions run natively against the real macro on "
                                          "pseudo-random payloads; sampling, not decided by the solver" % aspecs})
    return e1.finish(
        PID, tier, progs, t0, outcome=out, extra=extra,
        rule="one Kani harness per (shape, set of ignored fields, transparent field, concrete format spec); all field payloads and the variant selector are symbolic; the bytes "
             "written by the derive_ex Debug impl must equal those of a same-named std-derived twin with the ignored fields deleted (or of the transparent field alone); "
             "the field type echoes the formatter flags it receives; distinct by shape|ignored|transparent|spec|entry",
        bounds="shapes %s; <=3 fields; format specs %s (and {:#?} on field-less shapes only); sink 64 bytes (unwind 66)" % (sorted(SHAPES), SPECS),
        outside="`{:#?}` / any option set with the alternate flag on shapes with fields is not decided by the solver: PadAdapter does not finish under CBMC (measured: 1-field struct undecided "
                "after 900 s) - those programs are only sampled natively (native_sampling_*); "
                "width/precision values other than the listed ones; the rejection of two transparent fields is decided on the macro's MIR (E3 obligation build_debug_expr: Err <=> >=2 transparent among 0..3 fields)",
        functions=["Debug::fmt generated by derive_ex for each program"],
        harness_timeout="900s", batch=64)
