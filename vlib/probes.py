"""Native confirmation of structural E3 obligations.

Some E3 obligations are facts about the macro's own code - "the entry point filters the item's attributes with the kinds the builder filled in", "the helper carries an
`Eq` bound". When such an obligation fails there is no solver model to replay, and the failure may only mean that the code was restructured and the executor's pattern no
longer matches. A structural failure therefore becomes a VIOLATION only when the behaviour it stands for can be shown to be wrong on the real macro: each family of structural
obligations has a list of native probes (inputs with the documented outcome, written from doc/derive_ex.md); the first probe whose outcome differs is the replay. If every
probe behaves as documented the failure is reported as INCONCLUSIVE (the obligation could not be established on this shape of the code), never as an alarm.
"""
import re

from . import common

D = "Debug, Default, PartialEq"


def impl_order(mode, attr, item, expected):
    return {"kind": "impl_order", "mode": mode, "attr": attr, "item": item, "expected": expected}


def matches(mode, attr, item, regex, expected=True, where="out"):
    return {"kind": "matches", "mode": mode, "attr": attr, "item": item, "regex": regex, "expected": expected, "where": where}


def rejected(mode, attr, item, expected=True, message=None):
    return {"kind": "reject_msg", "mode": mode, "attr": attr, "item": item, "expected_reject": expected, "message": message}


def same_gen(a, b):
    return {"kind": "same_gen", "mode": a[0], "attr": a[1], "item": a[2], "other": {"mode": b[0], "attr": b[1], "item": b[2]}}


HELPER_ITEM_S = "struct X { #[debug(ignore)] a: u8, #[default(3)] b: u8, #[partial_eq(ignore)] c: u8 }"
HELPER_ITEM_E = "enum X { #[default] A, B(#[debug(ignore)] u8, #[partial_eq(ignore)] u8), C { #[debug(transparent)] x: u8 } }"
STRIP_E = '#[debug(bound(..))] #[doc = "k0"] enum X { #[default] #[doc = "k1"] A, #[debug(bound(..))] #[partial_eq(bound(..))] B { #[debug(ignore)] #[partial_eq(ignore)] #[doc = "k2"] a: u8 } }'
STRIP_S = '#[derive_ex(Clone)] #[debug(bound(..))] #[doc = "k0"] struct X { #[debug(ignore)] #[doc = "k1"] a: u8, #[default(7)] b: u8 }'
NO_HELPER = r"# \[ ?(debug|default|partial_eq|eq|ord|partial_ord|hash|derive_ex)\b"
EQ_HELPER = r"fn (\w+) < (\w+) : (?:[^>]*\+ )?:: core :: cmp :: Eq(?: \+[^>]*)? > \((\w+) : & \2\) \{ \} \1 \(& \("

PROBES = {
    # ---- C15: entry points and lists -------------------------------------------------------------------------------------------------
    "C15.merge": [
        impl_order("attr", "Clone", "#[derive_ex(Default)] #[derive_ex(Debug)] struct X { a: u8 }", ["Clone", "Default", "Debug"]),
        impl_order("derive", "", "#[derive_ex(Clone)] #[derive_ex(Default, Debug)] struct X { a: u8 }", ["Clone", "Default", "Debug"]),
        impl_order("attr", "PartialEq", "#[derive_ex(Clone)] enum X { A, B(u8) }", ["PartialEq", "Clone"]),
    ],
    "C15.order": [
        impl_order("attr", "Default, Clone, Debug", "struct X { a: u8 }", ["Default", "Clone", "Debug"]),
        impl_order("derive", "", "#[derive_ex(Hash, PartialEq, Clone)] enum X { A, B(u8) }", ["Hash", "PartialEq", "Clone"]),
    ],
    "C15.kinds": [
        same_gen(("attr", D, HELPER_ITEM_S), ("derive", "", "#[derive_ex(%s)] %s" % (D, HELPER_ITEM_S))),
        same_gen(("attr", D, HELPER_ITEM_E), ("derive", "", "#[derive_ex(%s)] %s" % (D, HELPER_ITEM_E))),
    ],
    # ---- C14: attribute ownership ----------------------------------------------------------------------------------------------------
    "C14.strip": [
        matches("attr", D, STRIP_E, NO_HELPER, False, "item0"),
        matches("attr", D, STRIP_E, r"k0.*k1.*k2", True, "item0"),
        matches("attr", "Debug, Default", STRIP_S, NO_HELPER, False, "item0"),
        matches("attr", "Debug, Default", STRIP_S, r"k0.*k1", True, "item0"),
    ],
    "C14.strip-variants": [
        matches("attr", "Debug, Clone", "#[repr(u8)] enum X { A(#[debug(ignore)] u8, u16) = 7, #[debug(bound(..))] B { #[debug(transparent)] x: u8 } = 9, C = 1 }", NO_HELPER, False, "item0"),
        matches("attr", "PartialEq, Default", "enum X { #[default] #[doc = \"d\"] A, #[non_exhaustive] B(#[partial_eq(ignore)] u8), #[cfg(all())] C { #[derive_ex(Default(bound()))] x: u8 } }", NO_HELPER, False, "item0"),
    ],
    "C14.strip-on-error": [
        matches("attr", "Debug, Deref", "struct X { #[debug(ignore)] a: u8, b: u8 }", NO_HELPER, False, "item0"),
        rejected("attr", "Debug, Deref", "struct X { #[debug(ignore)] a: u8, b: u8 }", True),
        matches("attr", "Debug, Add", "enum X { #[debug(bound(..))] A(#[debug(ignore)] u8) }", NO_HELPER, False, "item0"),
        matches("attr", "Debug, Add", "enum X { #[debug(bound(..))] A(#[debug(ignore)] u8) }", r"^enum X \{ A \(u8\) ,? ?\}", True, "item0"),
        # helper-named attributes of traits that are not being derived belong to somebody else (std's #[default], another macro's #[debug]): kept also when the derivation fails
        matches("attr", "Clone, Add", "enum X { #[default] A, B }", r"^enum X \{ # \[default\] A , B ,? ?\}", True, "item0"),
        matches("attr", "Deref", "struct X { #[debug(ignore)] a: u8, #[ord(key = $)] b: u8 }", r"^struct X \{ # \[debug \(ignore\)\] a : u8 , # \[ord \(key = \$\)\] b : u8 ,? ?\}", True, "item0"),
        matches("attr", "Clone, Deref", "#[default(X { a: 1, b: 2 })] #[doc = \"k0\"] struct X { a: u8, #[hash(ignore)] b: u8 }", r"default \(X.*k0.*hash \(ignore\)", True, "item0"),
    ],
    "C14.strip-on-core-error": [
        # the type-level helper does not pass the placement check: field- and variant-level derive_ex attributes are stripped all the same
        matches("attr", "PartialEq, Clone", "#[partial_eq(ignore)] struct X<T> { #[derive_ex(Clone(bound(T: Copy)))] a: T }", NO_HELPER, False, "item0"),
        matches("attr", "PartialEq, Clone", "#[partial_eq(reverse)] enum X<T> { #[derive_ex(Clone(bound(..)))] A(#[derive_ex(Clone, bound(T: Copy))] T) }", NO_HELPER, False, "item0"),
        # a helper attribute written in a form it does not have (`name = value`, bare word) is still derive_ex's to report and to remove
        matches("attr", "Default", "struct X { #[default = 5] a: u8 }", NO_HELPER, False, "item0"),
        matches("attr", "Debug, Clone", "enum X { A { #[debug = \"x\"] a: u8 }, #[debug] B }", NO_HELPER, False, "item0"),
        matches("attr", "PartialEq", "#[partial_eq = 1] struct X { #[partial_eq] a: u8 }", NO_HELPER, False, "item0"),
        # the whole derivation fails (a helper attribute that does not parse): the item still comes back without derive_ex's attributes, at every level
        matches("attr", "Debug", "struct X { #[debug(frob)] a: u8, #[debug(ignore)] b: u8 }", r"^struct X \{ a : u8 , b : u8 ,? ?\} :: core :: compile_error !", True),
        matches("attr", "Debug", "#[debug(bound(..))] enum X { A(#[debug(frob)] u8), #[debug(bound(..))] B }", r"^enum X \{ A \(u8\) , B ,? ?\} :: core :: compile_error !", True),
        matches("attr", "Clone", "#[derive_ex(Debug)] #[derive_ex(Default)] enum X { #[default] A }", r"^enum X \{ A ,? ?\} # \[automatically_derived\]", True),
        matches("attr", "Clone", "#[derive_ex(Debug)] #[derive_ex(Default)] struct X { #[default(1)] a: u8 }", r"^struct X \{ a : u8 ,? ?\} # \[automatically_derived\]", True),
        matches("attr", "Frob", "#[derive_ex(Debug)] struct X { #[debug(ignore)] a: u8 }", r"^struct X \{", True),
        matches("derive", "", "#[derive_ex(Frob)] struct X;", r"^:: core :: compile_error ! \{[^{}]*\}$", True),
        matches("derive", "", "#[derive_ex(Debug)] enum X { A(#[debug(frob)] u8) }", r"^:: core :: compile_error ! \{[^{}]*\}$", True),
    ],
    "C14.foreign": [
        matches("attr", "Debug, Default", "struct X { #[foo::debug] a: u8, #[serde(default)] b: u8, #[foo::default] c: u8 }", r"foo :: debug.*serde \(default\).*foo :: default", True, "item0"),
        matches("attr", "Clone", "struct X { #[debug(ignore)] a: u8 }", r"# \[debug \(ignore\)\]", True, "item0"),
        matches("attr", "PartialOrd, PartialEq", "struct X { #[eq(bound(..))] #[hash(bound(..))] a: u8 }", r"^struct X \{ # \[hash \(bound \(\.\.\)\)\] a : u8 ,? ?\}", True, "item0"),
        matches("attr", "Hash", "struct X { #[eq(bound(..))] #[partial_eq(bound(..))] a: u8 }", r"^struct X \{ # \[partial_eq \(bound \(\.\.\)\)\] a : u8 ,? ?\}", True, "item0"),
    ],
    "C14.lib": [
        matches("attr", "Clone", "struct X { a: u8 }", r"^struct X \{ a : u8 ,? ?\} # \[automatically_derived\] impl :: core :: clone :: Clone for X", True),
        matches("attr", "Clone", "fn f() {}", r"^fn f \(\) \{ \} :: core :: compile_error !", True),
        matches("attr", "Deref", "struct X { a: u8, b: u8 }", r"^struct X \{ a : u8 , b : u8 ,? ?\} :: core :: compile_error !", True),
        matches("derive", "", "#[derive_ex(Clone)] struct X { a: u8 }", r"^# \[automatically_derived\] impl :: core :: clone :: Clone for X", True),
        matches("derive", "", "#[derive_ex(Deref)] struct X { a: u8, b: u8 }", r"^:: core :: compile_error !", True),
        matches("attr", "Add", "impl std::ops::AddAssign<u8> for Y { fn add_assign(&mut self, r: u8) {} }", r"^impl std :: ops :: AddAssign < u8 > for Y \{.*\} # \[automatically_derived\] impl :: core :: ops :: Add < u8 > for Y", True),
    ],
    "C14.kinds": [
        # which helper attribute belongs to which derived trait (doc table): owned ones are stripped, the others stay
        matches("attr", "PartialOrd, PartialEq", "struct X { #[ord(bound(..))] #[partial_ord(bound(..))] #[partial_eq(bound(..))] #[eq(bound(..))] a: u8 }", NO_HELPER.replace("eq|", "").replace("|hash", "") , False, "item0"),
        matches("attr", "Hash", "struct X { #[ord(bound(..))] #[eq(bound(..))] #[hash(bound(..))] a: u8 }", NO_HELPER, False, "item0"),
        matches("attr", "Eq, PartialEq", "struct X { #[ord(bound(..))] #[eq(bound(..))] #[partial_eq(bound(..))] a: u8 }", NO_HELPER, False, "item0"),
        matches("attr", "Debug", "struct X { #[default(1)] a: u8 }", r"# \[default \(1\)\]", True, "item0"),
        # a dumped trait still owns its helper attributes
        matches("attr", "Debug(dump), Clone", "struct X { #[debug(ignore)] a: u8 }", NO_HELPER, False, "item0"),
        matches("attr", "Clone, Default, dump", "enum X { #[default] A }", NO_HELPER, False, "item0"),
    ],
    # ---- C17: the Eq assertion -------------------------------------------------------------------------------------------------------
    "C17.helper": [
        matches("attr", "Eq, PartialEq", "struct X<T> { a: T, #[eq(key = $.len())] b: String }", EQ_HELPER + r"\(this \. a\)\)\)", True),
        matches("attr", "Eq, PartialEq", "struct X<T> { a: T, #[eq(key = $.len())] b: String }", EQ_HELPER + r"\(this \. b\) \. len \(\)\)\)", True),
        matches("attr", "Eq, PartialEq", "enum X { A(f64), B }", EQ_HELPER + r"\(\* _this_0\)\)\)", True),
    ],
    "C17.placement": [
        matches("attr", "Eq, PartialEq", "struct X<T: Copy> where T: Clone { a: T }", r"const _ : \(\) = \{.*?fn \w+ < T : Copy > \(this : & X < T >\) where [^{]*T : Clone ,? ?\{", True),
        matches("attr", "Eq, PartialEq", "struct X { a: f64 }", r"impl :: core :: cmp :: Eq for X \{ \} const _ : \(\) = \{.*?fn \w+ \(this : & X\) \{ \{ fn", True),
        matches("attr", "PartialOrd, PartialEq", "struct X { a: u8 }", r"impl :: core :: cmp :: PartialOrd for X \{ fn partial_cmp \(& self , other : & Self\) -> .*?\{ .*partial_cmp", True),
    ],
    # ---- C05: placement verification, per-entry isolation ------------------------------------------------------------------------------
    "C05.placement": [
        rejected("attr", "PartialEq", "#[partial_eq(ignore)] struct X { a: u8 }", True, "cannot specify `ignore` for type"),
        rejected("attr", "PartialEq", "#[partial_eq(bound(..))] struct X { a: u8 }", False),
        rejected("attr", "PartialEq", "enum X { #[partial_eq(key = $)] A(u8) }", True, "for enum variants"),
        rejected("attr", "PartialEq", "enum X { #[partial_eq(bound(..))] A(u8) }", False),
        rejected("attr", "PartialOrd, PartialEq", "enum X { #[partial_ord(reverse)] A(u8) }", True, "for enum variants"),
        rejected("attr", "Ord, PartialOrd, Eq, PartialEq", "#[ord(by = f)] struct X { a: u8 }", True, "for type"),
        rejected("attr", "Hash", "enum X { A(#[hash(ignore)] u8) }", False),
        rejected("attr", "Eq, PartialEq", "#[eq(reverse)] struct X { a: u8 }", True),
    ],
    "C05.isolation": [
        impl_order("attr", "Clone, Deref, Debug", "struct X { a: u8, b: u8 }", ["Clone", "Debug"]),
        rejected("attr", "Clone, Deref, Debug", "struct X { a: u8, b: u8 }", True, "single field"),
        impl_order("attr", "PartialEq, Ord, Clone", "struct X { #[partial_ord(reverse)] a: u8 }", ["PartialEq", "Clone"]),
        impl_order("attr", "Clone, Default, Debug", "enum X { A, B }", ["Clone", "Debug"]),
        rejected("attr", "Clone, Default, Debug", "enum X { A, B }", True),
        impl_order("attr", "Hash, Ord, PartialEq", "enum X { A(#[partial_ord(reverse)] u8), B }", ["Hash", "PartialEq"]),
    ],
    # ---- C03 / C04 kernels -----------------------------------------------------------------------------------------------------------
    "C03.params": [
        {"kind": "where_exact", "mode": "attr", "attr": "Clone", "item": "struct X<'a, r#type, U, const N: usize> { a: r#type, b: [u8; N], c: u8, d: &'a u8, e: Option<U> }",
         "trait": "Clone", "expected": ["r#type:::core::clone::Clone", "[u8;N]:::core::clone::Clone", "Option<U>:::core::clone::Clone"]},
        {"kind": "where_exact", "mode": "attr", "attr": "Debug", "item": "struct X<T, U> { a: std::vec::Vec<Option<T>>, b: ::T, c: U::Out, d: <U as Tr>::Out, e: fn(T) -> u8, f: T2 }",
         "trait": "Debug", "expected": ["std::vec::Vec<Option<T>>:::core::fmt::Debug", "U::Out:::core::fmt::Debug", "<UasTr>::Out:::core::fmt::Debug", "fn(T)->u8:::core::fmt::Debug"]},
    ],
    "C04.wcb": [
        {"kind": "where_exact", "mode": "attr", "attr": "Clone(bound(T: Copy, ..)), bound(U: Send, ..)", "item": "struct X<T, U> where T: Sized, U: 'static { a: T, b: Option<U>, c: u8 }",
         "trait": "Clone", "expected": ["T:Sized", "U:'static", "T:Copy", "U:Send", "T:::core::clone::Clone", "Option<U>:::core::clone::Clone"]},
        {"kind": "where_exact", "mode": "attr", "attr": "Clone(bound(T))", "item": "struct X<T, U> { a: std::boxed::Box<T>, b: Option<U> }", "trait": "Clone", "expected": ["T:::core::clone::Clone"]},
        {"kind": "where_exact", "mode": "attr", "attr": "Default", "item": "struct X<T> where T: Copy { a: T, b: T }", "trait": "Default", "expected": ["T:Copy", "T:::core::default::Default", "T:::core::default::Default"]},
    ],
    # ---- small kernels behind E1 checks ------------------------------------------------------------------------------------------------
    "C18.arity": [
        rejected("attr", "Deref", "struct X;", True), rejected("attr", "Deref", "struct X {}", True), rejected("attr", "Deref", "struct X(u8);", False),
        rejected("attr", "Deref", "struct X { a: u8 }", False), rejected("attr", "Deref", "struct X(u8, u8);", True), rejected("attr", "Deref, DerefMut", "struct X { a: u8, b: u8, c: u8 }", True),
        # each of the two on its own, every arity 0..3, both entry points
        rejected("attr", "DerefMut", "struct X;", True), rejected("attr", "DerefMut", "struct X(u8);", False), rejected("attr", "DerefMut", "struct X(u8, u8);", True),
        rejected("attr", "DerefMut", "struct X { a: u8, b: u8, c: u8 }", True), rejected("derive", "", "#[derive_ex(DerefMut)] struct X { a: u8, b: u8 }", True),
        rejected("derive", "", "#[derive_ex(Deref)] struct X(u8, u8, u8);", True), rejected("derive", "", "#[derive_ex(Deref)] struct X();", True), rejected("derive", "", "#[derive_ex(DerefMut)] struct X {}", True),
    ],
    # the methods are declared with the field's own type: a DerefMut next to a hand-written Deref with another Target is refused by rustc rather than coerced
    "C18.signature": [
        matches("attr", "Deref", "struct X(String);", r"type Target = String ; fn deref \(& self\) -> & String \{ & self \. 0 \}", True),
        matches("attr", "DerefMut", "struct X(String);", r"fn deref_mut \(& mut self\) -> & mut String \{ & mut self \. 0 \}", True),
        matches("attr", "Deref, DerefMut", "struct X<T> { v: Box<T> }", r"type Target = Box < T > ; fn deref \(& self\) -> & Box < T > \{ & self \. v \}.*fn deref_mut \(& mut self\) -> & mut Box < T > \{ & mut self \. v \}", True),
    ],
    "C01.to_index": [
        matches("attr", "PartialOrd, PartialEq", "enum X { A, B(u8), C { x: u8 } }", r"\(?Self :: A\)? => 0usize , \(?Self :: B \(\.\.\)\)? => 1usize , \(?Self :: C \{ \.\. \}\)? => 2usize", True),
    ],
}


def _parse_family():
    """the complete placement matrix (5 helper attributes x ignore / reverse / key / by x type / variant: all rejected; the same on a field and `bound(..)` anywhere:
    accepted) and, per attribute, every single trait that owns it according to the documentation's table: the attribute is parsed - so its misplacement is reported -
    whichever of them is the only one derived"""
    owners = {"ord": ["Ord", "PartialOrd", "Eq", "PartialEq", "Hash"], "partial_ord": ["PartialOrd", "PartialEq"], "eq": ["Eq", "PartialEq", "Hash"],
              "partial_eq": ["Eq", "PartialEq"], "hash": ["Hash"]}
    all5 = "Ord, PartialOrd, Eq, PartialEq, Hash"
    fam = []
    for a in owners:
        for arg, word in (("ignore", "ignore"), ("reverse", "reverse"), ("key = $", "key"), ("by = f", "by")):
            fam.append(rejected("attr", all5, "#[%s(%s)] struct X { a: u8 }" % (a, arg), True, "cannot specify `%s" % word))
            fam.append(rejected("attr", all5, "enum X { #[%s(%s)] A(u8), B }" % (a, arg), True, "cannot specify `%s" % word))
            fam.append(rejected("derive", "", "#[derive_ex(%s)] enum X { #[%s(%s)] A { x: u8 } }" % (all5, a, arg), True, "cannot specify `%s" % word))
        fam.append(rejected("attr", all5, "#[%s(bound(..))] struct X { a: u8 }" % a, False))
        fam.append(rejected("attr", all5, "enum X { #[%s(bound(..))] A(u8), B }" % a, False))
        for t in owners[a]:
            fam.append(rejected("attr", t, "#[%s(ignore)] struct X { a: u8 }" % a, True, "cannot specify `ignore` for type"))
            fam.append(rejected("derive", "", "#[derive_ex(%s)] enum X { #[%s(reverse)] A(u8) }" % (t, a), True, "cannot specify `reverse` for enum variants"))
    # ... and by none of the others: with only a trait derived that the attribute does not affect, the attribute is somebody else's - whatever it says is not derive_ex's to judge
    traits = ["Ord", "PartialOrd", "Eq", "PartialEq", "Hash"]
    for a in owners:
        for t in traits:
            if t not in owners[a]:
                fam.append(rejected("derive", "", "#[derive_ex(%s)] struct X { #[%s(ignore)] a: u8, b: u8 }" % (t, a), False))
                fam.append(rejected("derive", "", "#[derive_ex(%s)] enum X { #[%s(reverse)] A(#[%s(key = $, by = f)] u8) }" % (t, a, a), False))
    return fam


PROBES["C05.parse"] = _parse_family()


def first_failing(name):
    from . import replay_e3
    names = [name] if isinstance(name, str) else list(name)
    for case in [c for n in names for c in PROBES[n]]:
        obs = replay_e3.observe(case)
        if replay_e3.disagrees(case, obs):
            return case, obs
    return None, None


def structural(out, key, what, probe, pid=None):
    """a structural obligation failed: VIOLATION if a native probe of the behaviour it stands for fails, INCONCLUSIVE otherwise"""
    from . import e3
    pid = pid or out.pid
    try:
        case, obs = first_failing(probe)
    except Exception as e:  # noqa: the expander itself does not build / answer
        out.broken.append("native probes %s could not run: %s" % (probe, str(e)[:200]))
        return
    if case is None:
        names = [probe] if isinstance(probe, str) else list(probe)
        msg = "structure not recognised: %s [%d native probes of %s behave as documented]" % (what[:300], sum(len(PROBES[n]) for n in names), "+".join(names))
        if msg not in out.inconclusive:
            out.inconclusive.append(msg)
        return
    case = dict(case, property=pid, explain="%s; native probe of %s: %s" % (what[:300], probe, {k: v for k, v in obs.items() if k in ("impls", "errors", "item0")}))
    path = e3.write_replay(pid, "probe-%s" % re.sub(r"\W+", "_", key)[:60], case)
    out.violation(key, path, "%s; natively: #[derive_ex(%s)] %s behaves differently from the documentation" % (what[:300], case.get("attr", ""), case.get("item", "")[:120]))
