"""Common driver for E3 (MIR path execution + z3) property checks."""
import os
import subprocess
import tempfile
import time

import z3

from . import common
from .common import log
from .mir import engine as mir_engine, exec as mx

BASE_ASSUMPTIONS = [
    "rustc's MIR (-Zunpretty=mir, nightly) is a faithful lowering of /repo's current source; it is regenerated on every run",
    "the executor's MIR semantics for the subset used (vlib/mir/exec.py) and its callee models (Option/Result/Try/slice iteration/Vec/HashMap::get/Flag::value) are right; "
    "they are validated on every run against the real macro on sampled configurations and every counterexample is replayed natively",
    "token-building callees (quote!, ToTokens, Template::apply, format!, syn::Error::new, spans) are opaque: what they print is not examined",
    "the reference rules are the documented ones (DESIGN.md Appendix A)",
]


class Obligations:
    """collects solver queries: each obligation is `constraints` that must be UNSAT"""

    def __init__(self, pid):
        self.pid = pid
        self.total = 0
        self.discharged = 0
        self.failed = []  # (label, model, info)
        self.inconclusive = []
        self.solver_time = 0.0
        self.samples = []
        self.smt2 = []
        self.nontrivial_paths = set()
        self.functions = {}

    def check_unsat(self, ex, label, constraints, info=None, keep_smt=False):
        s = z3.Solver()
        for d in ex.domains:
            s.add(d)
        for c in constraints:
            s.add(c)
        self.total += 1
        t0 = time.time()
        r = s.check()
        self.solver_time += time.time() - t0
        if keep_smt and len(self.smt2) < 40:
            self.smt2.append((label, s.to_smt2()))
        if r == z3.unsat:
            self.discharged += 1
            return None
        if r == z3.sat:
            m = s.model()
            # does the counterexample range over results of calls the executor did not look into (over-approximated)? then it may be spurious
            names = set()
            for c in constraints:
                if z3.is_expr(c):
                    ex._vars_of(c, names)
            m.opaque_dep = any(n.startswith(("disc-opaque", "opaque-", "ret(", "havoc-", "len-opaque", "len(opaque-iter", "disc(opaque-iter")) for n in names)
            self.failed.append((label, m, info))
            return m
        self.inconclusive.append(label)
        return None

    def note_paths(self, fname, results, ex):
        n_ret = sum(1 for r in results if r.kind == "return")
        stuck = [r for r in results if r.kind == "stuck"]
        f = self.functions.setdefault(fname, {"paths": 0, "stuck": 0, "panic": 0})
        f["paths"] += len(results)
        f["stuck"] += len(stuck)
        f["panic"] += sum(1 for r in results if r.kind == "panic")
        for r in results:
            if len(r.pc) >= 1:
                self.nontrivial_paths.add((fname, tuple(c.get_id() if z3.is_expr(c) else c for c in r.pc)))
        return stuck


def not_reproduced(out, model, msg):
    """a solver model that the real macro does not reproduce: a defect of the encoding (exit 2) - unless the model ranges over values the executor over-approximates
    (results of calls it does not look into), where spurious models are expected and the obligation is simply not established"""
    if getattr(model, "opaque_dep", False):
        m = "counterexample over values of calls the executor does not look into, not reproduced natively: " + msg
        if m not in out.inconclusive:
            out.inconclusive.append(m)
    else:
        out.broken.append("UNCONFIRMED counterexample " + msg)


def safe_part(out, f, *args):
    """one part of an E3 check: a function the executor cannot find / follow any more (renamed, restructured) is INCONCLUSIVE for that part only"""
    try:
        return f(*args)
    except mx.Inconclusive as e:
        out.inconclusive.append("fn=%s reason=%s" % (getattr(f, "__name__", "?"), e))
    except Exception as e:  # noqa
        out.inconclusive.append("fn=%s reason=executor error %s: %s" % (getattr(f, "__name__", "?"), type(e).__name__, str(e)[:200]))
    return None


def coverage_check(ex, obl, label, results, pre=()):
    """the path conditions of all explored paths cover the whole (pre-constrained) configuration space"""
    pcs = [z3.And(r.pc) if r.pc else z3.BoolVal(True) for r in results]
    return obl.check_unsat(ex, "coverage:" + label, list(pre) + [z3.Not(z3.Or(pcs))] if pcs else [z3.BoolVal(True)])


def cross_check_solvers(obl, out):
    """thorough tier: run exported queries through /usr/bin/z3 (4.8.12) and cvc5; any (error or differing verdict -> broken"""
    n = 0
    for label, smt in obl.smt2:
        with tempfile.NamedTemporaryFile("w", suffix=".smt2", delete=False) as f:
            f.write("(set-logic ALL)\n" + smt)
            path = f.name
        try:
            verdicts = {}
            for name, cmd in (("z3-4.8.12", ["/usr/bin/z3", path]), ("cvc5", ["cvc5", "--lang", "smt2", path])):
                try:
                    r = subprocess.run(cmd, stdout=subprocess.PIPE, stderr=subprocess.STDOUT, text=True, timeout=60)
                    o = r.stdout.strip()
                except (OSError, subprocess.TimeoutExpired) as e:
                    o = "(error %s)" % e
                if "(error" in o:
                    out.broken.append("solver %s reports an error on query %s: %s" % (name, label, o[:200]))
                    verdicts[name] = "error"
                else:
                    verdicts[name] = o.splitlines()[0] if o else "?"
            if len(set(verdicts.values())) > 1 or "unsat" not in verdicts.values():
                if set(verdicts.values()) != {"unsat"}:
                    out.broken.append("solvers disagree / not unsat on %s: %s" % (label, verdicts))
            n += 1
        finally:
            os.unlink(path)
    return n


def finish(pid, tier, t0, eng, obl, out, rule, bounds, outside, assumptions=(), extra=None, validated=0):
    wall = time.time() - t0
    paths = sum(f["paths"] for f in obl.functions.values())
    stuck = sum(f["stuck"] for f in obl.functions.values())
    for lab in obl.inconclusive:
        out.inconclusive.append("solver returned unknown on " + lab)
    cov = {
        "evaluations": obl.total,
        "distinct_nontrivial": len(obl.nontrivial_paths),
        "rule": rule,
        "samples": obl.samples[:6] or [{"note": "no sample recorded"}],
        "exhaustive": False,
        "obligations": obl.total,
        "discharged": obl.discharged,
        "queries_discharged": obl.discharged,
        "paths_explored": paths,
        "paths_stuck": stuck,
        "functions_encoded": obl.functions,
        "traces_validated_against_impl": validated,
        "bounds": bounds,
        "outside_bounds": outside,
        "solver": "z3 %s (python API); thorough tier re-runs exported SMT-LIB2 queries through /usr/bin/z3 4.8.12 and cvc5" % z3.get_version_string(),
        "solver_time_s": round(obl.solver_time, 2),
        "mir_dump_s": round(eng.dump_s, 2),
        "mir_functions": sum(len(v) for v in eng.fns.values()),
    }
    if extra:
        cov.update(extra)
    common.write_evidence(pid, tier, cov, BASE_ASSUMPTIONS + list(assumptions), wall, len(out.violations))
    log("[%s] obligations %d discharged %d failed %d; paths %d stuck %d; %.1fs" % (pid, obl.total, obl.discharged, len(obl.failed), paths, stuck, wall))
    if obl.total == 0 or (obl.discharged == 0 and not out.violations):
        out.broken.append("no obligation could be discharged")
    return out.finish()


def write_replay(pid, name, payload):
    """store a native replay case: a JSON file + run.sh that re-expands the item through the real macro"""
    import json
    import shutil
    path = os.path.join(common.VERIF, "replays", pid, name)
    if os.path.exists(path):
        shutil.rmtree(path)
    os.makedirs(path)
    json.dump(payload, open(os.path.join(path, "case.json"), "w"), indent=1)
    open(os.path.join(path, "run.sh"), "w").write("""#!/bin/sh
# Native replay: expands the item of case.json through the real macro (hook library) and compares the
# observed fact with the reference value recorded in the case. exit 0 = the violation reproduces.
cd "$(dirname "$0")/../../.." && exec python3-vt -m vlib.replay_e3 "replays/%s/%s/case.json"
""" % (pid, name))
    os.chmod(os.path.join(path, "run.sh"), 0o755)
    return path
