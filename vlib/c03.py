"""C03 — default bounds are exactly the used field types that mention a parameter (E3, restricted scope).

Decided: (a) for every builder, `push_bounds_for_field(f)` happens exactly when the documented rule says field f is *used* and the bound(..) chain
reached its end (the C04 machinery restricted to the field-type events); (b) the parameter-mention kernel: GenericParamSet::new collects exactly the
type and const parameter identifiers (unraw'd) and the Visitor::visit_path override answers true iff the path has no leading `::` and its first
segment is in the set, and always recurses. Not decided (stated in the manifest): what rustc's trait solver makes of the resulting where-clause.
"""
import time

import z3

from . import common, e3, c04
from .common import log
from . import probes
from .mir import engine as mir_engine, exec as mx

PID = "C03"


def kernel(eng, obl, out):
    # --- GenericParamSet::new -----------------------------------------------------------------
    ex = eng.executor(trace={"HashSet::insert", "IdentExt::Ident::unraw"}, slice_bound=2)
    fn = eng.find("GenericParamSet::new")
    res = ex.run(fn, eng.args_for(fn))
    obl.note_paths("GenericParamSet::new", res, ex)
    variants = eng.ti.enums.get("GenericParam")
    if not variants or res and any(r.kind != "return" for r in res):
        out.inconclusive.append("fn=GenericParamSet::new reason=%s" % [(r.kind, r.value) for r in res if r.kind != "return"][:1])
    else:
        n = ex.ivar("len(opaque-iter#1)", 0, 2) if False else None
        for r in res:
            # for every element i that exists on the path: insert(unraw(ident of param i)) iff param i is a type or const parameter
            ins = [e for e in r.events if e[0] == "HashSet::insert"]
            pcs = " ".join(str(c) for c in r.pc)
            expect = []
            import re
            for m in re.finditer(r"disc\(([^()]*\.\[(\d+)\])\) == (\d+)", pcs):
                path, idx, d = m.group(1), int(m.group(2)), int(m.group(3))
                if variants[d] in ("Type", "Const"):
                    expect.append((path, variants[d]))
            ok = len(ins) == len(expect) and all(("%s.<%s>.0" % (p, v)) in e[1][1] and "unraw" in e[1][1] for (p, v), e in zip(expect, ins))
            obl.total += 1
            if ok:
                obl.discharged += 1
            else:
                probes.structural(out, "GenericParamSet::new", "GenericParamSet::new does not insert exactly the unraw'd identifiers of the type and const parameters: path %s inserts %s" % (
                    [str(c) for c in r.pc], [e[1][1][:80] for e in ins]), 'C03.params')
    # --- Visitor::visit_path ----------------------------------------------------------------------
    ex2 = eng.executor(trace={"visit::visit_path", "HashSet::contains"}, slice_bound=1)
    cands = [f for name, fl in eng.fns.items() for f in fl if name.endswith("::visit_path") and "contains_in_type" in name]
    if not cands:
        out.inconclusive.append("fn=visit_path reason=not found in the MIR dump")
        return
    fn2 = cands[0]
    res2 = ex2.run(fn2, eng.args_for(fn2))
    obl.note_paths("Visitor::visit_path", res2, ex2)
    for r in res2:
        if r.kind != "return":
            out.inconclusive.append("fn=visit_path reason=%s" % (r.value,))
            continue
        set_true = any(mx.pstr(k).endswith("result") and v is True for k, v in r.mem.items())
        lead_none = ex2.ivar("disc(i.leading_colon)", 0, 1) == 0
        has_seg = ex2.ivar("len(i.segments)", 0, 1) > 0
        contains = [v for n, v in ex2.vars.items() if n.startswith("ret(HashSet::contains)")]
        cond = z3.And(lead_none, has_seg, z3.Or(contains) if contains else z3.BoolVal(False))
        # the flag is set exactly under the documented condition, and the default traversal is always continued
        obl.check_unsat(ex2, "visit_path:flag", list(r.pc) + [cond if not set_true else z3.Not(cond)], info=("kernel", "visit_path sets the flag under the wrong condition", []), keep_smt=True)
        obl.total += 1
        if any(e[0] == "visit::visit_path" for e in r.events):
            obl.discharged += 1
        else:
            probes.structural(out, "visit_path-recursion", "Visitor::visit_path does not continue the traversal into nested paths", 'C03.params')
        # the lookup key is the unraw'd first segment (the set holds unraw'd identifiers)
        for e in r.events:
            if e[0] == "HashSet::contains":
                obl.total += 1
                if "unraw" in e[1][1] and "segments.[0]" in e[1][1]:
                    obl.discharged += 1
                else:
                    probes.structural(out, "visit_path-lookup-key", "the parameter lookup does not use the unraw'd first path segment: HashSet::contains(%s)" % e[1][1][:120], 'C03.params')
    for label, model, info in obl.failed:
        if info and info[0] == "kernel":
            probes.structural(out, "visit_path-flag", info[1], 'C03.params')
    # any other override of the type visitor must continue the default traversal, otherwise parameter mentions below it are missed
    for name, fl in eng.fns.items():
        if "contains_in_type" in name and "<impl at" in name.split("contains_in_type")[-1] and not name.endswith("::visit_path") and not name.startswith("const "):
            meth = name.rsplit("::", 1)[-1]
            ex3 = eng.executor()
            ex3.trace = c04._All()
            try:
                res3 = ex3.run(fl[0], eng.args_for(fl[0]))
            except mx.Inconclusive as e:
                out.inconclusive.append("fn=Visitor::%s reason=%s" % (meth, e))
                continue
            obl.note_paths("Visitor::" + meth, res3, ex3)
            obl.total += 1
            if res3 and all(any(e[0] == "visit::" + meth for e in r.events) for r in res3 if r.kind == "return"):
                obl.discharged += 1
            else:
                probes.structural(out, "visitor-override|" + meth, "the parameter-mention visitor overrides `%s` without continuing the traversal: mentions inside are not found" % meth, 'C03.params')


def run(tier):
    t0 = time.time()
    out = common.Outcome(PID)
    eng = mir_engine.Engine(opaque_local=c04.OPAQUE - {"GenericParamSet::contains_in_type"}, trace=c04.TRACE)
    obl = e3.Obligations(PID)
    obl.ex_by_label = {}
    import random
    rnd = random.Random(common.seed())
    try:
        kernel(eng, obl, out)
        c04.check_wcb_kernel(eng, obl, out)  # push_bounds_for_field adds the field type iff it mentions a parameter; nothing collected is dropped
        eng.opaque_local = set(c04.OPAQUE)
        for spec in c04.BUILDERS:
            label, fname, fam, trait, skind, roots = spec
            if fam == "Deref":
                continue
            if fam == "CompareOp":
                frees = [set(), {rnd.choice(c04.cmpcfg.PREC[trait])}] if tier != "thorough" else [set()] + [{a} for a in c04.cmpcfg.PREC[trait]]
                if skind == "struct":
                    fr2 = {rnd.choice(c04.cmpcfg.PREC[trait])}
                    r_ = c04.safe_builder(eng, obl, out, spec, 1, 2, free_attrs=fr2, pid=PID, only_field_events=True, quiet_fields=True)
                    if r_ is not None:
                        obl.ex_by_label["%s[1x2 free=%s quiet-fields]" % (label, "+".join(sorted(fr2)))] = r_
                for fr in frees:
                    r_ = c04.safe_builder(eng, obl, out, spec, 1, 1, free_attrs=fr, pid=PID, only_field_events=True)
                    if r_ is not None:
                        obl.ex_by_label["%s[%dx%d free=%s]" % (label, 1, 1, "+".join(sorted(fr)))] = r_
            else:
                sizes = [(1, 1)] + ([(1, 2)] if skind == "struct" and (fam not in ("Debug", "Default") or tier == "thorough") else [])
                for nv, nf in sizes:
                    r_ = c04.safe_builder(eng, obl, out, spec, nv, nf, pid=PID, only_field_events=True)
                    if r_ is not None:
                        obl.ex_by_label["%s[%dx%d]" % (label, nv, nf)] = r_
        obl.failed = [f for f in obl.failed if not (f[2] and f[2][0] == "kernel")]
        c04.replay_failures(obl, out, PID)
        if tier == "thorough":
            e3.cross_check_solvers(obl, out)
    except mx.Inconclusive as e:
        out.inconclusive.append("fn=? reason=%s" % e)
    # instantiation clause: programs whose observations are compile-time constants decided by rustc's trait solver (vlib/c03_inst.py)
    from . import c03_inst, e1, kani_runner
    progs = c03_inst.programs(tier, rnd)
    stats = e1.run_batches(progs)
    counts = kani_runner.triage(PID, progs, out)
    log("[C03] instantiation programs: %s" % counts)
    inst = {"instantiation_programs": len(progs), "instantiation_results": counts, "instantiation_kani_wall_s": round(stats["kani_wall_s"], 1),
            "instantiation_rule": "one program per (trait family, generic shape): the real derive on X, the documented impl by hand on a twin; `X<P..>: Trait` == `twin<P..>: Trait` "
                                  "for every instantiation of the type parameters by {PAll, PNone, P<only this trait>}; verdict: rustc's trait solver (constants), confirmed under Kani",
            "instantiation_sample": progs[0].src[:1800] if progs else ""}
    return e3.finish(
        PID, tier, t0, eng, obl, out, extra=inst,
        rule="every feasible MIR path of every builder is one case: its `push_bounds_for_field` events must be exactly the fields that the documented rule calls used "
             "(not debug-ignored / the transparent one, not comparison-ignored and compared by the default comparator, no explicit default value and no type-level value) "
             "under the path condition, given that the bound(..) chain reached its end; plus the paths of GenericParamSet::new and Visitor::visit_path",
        bounds="<=2 fields, 1 variant; comparison builders with ignore/by/key free on one helper attribute; slice bound 2 for generic parameter lists",
        outside="the first sentence of the property - whether the generated impl applies to an instantiation - has no solver encoding: it is rustc's trait solver's verdict, observed as "
                "constants in the instantiation programs for the listed field-type grammar x probe types only; syn::visit::visit_type's own traversal; recursive types; more than 2 fields")
