"""C17 — derive_ex(Eq) is refused unless every compared component is Eq (E3: the macro side of the assertion).

Decided on the macro's MIR: the hidden assertion function applies the `Eq`-bounded helper to exactly the compared components (the field, or its
key expression; nothing for ignored fields or fields compared with `by`), the helper really carries the `Eq` bound, and the assertion body is emitted
inside a function item next to the impl. That rustc then rejects a non-Eq argument is the language's guarantee and is not re-checked.
"""
import re
import time

import z3

from . import common, e3, c05
from .common import log
from . import probes
from .mir import engine as mir_engine, exec as mx, cmpcfg, streams
from .mir.cmpcfg import FieldAtoms

PID = "C17"
PUSH = {"__private::push_ident", "__private::push_ident_spanned", "ToTokens::TokenStream::to_tokens", "__private::push_colon_spanned", "__private::push_add_spanned",
        "__private::push_question_spanned", "__private::push_lt_spanned", "__private::push_gt_spanned", "__private::push_group_spanned", "__private::push_and_spanned",
        "__private::push_colon", "__private::push_add", "__private::push_question", "__private::push_lt", "__private::push_gt", "__private::push_group",
        "__private::push_and", "__private::push_underscore", "__private::push_eq", "__private::push_semi", "__private::push_pound",
        "ToTokens::ImplGenerics::to_tokens", "ToTokens::Type::to_tokens", "ToTokens::Path::to_tokens"}


def token_string(events):
    out = []
    for name, args in events:
        short = name.split("::")[-1]
        if short.startswith("push_ident"):
            out.append(args[-1][4:] if args[-1].startswith("str:") else "?")
        elif short == "to_tokens":
            out.append("<%s>" % args[0])
        elif short.startswith("push_group"):
            d = [a for a in args if a.startswith("agg:")]
            out.append({"agg:Parenthesis()": "(..)", "agg:Brace()": "{..}", "agg:Bracket()": "[..]"}.get(d[0] if d else "", "(..)"))
        else:
            out.append({"colon": ":", "add": "+", "question": "?", "lt": "<", "gt": ">", "and": "&", "underscore": "_", "eq": "=", "semi": ";", "pound": "#"}.get(
                short.replace("push_", "").replace("_spanned", ""), short))
    return " ".join(out)


def classify(arg):
    """which component does a build_eq_checker call assert? -> ('key', attr) | ('field',) | ('other', text)"""
    m = re.search(r"Template::apply\(sym:[^,]*\.cmp\.(\w+)\.key", arg)
    if m:
        return ("key", m.group(1))
    if "this_of" in arg and "Template::apply" not in arg:
        return ("field",)
    return ("other", arg[:80])


WCB_OPAQUE = {"WhereClauseBuilder::push_bounds", "WhereClauseBuilder::push_bounds_for_field", "GenericParamSet::contains_in_type", "ItemSource::generics", "ItemSource::ident"}


def check_body(eng, obl, out, kind, nv=1, nf=1, keep=None, auto_bounds=False):
    """every existing, non-ignored field of every variant gets exactly the documented assertion.
    auto_bounds: the run in which the automatic field bounds are in effect (use_bounds = true on entry): the assertion is owed all the same"""
    ex = eng.executor(opaque_local=c05.OPAQUE | (WCB_OPAQUE if auto_bounds else set()), trace={"build_eq_checker", "VariantEntry::make_pat_with_self_path"} | set(streams.FLOW_CALLS), slice_bound=max(nv, nf))
    ex.unique_streams = True
    ex.trace_returns = {"build_eq_checker"}
    ex.approx_opaque_iters = auto_bounds  # yes/no questions over syn's own iterators (pure look-ups) are explored both ways
    fn = eng.find("build_eq_body")
    ub = ex.bvar("use_bounds")
    pre = [ub if auto_bounds else z3.Not(ub), ex.ivar("disc(source)", 0, 1) == (0 if kind == "struct" else 1)]
    fields = []  # (base, exists)
    if kind == "struct":
        lf = ex.ivar("len(source.<Struct>.1)", 0, ex.slice_bound)
        pre.append(lf <= nf)
        fields = [("source.<Struct>.1.[%d]" % i, lf > i) for i in range(nf)]
    else:
        lv = ex.ivar("len(source.<Enum>.1)", 0, ex.slice_bound)
        pre.append(lv <= nv)
        for v in range(nv):
            lf = ex.ivar("len(source.<Enum>.1.[%d].fields)" % v, 0, ex.slice_bound)
            pre.append(lf <= nf)
            fields += [("source.<Enum>.1.[%d].fields.[%d]" % (v, i), z3.And(lv > v, lf > i)) for i in range(nf)]
    if keep is not None:
        for base, _ in fields:
            pre += c05.restrict(FieldAtoms(ex, base), keep)
    res = ex.run(fn, eng.args_for(fn), pre=pre)
    tag = "build_eq_body[%s %dx%d%s%s]" % (kind, nv, nf, "" if keep is None else " free=" + "+".join(sorted(keep)), " auto-bounds" if auto_bounds else "")
    stuck = obl.note_paths(tag, res, ex)
    for r in stuck[:2]:
        out.inconclusive.append("fn=%s reason=%s" % (tag, r.value))
    for r in res:
        if r.kind != "return":
            continue
        if c05.is_err(r):
            continue  # refusals are C05's subject
        conj = []
        infos = []
        # token data flow: an assertion counts only if its tokens end up in the returned stream - for an enum inside the arm whose pattern is
        # `make_pat_with_self_path` of the field's own variant
        result_id = streams.sid(ex.summ(mx.State(), r.value.fields[0])) if r.value.fields else None
        reach, _ = streams.reach_set(r.events, result_id) if result_id else (set(), [])
        pending, placed = None, []   # (argument summary, stream id of the built checker)
        for e in r.events:
            if e[0] == "build_eq_checker":
                pending = e[1][0]
            elif e[0] == "ret:build_eq_checker" and pending is not None:
                placed.append((pending, streams.sid(e[1][0])))
                pending = None
        arms = {}  # variant base -> ids of the streams inside its arm
        for src, dst in streams.flows(r.events):
            m = re.match(r"opaque:VariantEntry::make_pat_with_self_path\(sym:(source\.<Enum>\.1\.\[\d+\]),str:_this,", src)
            if m and dst in reach:
                arms[m.group(1)] = streams.reach_set(r.events, dst)[0]
        dropped = []
        for base, exists in fields:
            fa = FieldAtoms(ex, base)
            alive = z3.And(exists, z3.Not(fa.ignored("Eq")))
            want = {
                ("key", "eq"): z3.And(alive, z3.Not(fa.by("eq")), fa.key("eq")),
                ("key", "ord"): z3.And(alive, z3.Not(fa.by("eq")), z3.Not(fa.key("eq")), z3.Not(fa.by("ord")), fa.key("ord")),
                ("field",): z3.And(alive, z3.Not(fa.has_comparator("Eq")), z3.Not(fa.any_custom())),
            }
            # `by` is looked at before `key` inside one attribute; eq before ord
            none_cond = z3.Or(z3.Not(alive), fa.by("eq"), z3.And(z3.Not(fa.key("eq")), fa.by("ord")))
            mine = [(a, sid_) for a, sid_ in placed if ("sym:%s." % base in a or "sym:%s)" % base in a or "sym:%s," % base in a)]
            calls = []
            for a, sid_ in mine:
                vbase = base.rsplit(".fields.", 1)[0] if kind == "enum" else None
                ok_flow = sid_ in reach and (kind == "struct" or sid_ in arms.get(vbase, ()))
                if ok_flow:
                    calls.append(classify(a))
                else:
                    dropped.append((base, classify(a), "not in the returned stream" if sid_ not in reach else "not inside the arm matched by its own variant's pattern"))
            if len(calls) == 0:
                conj.append(none_cond)
            elif len(calls) == 1 and calls[0] in want:
                conj.append(want[calls[0]])
            else:
                conj.append(z3.BoolVal(False))
            infos.append((fa, exists, calls))
        total_calls = sum(1 for e in r.events if e[0] == "build_eq_checker")
        if total_calls != sum(len(c) for _, _, c in infos):
            conj.append(z3.BoolVal(False))  # an assertion on something that is no field of the type
        obl.check_unsat(ex, tag + ":asserted-component", list(r.pc) + [z3.Not(z3.And(conj))], info=(kind, infos, ex, dropped), keep_smt=True)
    e3.coverage_check(ex, obl, tag, [r for r in res if r.kind != "stuck"], pre=pre) if not stuck else None
    if res:
        r = res[len(res) // 2]
        obl.samples.append({"function": tag, "path_condition": [str(c) for c in r.pc][:8], "asserted": [classify(e[1][0]) for e in r.events if e[0] == "build_eq_checker"],
                            "obligation": "path_condition AND NOT(documented condition for the asserted component of every field) is UNSAT"})
    log("[C17] %s: %d paths" % (tag, len(res)))


def check_helper(eng, obl, out):
    """the helper emitted by build_eq_checker is a function with a type parameter bounded by `Eq`, called with the interpolated component"""
    ex = eng.executor(trace=PUSH)
    fn = eng.find("build_eq_checker")
    res = ex.run(fn, eng.args_for(fn))
    obl.note_paths("build_eq_checker", res, ex)
    for r in res:
        ts = token_string(r.events)
        obl.total += 1
        m = re.search(r"fn (\w+) < (\w+) : ([^>]*) >", ts)
        ok = bool(m) and re.search(r"(^| )Eq( |$)", m.group(3) or "") is not None
        call = bool(m) and re.search(r"%s & <sym:this>" % re.escape(m.group(1)), ts) is not None
        takes_ref_t = bool(m) and re.search(r": & %s" % re.escape(m.group(2)), ts) is not None
        if ok and call and takes_ref_t:
            obl.discharged += 1
        else:
            probes.structural(out, "eq-checker-helper", "build_eq_checker does not emit `fn f<T: Eq + ..>(_: &T)` applied to the component; emitted tokens: %s" % ts, 'C17.helper')
        obl.samples.append({"function": "build_eq_checker", "emitted_tokens": ts})
    # Template::build_eq_checker applies the key template to the component and passes the result on
    ex2 = eng.executor(opaque_local={"Template::apply", "build_eq_checker"}, trace={"Template::apply", "build_eq_checker"})
    fn2 = eng.find("Template::build_eq_checker")
    res2 = ex2.run(fn2, eng.args_for(fn2))
    obl.note_paths("Template::build_eq_checker", res2, ex2)
    obl.total += 1
    good = bool(res2) and all(len(r.events) == 2 and r.events[0][0] == "Template::apply" and r.events[0][1][1] == "sym:this"
                              and "Template::apply" in r.events[1][1][0] for r in res2)
    if good:
        obl.discharged += 1
    else:
        probes.structural(out, "template-eq-checker", "Template::build_eq_checker does not assert the key expression applied to the field: %s" % [r.events for r in res2][:1], 'C17.helper')


def check_placement(eng, obl, out):
    """for Eq the assertion body is interpolated into a function item (type-checked), for the other traits into the impl"""
    builders = {"build_partial_eq_body", "build_eq_body", "build_partial_ord_body", "build_ord_body", "build_hash_body"}
    for op in cmpcfg.TRAITS:
        ex = eng.executor(opaque_local=c05.OPAQUE | builders | {"DeriveEntry::push_bounds_to_with", "WhereClauseBuilder::new", "WhereClauseBuilder::build",
                                                                "ItemSource::generics", "ItemSource::ident"}, trace=PUSH | builders)
        fn = eng.find("build_compare_op")
        res = ex.run(fn, eng.args_for(fn, overrides={1: mx.Agg("adt", "CompareOp", op, [])}))
        obl.note_paths("build_compare_op[%s]" % op, res, ex)
        for r in res:
            if r.kind != "return" or c05.is_err(r):
                continue
            ts = token_string([e for e in r.events if e[0] not in builders])
            body_marks = [m for m in re.finditer(r"<opaque:ok-of>|<opaque:[^>]*build_\w+_body[^>]*>", ts)]
            obl.total += 1
            if op == "Eq":
                # `const _ : () = {..}` holding `fn _f <impl generics> (this: &Self) where .. {..}` must be emitted; its body is built from the assertion tokens
                ok = re.search(r"const _ :", ts) is not None
                # the function item comes before the impl and the assertion body is interpolated into it (before the `impl` keyword)
                fn_item = re.search(r"fn \w+ <", ts.split(" impl ")[0]) is not None and "ok-of" in ts.split(" impl ")[0]
                if ok and fn_item and body_marks:
                    obl.discharged += 1
                else:
                    probes.structural(out, "eq-assertion-placement", "for Eq the assertion body is not emitted inside a type-checked function item: %s" % ts[:600], 'C17.placement')
            else:
                if body_marks:
                    obl.discharged += 1
                else:
                    probes.structural(out, "body-placement|" + op, "the method body of %s is not interpolated into the generated impl: %s" % (op, ts[:400]), 'C17.placement')


FORMS = ("plain", "generic", "tuple", "pathname", "single")


def concretise(kind, decls, form):
    """-> (derive_ex argument list, item text, accessor(vi, fi)) for one way of writing the model down.
    plain: named fields of a non-Eq type; generic: fields of a type parameter with an explicit `bound()` on Eq (no automatic bounds, as in the obligation);
    tuple (enum only): tuple variants with an ignored field in front, so that binder positions matter"""
    # pathname: a concrete field type whose path merely *spells* a type parameter's name (`q::T` next to a parameter `T`), automatic bounds on;
    # single (enum only): the variants one at a time, each as the only variant of its enum
    attr = "Eq, PartialEq, Hash, PartialOrd, Ord" if form != "generic" else "Eq(bound()), PartialEq, Hash, PartialOrd, Ord"
    ty = {"generic": "T", "pathname": "q::T"}.get(form, "NotEq")
    gen = "<T>" if form in ("generic", "pathname") else ""
    if form == "single":
        if kind == "struct" or len({vi for vi, _, _, _, _ in decls}) != 1:
            return None
        v0 = decls[0][0]
        item = "enum X { V%d { %s } }" % (v0, ", ".join("%s f%d: %s" % (" ".join(a), fi, ty) for vi, fi, a, _, _ in decls))
        return attr, item, (lambda vi, fi: "(* _this_f%d)" % fi)
    if kind == "struct":
        if form == "tuple":
            return None
        item = "struct X%s { %s }" % (gen, ", ".join("%s f%d: %s" % (" ".join(a), fi, ty) for vi, fi, a, _, _ in decls))
        return attr, item, (lambda vi, fi: "(this . f%d)" % fi)
    byv = {}
    for vi, fi, a, _, _ in decls:
        byv.setdefault(vi, []).append((fi, a))
    nvv = (max(byv) + 1) if byv else 1
    if form == "tuple":
        vs = []
        for v in range(nvv):
            fs = ["#[eq(ignore)] u8"] + ["%s %s" % (" ".join(a), ty) for fi, a in sorted(byv.get(v, []))]
            vs.append("V%d(%s)" % (v, ", ".join(fs)))
        pos = {(vi, fi): 1 + sorted(f for f, _ in byv[vi]).index(fi) for vi, fi, _, _, _ in decls}
        return attr, "enum X%s { %s }" % (gen, ", ".join(vs)), (lambda vi, fi: "(* _this_%d)" % pos[(vi, fi)])
    item = "enum X%s { %s }" % (gen, ", ".join("V%d { %s }" % (v, ", ".join("%s f%d: %s" % (" ".join(a), fi, ty) for fi, a in byv.get(v, []))) for v in range(nvv)))
    return attr, item, (lambda vi, fi: "(* _this_f%d)" % fi)


def binders_misplaced(out_text):
    """tuple-variant patterns of the assertion function: binder `_this_<k>` must sit at tuple position k"""
    m = re.search(r"fn _f .*?match this \{(.*)", out_text, re.S)
    if not m:
        return None
    for pm in re.finditer(r"X :: (\w+) \(([^()]*)\) =>", m.group(1)):
        for pos, b in enumerate(x.strip() for x in pm.group(2).split(",") if x.strip()):
            bm = re.fullmatch(r"_this_(\d+)", b)
            if bm and int(bm.group(1)) != pos:
                return "variant %s binds `%s` at tuple position %d" % (pm.group(1), b, pos)
    return None


def replay_failures(obl, out):
    from . import replay_e3
    n = 0
    seen_items = set()
    for label, model, info in obl.failed:
        if label.startswith("coverage:"):
            out.broken.append("path conditions do not cover the configuration space: " + label)
            continue
        kind, infos, ex, dropped = info
        tv = lambda e: z3.is_true(model.eval(e, model_completion=True))
        # rebuild the whole item from the model; the needle is the assertion of the first field whose documented condition fails
        decls = []
        for idx, (fa, exists, calls) in enumerate(infos):
            if not tv(exists):
                continue
            attrs = fa.attrs_from_model(model, with_bounds=False)
            m = re.search(r"\[(\d+)\]\.fields\.\[(\d+)\]$|\.\[(\d+)\]$", fa.base)
            vi, fi = (int(m.group(1)), int(m.group(2))) if m.group(1) is not None else (0, int(m.group(3)))
            decls.append((vi, fi, attrs, fa, calls))
        sig = (kind, tuple((vi, fi, tuple(a), tuple(c)) for vi, fi, a, _, c in decls), bool(dropped))
        if sig in seen_items:
            continue
        seen_items.add(sig)
        confirmed = tried = False
        for form in FORMS:
            conc = concretise(kind, decls, form)
            if conc is None:
                continue
            attr, item, acc = conc
            case = None
            for vi, fi, attrs, fa, calls in decls:
                alive = not tv(fa.ignored("Eq"))
                if alive and tv(fa.rejects("Eq")):
                    case = {"property": PID, "kind": "reject_trait", "trait": "Eq", "mode": "attr", "attr": attr, "item": item, "expected_reject": True,
                            "explain": "customised comparison elsewhere while Eq would fall back to the field's own impl: must be refused, MIR path asserts %s" % (calls,)}
                    break
                if not alive or tv(fa.by("eq")) or (not tv(fa.key("eq")) and tv(fa.by("ord"))):
                    needle, expected, docs = "_eq (& (%s" % acc(vi, fi), False, ()
                elif tv(fa.key("eq")):
                    needle, expected, docs = "_eq (& (%s . k_eq ()))" % acc(vi, fi), True, ("key", "eq")
                elif tv(fa.key("ord")):
                    needle, expected, docs = "_eq (& (%s . k_ord ()))" % acc(vi, fi), True, ("key", "ord")
                else:
                    needle, expected, docs = "_eq (& (%s))" % acc(vi, fi), True, ("field",)
                got = tuple(calls[0]) if len(calls) == 1 else tuple(calls)
                if (expected and got != docs) or (not expected and calls):
                    case = {"property": PID, "kind": "contains", "mode": "attr", "attr": attr, "item": item, "needle": needle, "expected": expected,
                            "explain": "MIR path asserts %s for field f%d of variant %d%s" % (calls, fi, vi, "; built but not placed: %s" % (dropped,) if dropped else "")}
                    break
            if case is None:
                continue
            tried = True
            obs = replay_e3.observe(case)
            if case["kind"] == "reject_trait":
                if replay_e3.disagrees(case, obs):
                    n += 1
                    path = e3.write_replay(PID, "case%03d" % n, case)
                    out.violation("eq-not-refused|%s|%s" % (kind, common.norm(item)[:80]), path,
                                  "derive_ex(Eq) is accepted although the compared value is not the one asserted to be Eq: #[derive_ex(%s)] %s" % (case["attr"], item))
                    confirmed = True
                    break
                continue
            if "Eq" in obs["rejected_traits"]:
                confirmed = True  # Eq itself is refused by the macro: C05's subject
                break
            bad_bind = binders_misplaced(obs.get("out", "")) if form == "tuple" else None
            if replay_e3.disagrees(case, obs):
                n += 1
                path = e3.write_replay(PID, "case%03d" % n, case)
                out.violation("asserted-component|%s|%s|%s" % (kind, form, common.norm(item)[:80]), path,
                              "the hidden Eq assertion %s `%s` for: #[derive_ex(%s)] %s" % ("lacks" if case["expected"] else "contains", case["needle"], case["attr"], item))
                confirmed = True
                break
            if bad_bind:
                n += 1
                case = {"property": PID, "kind": "eq_binders", "mode": "attr", "attr": attr, "item": item,
                        "explain": "the assertion is made on a binder that is bound to another field of the variant: " + bad_bind}
                path = e3.write_replay(PID, "case%03d" % n, case)
                out.violation("asserted-component|%s|%s|binder|%s" % (kind, form, common.norm(item)[:80]), path,
                              "the hidden Eq assertion checks the wrong field (%s) for: #[derive_ex(%s)] %s" % (bad_bind, attr, item))
                confirmed = True
                break
        if not confirmed:
            msg = "%s: %s" % (label, concretise(kind, decls, "plain")[1] if decls else "(no field)")
            if dropped:
                # the token-flow view of the executor says an assertion is built but not placed; the real expansion shows it in place in every written form
                out.inconclusive.append("fn=build_eq_body reason=token flow not followed (%s), not reproduced natively: %s" % (dropped[0][2], msg))
            elif tried:
                e3.not_reproduced(out, model, "for " + msg)
            else:
                out.broken.append("failed obligation could not be turned into a concrete case: " + msg)
        if n >= 6:
            break
    out.inconclusive[:] = list(dict.fromkeys(out.inconclusive))


def run(tier):
    t0 = time.time()
    out = common.Outcome(PID)
    eng = mir_engine.Engine()
    obl = e3.Obligations(PID)
    try:
        sp = lambda f, *a, **k: e3.safe_part(out, lambda: f(eng, obl, out, *a, **k))
        sp(check_body, "struct")
        sp(check_body, "enum")
        # several fields / variants: every one of them gets its assertion (free atoms restricted to eq + ord to stay small)
        sp(check_body, "struct", 1, 2, keep={"eq", "ord"})
        sp(check_body, "enum", 2, 1, keep={"eq", "ord"})
        # with the automatic field bounds in effect (the where-clause bound does not replace the assertion: it says nothing about concrete field types)
        sp(check_body, "struct", 1, 1, auto_bounds=True)
        sp(check_body, "enum", 1, 1, keep={"eq", "ord"}, auto_bounds=True)
        if tier == "thorough":
            sp(check_body, "enum", 2, 2, keep={"eq"})
            sp(check_body, "struct", 1, 3, keep={"ord"})
        sp(check_helper)
        sp(check_placement)
        replay_failures(obl, out)
        if tier == "thorough":
            e3.cross_check_solvers(obl, out)
    except mx.Inconclusive as e:
        out.inconclusive.append("fn=? reason=%s" % e)
    return e3.finish(
        PID, tier, t0, eng, obl, out,
        rule="every feasible MIR path of build_eq_body (struct field / enum-variant field, all 20 attribute atoms free) is one case: the component passed to the Eq-bounded "
             "helper must be the one the documentation prescribes under the path condition; plus structural obligations on build_eq_checker / Template::build_eq_checker / build_compare_op",
        bounds="one field, one variant; use_bounds=false, plus one run each for struct / enum with use_bounds=true (WhereClauseBuilder calls opaque); token-level obligations look at the identifier / punctuation sequence pushed by quote!",
        outside="that rustc rejects a non-Eq argument of the helper (language guarantee); several fields (the field loop is the one C05 executes with two fields)")
