"""C18 — Deref / DerefMut target the single field itself (E1; arity rejection is decided by E3, see c18 in DESIGN)."""
import time

from . import common, e1, kani_runner, e3_extras

PID = "C18"

# (shape id, item text, concrete type, field access, field type, value expr from s, second value expr)
SHAPES = [
    ("tuple-u8", "pub struct T(u8);", "T", "0", "u8", "T(s.u8())", "s.u8()"),
    ("named-u8", "pub struct T { inner: u8 }", "T", "inner", "u8", "T { inner: s.u8() }", "s.u8()"),
    ("tuple-array", "pub struct T([u8; 4]);", "T", "0", "[u8; 4]", "T([s.u8(), s.u8(), s.u8(), s.u8()])", "[s.u8(), s.u8(), s.u8(), s.u8()]"),
    ("named-w", "pub struct T { w: W }", "T", "w", "W", "T { w: W(s.u8()) }", "W(s.u8())"),
    ("generic", "pub struct T<A>(A);", "T<u8>", "0", "u8", "T::<u8>(s.u8())", "s.u8()"),
    ("generic-bound", "pub struct T<A: Copy> { v: A }", "T<i8>", "v", "i8", "T::<i8> { v: s.i8() }", "s.i8()"),
    ("generic-where", "pub struct T<A, B> (core::marker::PhantomData<B>, ) where A: Sized, B: ?Sized;", None, None, None, None, None),
    ("generic-where1", "pub struct T<A> where A: PartialEq + Sized { v: (A, A) }", "T<u8>", "v", "(u8, u8)", "T::<u8> { v: (s.u8(), s.u8()) }", "(s.u8(), s.u8())"),
    # a field that is itself a reference: Target is the reference type, deref() points at the field (not through it)
    ("ref-static", "pub struct T(&'static u8);", "T", "0", "&'static u8", "T(&ZZ[(s.u8() & 3) as usize])", "&ZZ[(s.u8() & 3) as usize]"),
    ("ref-lifetime", "pub struct T<'a> { r: &'a u8 }", "T<'static>", "r", "&'static u8", "T::<'static> { r: &ZZ[(s.u8() & 3) as usize] }", "&ZZ[(s.u8() & 3) as usize]"),
    ("ref-generic", "pub struct T<'a, A>(&'a A);", "T<'static, u8>", "0", "&'static u8", "T::<'static, u8>(&ZZ[(s.u8() & 3) as usize])", "&ZZ[(s.u8() & 3) as usize]"),
    ("boxed", "pub struct T(Box<u8>);", "T", "0", "Box<u8>", "T(Box::new(s.u8()))", "Box::new(s.u8())"),
    ("boxed-slice", "pub struct T(Box<[u8]>);", "T", "0", "Box<[u8]>", "T(vec![s.u8(), s.u8()].into_boxed_slice())", "vec![s.u8(), s.u8(), s.u8()].into_boxed_slice()"),
    ("raw-ident", "pub struct T { r#type: u8 }", "T", "r#type", "u8", "T { r#type: s.u8() }", "s.u8()"),
    # the field's type mentions `Self` on a generic type (Target must name the full type, generic arguments included)
    ("self-in-field-type", "pub struct T<A> { v: (A, core::marker::PhantomData<fn() -> Self>) }", "T<u8>", "v", "(u8, core::marker::PhantomData<fn() -> T<u8>>)",
     "T::<u8> { v: (s.u8(), core::marker::PhantomData) }", "(s.u8(), core::marker::PhantomData)"),
    ("self-in-field-type-lifetime", "pub struct T<'a, A>(pub (A, core::marker::PhantomData<&'a Self>));", "T<'static, i8>", "0", "(i8, core::marker::PhantomData<&'static T<'static, i8>>)",
     "T::<'static, i8>((s.i8(), core::marker::PhantomData))", "(s.i8(), core::marker::PhantomData)"),
    # the struct comes out of a macro_rules! definition whose field type tokens are the caller's: the generated `self` must resolve all the same
    ("macro-rules-field-type", "macro_rules! mk_t { ($n:ident, $f:ident, $($t:tt)*) => { __ATTRS__ pub struct $n { $f: $($t)* } } }\nmk_t!(T, inner, u8);", "T", "inner", "u8", "T { inner: s.u8() }", "s.u8()"),
    # the type's own where-clause must be kept next to explicit bound(..) arguments (list suffix after `|`)
    ("where+bound|, bound(A: Clone)", "pub struct T<A>(A) where A: Copy;", "T<u8>", "0", "u8", "T::<u8>(s.u8())", "s.u8()"),
    ("where+bound-empty|, bound()", "pub struct T<A: Copy> { v: A }", "T<i8>", "v", "i8", "T::<i8> { v: s.i8() }", "s.i8()"),
]

CHECK = """fn same_target<X: core::ops::Deref<Target = B>, B: ?Sized>(_: &X, _: &B) {{}}

pub fn check<S: Src>(s: &mut S) {{
    let mut x: {ty} = {mk};
    {{
        let p: &{fty} = core::ops::Deref::deref(&x);
        assert!(core::ptr::eq(p, &x.{acc}), "deref-address");
        // compiles only if `Target` is exactly the field's type
        same_target(&x, &x.{acc});
        assert!(*p == x.{acc}, "deref-value");
    }}
{mut_part}}}

"""
MUT = """    let v: {fty} = {val};
    let v2: {fty} = {val2};
    vassume(v == v2);
    {{
        let field_addr = &x.{acc} as *const {fty};
        let q: &mut {fty} = core::ops::DerefMut::deref_mut(&mut x);
        assert!(core::ptr::eq(q as *const {fty}, field_addr), "deref_mut-address");
        *q = v;
    }}
    assert!(x.{acc} == v2, "deref_mut-write-lands-in-field");
"""


BOUND_FORMS = """
// bound(..) arguments on Deref / DerefMut: a type entry means `Type: <the trait being generated>`, a per-trait bound without `..` keeps the shared bound out,
// and both are independent of what is derived alongside. Observed as compile-time constants (which instantiations implement the trait).
#[derive_ex(Deref, DerefMut(bound(A)))]
pub struct T1<A>(pub A);
#[derive_ex(Deref(bound(A)))]
pub struct T2<A> { pub v: A }
#[derive_ex(Clone, Deref(bound()), bound(A: Clone))]
pub struct T3<A>(pub A);
#[derive_ex(Deref, DerefMut, bound(A))]
pub struct T4<A>(pub A);
pub struct NoClone(pub u8);

pub fn check<S: Src>(_s: &mut S) {
    // T1: Deref for every A; DerefMut exactly when A: DerefMut
    assert!(<IsDeref<T1<u8>>>::V && <IsDeref<T1<&'static u8>>>::V, "deref-unbounded");
    assert!(<IsDerefMut<T1<Box<u8>>>>::V && !<IsDerefMut<T1<&'static u8>>>::V && !<IsDerefMut<T1<u8>>>::V, "type-entry-means-the-trait-being-generated");
    // T2: Deref exactly when A: Deref
    assert!(<IsDeref<T2<&'static u8>>>::V && !<IsDeref<T2<u8>>>::V, "type-entry-on-deref");
    // T3: the shared bound is Clone's business: Deref(bound()) stops before it
    assert!(<IsDeref<T3<NoClone>>>::V && !<IsClone<T3<NoClone>>>::V && <IsClone<T3<u8>>>::V, "per-trait-bound-keeps-shared-bound-out");
    // T4: a shared type entry means Deref for Deref and DerefMut for DerefMut
    assert!(<IsDeref<T4<&'static u8>>>::V && !<IsDerefMut<T4<&'static u8>>>::V && <IsDerefMut<T4<Box<u8>>>>::V && !<IsDeref<T4<u8>>>::V, "shared-type-entry");
}

"""


def run(tier):
    t0 = time.time()
    progs = []
    for sid, item, ty, acc, fty, mk, val in SHAPES:
        if ty is None:
            continue
        suffix = ""
        if "|" in sid:
            sid, suffix = sid.split("|", 1)
        for traits in (["Deref"], ["Deref", "DerefMut"]):
            for entry in ("attr", "derive"):
                if tier != "thorough" and entry == "derive" and sid not in ("tuple-u8", "generic"):
                    continue
                name = "p%05d" % len(progs)
                desc = "shape=%s traits=%s entry=%s" % (sid, "+".join(traits), entry)
                src = e1.HEADER.format(pid=PID, name=name, desc=desc)
                la = ", ".join(traits) + suffix
                attrs = "#[derive_ex(%s)]\n" % la if entry == "attr" else "#[derive(Ex)]\n#[derive_ex(%s)]\n" % la
                src += (item.replace("__ATTRS__", attrs.replace("\n", " ")) if "__ATTRS__" in item else attrs + item) + "\n\n"
                # the second value is drawn independently and assumed equal, so that a write that lands elsewhere is visible
                mp = MUT.format(fty=fty, acc=acc, val=val, val2=val) if "DerefMut" in traits else ""
                src += CHECK.format(ty=ty, mk=mk, fty=fty, acc=acc, mut_part=mp)
                src += e1.harness(unwind=8)
                progs.append(kani_runner.Program(name, src, "%s|%s|%s" % (sid, la, entry), desc, nontrivial=True))
    name = "p%05d" % len(progs)
    progs.append(kani_runner.Program(name, e1.HEADER.format(pid=PID, name=name, desc="bound(..) forms on Deref / DerefMut") + BOUND_FORMS + e1.harness(), "bound-forms|Deref+DerefMut",
                                     "bound(..) forms on Deref / DerefMut", nontrivial=True))
    out = common.Outcome(PID)
    extra = e3_extras.summary(e3_extras.safe(e3_extras.c18_arity, out), e3_extras.safe(e3_extras.c18_signature, out))
    return e1.finish(
        PID, tier, progs, t0, outcome=out, extra=extra,
        rule="one Kani harness per single-field struct shape x {Deref, Deref+DerefMut} x entry point; field value and written value symbolic; "
             "Target identity is enforced by a generic function that only type-checks when Target == field type",
        bounds="tuple/named single-field structs; field types u8, [u8;4], W, (u8,u8), Box<[u8]> of length 2->3, generic A with inline bound / where-clause, raw identifier",
        outside="unsized field types; the rejection of 0- and 2..4-field structs is decided on the macro's MIR (E3 obligation build_deref_for_struct: Err <=> len(fields) != 1, 0..4 fields)",
        functions=["Deref::deref and DerefMut::deref_mut generated by derive_ex"])
