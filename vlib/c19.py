"""C19 — `dump` shows exactly the code that would have been generated (E3: the selection and routing kernel; native differential for the printing step).

Decided on the macro's MIR:
 (1) `DeriveEntry::from_args_list`: an entry's dump flag is `list.dump || own.dump` of exactly the list / trait it was written in (no leaking between entries or lists);
 (2) `DeriveEntry::apply_dump`: generated code passes through untouched unless the entry's flag is set; with the flag the very same token stream is the single `{}` argument
     of the message behind a literal label, reported as a compile error; a builder error stays that error;
 (3) `build_by_item_{struct,enum}_core`: every entry's result goes through `apply_dump` of *that* entry, once, and the outputs are appended in list order to the returned stream
     (so the impls of the other traits are what they would have been);
 (4) `item_impl::build_by_item_impl`: code is returned only when `dump` is off; with `dump` the error message is built from the same accumulated stream by the same token-appending
     steps as on the sibling path without `dump`.
What the MIR executor cannot see is the printing of a token stream into the message (`Display for TokenStream`, opaque). That step is closed by a native differential run through
the real expander (R): for a list of items x trait lists x dump placements, the message payload must be, token for token, the impls that the same input yields without `dump`,
and everything else must be identical. A difference found there is replayed as a `dump` case.
"""
import os
import re
import time

import z3

from . import common, e3
from .common import log
from .mir import engine as mir_engine, exec as mx

PID = "C19"
BUILD_STRUCT = {"build_binary_op", "build_assign_op", "build_unary_op", "build_compare_op_for_struct", "build_copy_for_struct", "build_clone_for_struct", "build_debug_for_struct",
                "build_default_for_struct", "build_deref_for_struct"}
BUILD_ENUM = {"build_compare_op_for_enum", "build_copy_for_enum", "build_clone_for_enum", "build_debug_for_enum", "build_default_for_enum"}
CORE_OPAQUE = {"DeriveEntry::from_root", "HelperAttributeKinds::extend", "HelperAttributes::from_attrs", "FieldEntry::from_fields", "VariantEntry::from_variants",
               "DeriveEntry::apply_dump", "HelperAttributeKinds::without_derive_ex"}
IMPL_OPAQUE = {'to_rhs', 'Op::new', 'Op::to_trait_path', 'find_output_type', 'Op::from_str', 'Op::from_ident', 'Op::to_func_ident', 'BinaryOp::to_func_name', 'Op::to_trait_ident',
               'ref_type_with', 'change_owned', 'to_ref_elem', 'expand_self', 'OpForm::eq', 'BinaryOp::from_str', 'Args::from_attr_args', 'ref_type', 'impl_binary', 'impl_assign',
               'to_ref_type', 'Op::from_path'}


STRUCTURAL = []  # (key, what): failures of obligations that are facts about the macro's own code; the native differential decides what they mean


def structural(out, key, what):
    if key not in [k for k, _ in STRUCTURAL]:
        STRUCTURAL.append((key, what))


def unescape(s):
    """bytes of a MIR byte-string literal body"""
    out = bytearray()
    i = 0
    while i < len(s):
        c = s[i]
        if c == "\\" and i + 1 < len(s):
            n = s[i + 1]
            if n == "x":
                out.append(int(s[i + 2:i + 4], 16))
                i += 4
                continue
            out.append({"n": 10, "r": 13, "t": 9, "0": 0, "\\": 92, '"': 34, "'": 39}.get(n, ord(n)))
            i += 2
            continue
        out += c.encode()
        i += 1
    return bytes(out)


def template_pieces(b):
    """rustc's compact format template: <len><literal bytes> | 0x80 <u16 len><bytes> | 0xC0.. placeholder | 0x00 end  ->  list of ('lit', text) / ('arg', opts) or None"""
    out = []
    i = 0
    while i < len(b):
        c = b[i]
        if c == 0:
            return out if i == len(b) - 1 else None
        if c < 0x80:
            out.append(("lit", b[i + 1:i + 1 + c].decode("utf-8", "replace")))
            i += 1 + c
        elif c == 0x80:
            n = b[i + 1] | (b[i + 2] << 8)
            out.append(("lit", b[i + 3:i + 3 + n].decode("utf-8", "replace")))
            i += 3 + n
        elif c == 0xC0:
            out.append(("arg", "default"))
            i += 1
        else:
            return None  # a placeholder with options (width, debug, ...) or an encoding this reader does not know
    return None


def dump_template_verdict(arg_summ):
    """-> (ok, why) for the summary of a `fmt::Arguments::new(<template>, [args])` value; ok None = cannot tell"""
    m = re.search(r"Arguments::new\(bytes:((?:[^,]|,(?! ?agg:))*),\s*agg:array\((.*)\)\)", arg_summ)
    if not m:
        return None, "format arguments not recognised: %s" % arg_summ[:120]
    pieces = template_pieces(unescape(m.group(1)))
    if pieces is None:
        return None, "format template not understood: %r" % m.group(1)
    args = [p for p in pieces if p[0] == "arg"]
    if len(args) != 1 or pieces[-1][0] != "arg":
        return False, "the message is not `<label>{}`: %s" % (pieces,)
    label = "".join(t for k, t in pieces if k == "lit")
    if not re.fullmatch(r"[\w ]*:?\s*", label):
        return False, "text other than a label is printed in front of the code: %r" % label
    if m.group(2).count("Argument::new_") != 1 or "Argument::new_display(" not in m.group(2):
        return False, "the code is not printed with `{}` (Display): %s" % m.group(2)[:100]
    return True, m.group(2)


# ------------------------------------------------------------------------------------------------
def check_from_args_list(eng, obl, out, n):
    ex = eng.executor(slice_bound=n, opaque_local={"DeriveItemKind::from_ident", "Bounds::from", "From::Bounds::from", "Bounds::new"})
    fn = eng.find("DeriveEntry::from_args_list")
    res = ex.run(fn, eng.args_for(fn))
    tag = "DeriveEntry::from_args_list[<=%d lists x <=%d traits]" % (n, n)
    stuck = obl.note_paths(tag, res, ex)
    for r in stuck[:2]:
        out.inconclusive.append("fn=%s reason=%s" % (tag, r.value))
    nl = ex.ivar("len(args_list)", 0, n)
    sample = None
    for r in res:
        if r.kind != "return" or not (isinstance(r.value, mx.Agg) and r.value.variant == "Ok"):
            continue
        v = r.value.fields[0]
        if not isinstance(v, mx.VecL):
            out.inconclusive.append("fn=%s reason=result is not a locally built vector (%r)" % (tag, v))
            continue
        seen = []
        conj = []
        infos = []
        for ent in v.items:
            if not (isinstance(ent, mx.Agg) and ent.name == "DeriveEntry"):
                out.inconclusive.append("fn=%s reason=entry is %r" % (tag, ent))
                continue
            names = eng.ti.structs.get("DeriveEntry") if hasattr(eng.ti, "structs") else None
            fields = dict(zip(names, ent.fields)) if names and len(names) == len(ent.fields) else None
            if fields is None or "dump" not in fields or "kind" not in fields:
                out.inconclusive.append("fn=%s reason=DeriveEntry fields not recognised" % tag)
                continue
            m = re.search(r"args_list\.\[(\d+)\]\.items\.\[(\d+)\]\.trait_ident", ex.summ(mx.State(), fields["kind"]))
            if not m:
                out.inconclusive.append("fn=%s reason=entry kind has no provenance: %s" % (tag, ex.summ(mx.State(), fields["kind"])[:100]))
                continue
            i, j = int(m.group(1)), int(m.group(2))
            seen.append((i, j))
            d = fields["dump"]
            if isinstance(d, mx.Sym):
                d = ex.bvar(mx.pstr(d.path))  # a flag copied as it is
            elif not z3.is_expr(d):
                if not isinstance(d, bool):
                    out.inconclusive.append("fn=%s reason=dump flag is %r" % (tag, d))
                    continue
                d = z3.BoolVal(d)
            own = None
            for name in ex._vars_of(d):
                if re.fullmatch(r"args_list\.\[%d\]\.items\.\[%d\]\.args\.<Some>\.\w+\.dump" % (i, j), name):
                    own = name
            own = own or "args_list.[%d].items.[%d].args.<Some>.1.dump" % (i, j)
            is_some = ex.ivar("disc(args_list.[%d].items.[%d].args)" % (i, j), 0, 1) == 0
            want = z3.Or(ex.bvar("args_list.[%d].dump" % i), z3.And(is_some, ex.bvar(own)))
            conj.append(d == want)
            infos.append((i, j, str(z3.simplify(d))))
        # the entries are exactly the written (list, trait) pairs, in order
        static_ok = seen == sorted(set(seen))
        for i in range(n):
            li = ex.ivar("len(args_list.[%d].items)" % i, 0, n)
            for j in range(n):
                present = z3.And(nl > i, li > j)
                conj.append(present if (i, j) in seen else z3.Not(present))
        if not static_ok:
            conj.append(z3.BoolVal(False))
        obl.check_unsat(ex, tag + ":dump-flag", list(r.pc) + [z3.Not(z3.And(conj))], info=("flags", infos, ex, n), keep_smt=True)
        if len(v.items) >= 2:
            sample = {"function": tag, "path_condition": [str(c) for c in r.pc][:8], "entries": infos,
                      "obligation": "path_condition AND NOT(each entry's dump == list.dump OR (own args present AND own.dump), entries == written pairs in order) is UNSAT"}
    if not stuck:
        e3.coverage_check(ex, obl, tag, res)
    if sample:
        obl.samples.append(sample)
    log("[C19] %s: %d paths" % (tag, len(res)))


def check_apply_dump(eng, obl, out):
    ex = eng.executor(trace={"Arguments::new", "Error::new"})
    fn = eng.find("DeriveEntry::apply_dump")
    res = ex.run(fn, eng.args_for(fn))
    tag = "DeriveEntry::apply_dump"
    stuck = obl.note_paths(tag, res, ex)
    for r in stuck[:2]:
        out.inconclusive.append("fn=%s reason=%s" % (tag, r.value))
    ok = ex.ivar("disc(result)", 0, 1) == 0
    d = ex.bvar("self.dump")
    for r in res:
        if r.kind != "return":
            continue
        v = r.value
        s = ex.summ(mx.State(), v)
        if isinstance(v, mx.Sym) and mx.pstr(v.path) == "result.<Ok>.0":
            want, what = z3.And(ok, z3.Not(d)), "pass-through"
        elif "compile_error" in s and "result.<Err>.0" in s and "result.<Ok>" not in s:
            want, what = z3.Not(ok), "builder-error"
        elif "compile_error" in s and "result.<Ok>.0" in " ".join(a for e in r.events for a in e[1]):
            fmt = [e for e in r.events if e[0] == "Arguments::new"]
            verdict, why = dump_template_verdict("Arguments::new(%s)" % ", ".join(fmt[0][1])) if fmt else (None, "no format arguments")
            errs = [e for e in r.events if e[0] == "Error::new"]
            if verdict is None:
                out.inconclusive.append("fn=%s reason=%s" % (tag, why))
                continue
            if verdict is False or "result.<Ok>.0" not in why:
                obl.total += 1
                structural(out, "apply_dump|message", "the dump message is not the label followed by the generated token stream printed with `{}`: %s" % why)
                continue
            if not errs or "self.span" not in errs[0][1][0]:
                out.inconclusive.append("fn=%s reason=dump error not created at the entry's span" % tag)
            want, what = z3.And(ok, d), "dump"
        else:
            # generated code that neither passes through nor is printed: the obligation below fails for every feasible configuration of this path
            want, what = z3.BoolVal(False), "other: " + s[:100]
        obl.check_unsat(ex, tag + ":" + what.split(":")[0], list(r.pc) + [z3.Not(want)], info=("apply", what, ex), keep_smt=True)
    if not stuck:
        e3.coverage_check(ex, obl, tag, res)
    obl.samples.append({"function": tag, "paths": [{"pc": [str(c) for c in r.pc], "returns": ex.summ(mx.State(), r.value)[:160]} for r in res if r.kind == "return"][:3],
                        "obligation": "path_condition AND NOT(documented condition for what this path returns) is UNSAT"})
    log("[C19] %s: %d paths" % (tag, len(res)))


def check_core(eng, obl, out, which, n):
    build = BUILD_STRUCT if which == "struct" else BUILD_ENUM
    core = "build_by_item_%s_core" % which
    ex = eng.executor(slice_bound=n, opaque_local=build | CORE_OPAQUE, trace=build | {"DeriveEntry::apply_dump", "Extend::TokenStream::extend"})
    fn = eng.find(core)
    res = ex.run(fn, eng.args_for(fn))
    tag = "%s[<=%d entries]" % (core, n)
    stuck = obl.note_paths(tag, res, ex)
    for r in stuck[:2]:
        out.inconclusive.append("fn=%s reason=%s" % (tag, r.value))
    bad = 0
    for r in res:
        if r.kind != "return" or not (isinstance(r.value, mx.Agg) and r.value.variant == "Ok"):
            continue
        ret = ex.summ(mx.State(), r.value.fields[0]) if r.value.fields else ""
        # which entries does this path iterate over? (path condition: len(<iter>) > i)
        pcs = " ".join(str(c) for c in r.pc)
        iters = set(re.findall(r"len\((opaque-iter#\d+)\)", pcs))
        problems = []
        if len(iters) != 1:
            out.inconclusive.append("fn=%s reason=entry list not recognised in the path condition" % tag)
            continue
        it = iters.pop()
        count = len(set(re.findall(r"len\(%s\) > (\d+)" % re.escape(it), pcs)))
        applies = [e for e in r.events if e[0] == "DeriveEntry::apply_dump"]
        extends = [e for e in r.events if e[0] == "Extend::TokenStream::extend"]
        if len(applies) != count or len(extends) != count:
            problems.append("%d entries, %d apply_dump calls, %d appends" % (count, len(applies), len(extends)))
        for i, (a, x) in enumerate(zip(applies, extends)):
            ent = "sym:%s.[%d]" % (it, i)
            if a[1][0] != ent:
                problems.append("result %d goes through the dump flag of %s" % (i, a[1][0]))
            # the result handed to apply_dump was built for the same entry (or is the `not supported` error)
            built = a[1][1]
            if not ("%s.[%d]" % (it, i) in built or "Error::new" in built or "Err(" in built):
                problems.append("entry %d: apply_dump receives a result not built for it: %s" % (i, built[:80]))
            if any(("%s.[%d]" % (it, k)) in built for k in range(count) if k != i):
                problems.append("entry %d: apply_dump receives the result of another entry" % i)
            if x[1][0] != "opaque:" + ret.split("opaque:", 1)[-1] and x[1][0] != ret:
                problems.append("output %d is appended to %s, not to the returned stream %s" % (i, x[1][0][:60], ret[:60]))
            if not x[1][1].startswith("opaque:DeriveEntry::apply_dump(%s," % ent):
                problems.append("what is appended for entry %d is not its apply_dump output: %s" % (i, x[1][1][:80]))
        obl.total += 1
        if problems:
            bad += 1
            if bad <= 2:
                # an obligation in solver terms: the path must be infeasible
                m = obl.check_unsat(ex, tag + ":routing", list(r.pc), info=("core", problems, ex))
                if m is not None:
                    structural(out, "core|%s|%s" % (which, problems[0][:60]), "%s: %s" % (core, "; ".join(problems)[:400]))
        else:
            obl.discharged += 1
    if not stuck:
        e3.coverage_check(ex, obl, tag, res)
    if res:
        r = res[-1]
        obl.samples.append({"function": tag, "path_condition": [str(c) for c in r.pc][:8], "events": [(e[0], [a[:70] for a in e[1][:2]]) for e in r.events][:6]})
    log("[C19] %s: %d paths" % (tag, len(res)))


def impl_args_fields():
    src = open(os.path.join(common.REPO, "derive-ex", "src", "item_impl.rs")).read()
    m = re.search(r"\nstruct Args \{(.*?)\n\}", src, re.S)
    return re.findall(r"(\w+)\s*:", m.group(1)) if m else []


def check_item_impl(eng, obl, out):
    names = impl_args_fields()
    if "dump" not in names:
        out.inconclusive.append("fn=build_by_item_impl reason=item_impl::Args has no dump field")
        return
    didx = names.index("dump")
    trace = {"Arguments::new", "Error::new", "Extend::TokenStream::extend", "impl_binary", "impl_assign"}
    ex = eng.executor(slice_bound=1, opaque_local=IMPL_OPAQUE, trace=trace)
    ex.opaque_ok_only = True
    ex.max_paths = 6000
    fn = eng.find("build_by_item_impl")
    res = ex.run(fn, eng.args_for(fn))
    tag = "item_impl::build_by_item_impl"
    stuck = obl.note_paths(tag, res, ex)
    for r in stuck[:2]:
        out.inconclusive.append("fn=%s reason=%s" % (tag, r.value))
    dpat = re.compile(r"opaque-bool\(field%d\(ok-of\(Args::from_attr_args" % didx)

    def dump_atoms(r):
        return [c for c in r.pc if dpat.search(str(c))]

    def gen_events(r):
        return [(e[0], tuple(e[1])) for e in r.events if e[0] in ("Extend::TokenStream::extend", "impl_binary", "impl_assign")]

    groups = {}
    for r in res:
        if r.kind != "return":
            continue
        atoms = dump_atoms(r)
        is_ok = isinstance(r.value, mx.Agg) and r.value.variant == "Ok"
        if is_ok:
            # code is handed back only with dump off
            dv = [n for c in atoms for n in ex._vars_of(c)]
            if not dv:
                obl.total += 1
                structural(out, "item_impl|dump-not-consulted", "build_by_item_impl returns generated code on a path that never looks at `dump`: %s" % [str(c)[:60] for c in r.pc][-4:])
                continue
            obl.check_unsat(ex, tag + ":code-only-without-dump", list(r.pc) + [ex.bvar(dv[0])], info=("impl", "ok", ex), keep_smt=True)
            key = tuple(str(c) for c in r.pc if not dpat.search(str(c)))
            groups.setdefault(key, {})["ok"] = r
        elif atoms and not z3.is_not(atoms[-1]) and atoms[-1] is r.pc[-1]:
            key = tuple(str(c) for c in r.pc if not dpat.search(str(c)))
            groups.setdefault(key, {})["dump"] = r
    for key, g in groups.items():
        obl.total += 1
        if "ok" not in g or "dump" not in g:
            out.inconclusive.append("fn=%s reason=a path with dump %s has no sibling path" % (tag, "off" if "ok" in g else "on"))
            continue
        rd = g["dump"]
        fmt = [e for e in rd.events if e[0] == "Arguments::new" and "dump" in e[1][0]]
        verdict, why = dump_template_verdict("Arguments::new(%s)" % ", ".join(fmt[-1][1])) if fmt else (None, "no dump message found")
        if verdict is None:
            out.inconclusive.append("fn=%s reason=%s" % (tag, why))
            continue
        ret = ex.summ(mx.State(), g["ok"].value.fields[0])
        if verdict is False:
            structural(out, "item_impl|message", "the dump message of build_by_item_impl is not the label followed by the generated code printed with `{}`: %s" % why)
        elif ret.split("opaque:", 1)[-1] not in why:
            structural(out, "item_impl|message-source", "the dump message prints %s, the path without dump returns %s" % (why[:80], ret[:80]))
        elif gen_events(rd) != gen_events(g["ok"]):
            structural(out, "item_impl|different-code", "with dump the stream is built by other steps than without: %s vs %s" % (
                [e[0] for e in gen_events(rd)], [e[0] for e in gen_events(g["ok"])]))
        else:
            obl.discharged += 1
    obl.samples.append({"function": tag, "paths": len(res), "sibling_pairs": len(groups),
                        "obligation": "Ok-path condition AND dump is UNSAT; dump path and its sibling append the same generated pieces and the message prints the returned stream"})
    log("[C19] %s: %d paths, %d sibling pairs" % (tag, len(res), len(groups)))


# ------------------------------------------------------------------------------------------------
# native differential: closes the printing step the executor treats as opaque
# ------------------------------------------------------------------------------------------------
ITEMS = [
    ("struct X { a: u8, b: u8 }", ["Clone", "Default", "Debug", "PartialEq", "Eq", "Hash", "PartialOrd", "Ord", "Add", "AddAssign", "Neg", "Copy"]),
    ("struct X<T> { a: T }", ["Clone", "Default", "Debug", "PartialEq", "Add", "Not"]),
    ("struct X(u8);", ["Deref", "DerefMut", "Clone", "Sub", "SubAssign"]),
    ("enum X { A, B(u8), C { x: u8 } }", ["Clone", "Debug", "PartialEq", "Eq", "PartialOrd", "Ord", "Hash", "Copy"]),
    ("enum X<T> { #[default] A, B(T) }", ["Default", "Clone", "Debug"]),
    ("struct X { #[eq(key = $.len())] a: String, #[debug(ignore)] b: u8 }", ["PartialEq", "Eq", "Debug", "Clone"]),
    # literals whose text contains runs of blanks, a tab and a line break: the dump shows them as they are
    ("struct X { #[default(\"a  b\tc\nd\")] s: String, #[ord(key = $.replace(\"   \", \" \"))] #[default(\"  \")] t: String, #[default('\t')] c: char }", ["Default", "Clone", "PartialEq", "PartialOrd", "Hash", "Debug"]),
]
IMPL_ITEMS = [
    ("impl std::ops::AddAssign<u8> for Y { fn add_assign(&mut self, r: u8) { self.0 += r; } }", "Add"),
    ("impl std::ops::Add<&Y> for &Y { type Output = Y; fn add(self, r: &Y) -> Y { Y(self.0 + r.0) } }", "Add, AddAssign"),
    ("impl std::ops::Sub<&Y> for &Y { type Output = Y; fn sub(self, r: &Y) -> Y { Y(self.0 - r.0) } }", "SubAssign"),
    ("impl std::ops::BitOr<Y> for Y { type Output = Y; fn bitor(self, r: Y) -> Y { Y(self.0 | r.0) } }", "BitOrAssign"),
    ("impl<T: Copy> std::ops::MulAssign<&Z<T>> for Z<T> where T: std::ops::MulAssign { fn mul_assign(&mut self, r: &Z<T>) { self.0 *= r.0; } }", "Mul"),
    ("impl std::ops::Add<K<{ \"a  b\t\".len() }>> for Y { type Output = Y; fn add(self, r: K<{ \"a  b\t\".len() }>) -> Y { self } }", "Add, AddAssign"),
]


_LIT = re.compile("b?r(#*)\".*?\"\\1|b?\"(?:\\\\.|[^\"\\\\])*\"|b?'(?:\\\\.|[^'\\\\])'", re.S)


def tnorm(s):
    """token-string normalisation for the dump comparison: whitespace between tokens does not count, whitespace inside string / char literals does"""
    out, pos = [], 0
    for m in _LIT.finditer(s):
        out.append("".join(s[pos:m.start()].split()))
        out.append(m.group(0))
        pos = m.end()
    out.append("".join(s[pos:].split()))
    return "".join(out)


def trait_of(it):
    """last path segment of the trait of a generated impl"""
    t = common.norm(it.get("trait", ""))
    t = re.sub(r"<.*$", "", t)
    return t.rsplit("::", 1)[-1]


def differential_cases(tier, seed):
    import itertools
    import random
    rng = random.Random(seed)
    cases = []
    for item, traits in ITEMS:
        lists = []
        for k in (1, 2, 3):
            combos = list(itertools.combinations(traits, k))
            rng.shuffle(combos)
            lists += combos[:(3 if tier == "quick" else 12)]
        for tl in lists:
            tl = list(tl)
            if "Copy" in tl and "Clone" not in tl:
                tl.append("Clone")
            if "Eq" in tl and "PartialEq" not in tl:
                tl.append("PartialEq")
            if "Ord" in tl:
                tl += [t for t in ("PartialOrd", "Eq", "PartialEq") if t not in tl]
            if "PartialOrd" in tl and "PartialEq" not in tl:
                tl.append("PartialEq")
            if "DerefMut" in tl and "Deref" not in tl:
                tl.append("Deref")
            rng.shuffle(tl)
            # placements: one per-trait dump, the shared dump, both, and (two stacked lists) a shared dump in the first list only
            k = rng.randrange(len(tl))
            cases.append((item, tl, {tl[k]}, "per-trait"))
            cases.append((item, tl, set(tl), "shared"))
            if len(tl) >= 2:
                cases.append((item, tl, {tl[0]}, "stacked"))
    return cases


def render(item, tl, dumped, how, with_dump, mode):
    """-> (mode, attr, item text)"""
    def ent(t):
        return "%s(dump)" % t if (with_dump and how == "per-trait" and t in dumped) else t
    if how == "stacked":
        first = "#[derive_ex(%s%s)]" % (tl[0], ", dump" if with_dump else "")
        rest = ", ".join(tl[1:])
        if mode == "attr":
            return ("attr", rest, "%s %s" % (first, item))
        return ("derive", "", "%s #[derive_ex(%s)] %s" % (first, rest, item))
    attr = ", ".join(ent(t) for t in tl) + (", dump" if (with_dump and how == "shared") else "")
    if mode == "attr":
        return ("attr", attr, item)
    return ("derive", "", "#[derive_ex(%s)] %s" % (attr, item))


def entry_order(tl, how, mode):
    if how == "stacked" and mode == "attr":
        return tl[1:] + tl[:1]  # the macro's own argument list comes first, further #[derive_ex] attributes after it
    return list(tl)


def compare_dump(plain, dumped_res, order, dumped, mode="attr"):
    """-> None or a description of the difference"""
    pi, di = plain.get("items", []), dumped_res.get("items", [])
    if common.compile_errors(plain) or plain.get("panic"):
        return "skip"
    # the attribute macro re-emits the item first; the derive macro emits generated items only
    k0 = 1 if mode == "attr" else 0
    p0, gen = pi[:k0], pi[k0:]
    pos = 0
    expected = [tnorm(it.get("text", "")) for it in p0]
    for t in order:
        seg = []
        # an entry's output: its impls, plus items that are no impls (hidden assertion functions) directly behind them
        while pos < len(gen) and ((gen[pos].get("kind") == "impl" and trait_of(gen[pos]) == t) or (seg and gen[pos].get("kind") != "impl")):
            seg.append(gen[pos])
            pos += 1
        if not seg:
            return "skip"  # the generated impls cannot be assigned to the list entries by trait name
        if t in dumped:
            expected.append(("dump", tnorm(" ".join(s["text"] for s in seg))))
        else:
            expected += [tnorm(s["text"]) for s in seg]
    if pos != len(gen):
        return "skip"
    got = []
    for it in di:
        if it.get("kind") == "compile_error":
            msg = it.get("msg", "")
            m = re.match(r"\s*[\w ]*:?\s*\n", msg)
            got.append(("dump", tnorm(msg[m.end():] if m else msg)))
        else:
            got.append(tnorm(it.get("text", "")))
    if got == expected:
        return None
    for k, (g, e) in enumerate(zip(got, expected)):
        if g != e:
            return "output item %d differs: with dump %s, expected %s" % (k, str(g)[:160], str(e)[:160])
    return "with dump there are %d output items, expected %d" % (len(got), len(expected))


def compare_impl_dump(plain, dres):
    gen = plain.get("items", [])[1:]
    if common.compile_errors(plain) or not gen:
        return "skip"
    errs = [it for it in dres.get("items", []) if it.get("kind") == "compile_error"]
    others = [common.norm(it.get("text", "")) for it in dres.get("items", []) if it.get("kind") != "compile_error"]
    msg = errs[0]["msg"] if errs else ""
    m = re.match(r"\s*[\w ]*:?\s*\n", msg)
    payload = common.norm(msg[m.end():] if m else msg)
    if len(errs) != 1 or payload != common.norm(" ".join(g["text"] for g in gen)):
        return "the dump message is not the generated impls: %s vs %s" % (payload[:120], common.norm(" ".join(g["text"] for g in gen))[:120])
    if others != [common.norm(plain["items"][0]["text"])]:
        return "the impl item itself is not left as it is"
    return None


def failing_neighbour_cases():
    """(item, trait that cannot be generated for it, traits that can): a dump of one trait shows the same code whether or not a neighbour in the list fails"""
    return [("struct X(u8, u8);", "Deref", ["Clone", "PartialEq"]), ("struct X { a: u8, b: u8 }", "DerefMut", ["Debug"]),
            ("enum X { A, B(u8) }", "Default", ["Clone", "PartialEq"]), ("enum X { #[default] A, #[default] B }", "Default", ["Debug", "Hash"])]


def native_failing_neighbours(out):
    """the traits next to one that cannot be generated: their impls are the same as without it, and their dump shows exactly those impls (native, on the listed inputs)"""
    n = 0
    for item, bad, goods in failing_neighbour_cases():
        for order in ("bad-first", "bad-last", "stacked"):
            for dumped in goods:
                def attr(with_bad, with_dump):
                    ts = ["%s(dump)" % t if (with_dump and t == dumped) else t for t in goods]
                    if not with_bad:
                        return ", ".join(ts), item
                    if order == "stacked":
                        return ", ".join(ts), "#[derive_ex(%s)] %s" % (bad, item)
                    return ", ".join([bad] + ts if order == "bad-first" else ts + [bad]), item
                reqs = [("attr",) + attr(True, False), ("attr",) + attr(True, True), ("attr",) + attr(False, False), ("attr",) + attr(False, True)]
                with_bad, with_bad_dump, alone, alone_dump = common.expand_many(reqs)
                tx = lambda r: [("E", tnorm(it.get("msg", ""))) if it.get("kind") == "compile_error" else ("I", tnorm(it.get("text", ""))) for it in r.get("items", [])[1:]]
                a, b, c, d = tx(with_bad), tx(with_bad_dump), tx(alone), tx(alone_dump)
                n += 1
                # what the good traits generate does not depend on the failing neighbour: removing the neighbour's error from the output gives the output without it
                errs = [x for x in a if x[0] == "E"]
                problem = None
                if len(errs) != 1 or [x for x in a if x[0] == "I"] != c:
                    problem = "next to the failing %s the other traits generate %s, without it %s" % (bad, [x[1][:60] for x in a], [x[1][:60] for x in c])
                elif [x for x in b if x != errs[0]] != d:
                    problem = "next to the failing %s the dump of %s gives %s, without it %s" % (bad, dumped, [x[1][:80] for x in b if x != errs[0]], [x[1][:80] for x in d])
                if problem:
                    case = {"property": PID, "kind": "same_gen", "mode": "attr", "attr": reqs[1][1], "item": reqs[1][2], "other": {"mode": "attr", "attr": reqs[3][1], "item": reqs[3][2]},
                            "only_dumps": True, "explain": problem}
                    path = e3.write_replay(PID, "neighbour%03d" % n, case)
                    out.violation("dump-next-to-failing-trait|%s|%s|%s" % (bad, dumped, order), path, "#[derive_ex(%s)] %s: %s" % (reqs[1][1], reqs[1][2][:100], problem[:400]))
                    return n
    return n


def native_differential(out, tier, seed):
    cases = differential_cases(tier, seed)
    reqs, meta = [], []
    for item, tl, dumped, how in cases:
        for mode in ("attr", "derive"):
            reqs.append(render(item, tl, dumped, how, False, mode))
            reqs.append(render(item, tl, dumped, how, True, mode))
            meta.append((item, tl, dumped, how, mode))
    for item, attr in IMPL_ITEMS:
        reqs.append(("attr", attr, item))
        reqs.append(("attr", attr + ", dump", item))
        meta.append((item, [a.strip() for a in attr.split(",")], None, "impl", "attr"))
    res = common.expand_many(reqs)
    checked = skipped = 0
    for k, (item, tl, dumped, how, mode) in enumerate(meta):
        plain, dres = res[2 * k], res[2 * k + 1]
        if how == "impl":
            d = compare_impl_dump(plain, dres)
        else:
            d = compare_dump(plain, dres, entry_order(tl, how, mode), dumped if how != "shared" else set(tl), mode)
        if d == "skip":
            skipped += 1
            continue
        checked += 1
        if d is not None:
            rq = reqs[2 * k + 1]
            case = {"property": PID, "kind": "dump", "mode": rq[0], "attr": rq[1], "item": rq[2], "plain": {"mode": reqs[2 * k][0], "attr": reqs[2 * k][1], "item": reqs[2 * k][2]},
                    "order": entry_order(tl, how, mode) if how != "impl" else None, "dumped": sorted(dumped if how != "shared" else set(tl)) if how != "impl" else None,
                    "explain": d}
            path = e3.write_replay(PID, "dump%03d" % k, case)
            out.violation("dump-diff|%s|%s|%s" % (how, mode, common.norm(item)[:40]), path, "%s %s: %s" % ("#[derive_ex(%s)]" % rq[1] if rq[0] == "attr" else "#[derive(Ex)]", rq[2][:120], d))
    return checked, skipped


def run(tier):
    t0 = time.time()
    out = common.Outcome(PID)
    eng = mir_engine.Engine()
    obl = e3.Obligations(PID)
    seed = int(os.environ.get("VERIF_SEED", "0"))
    n = 2 if tier == "quick" else 3
    for f, args in ((check_from_args_list, (n,)), (check_apply_dump, ()), (check_core, ("struct", n)), (check_core, ("enum", n)), (check_item_impl, ())):
        try:
            f(eng, obl, out, *args)
        except mx.Inconclusive as e:
            out.inconclusive.append("fn=%s reason=%s" % (f.__name__, e))
        except Exception as e:  # noqa: executor surprise after a refactoring
            out.inconclusive.append("fn=%s reason=executor error %s: %s" % (f.__name__, type(e).__name__, str(e)[:200]))
    for label, model, info in obl.failed:
        if label.startswith("coverage:"):
            out.broken.append("path conditions do not cover the configuration space: " + label)
        elif info and info[0] == "flags":
            replay_flags(out, label, model, info)
        elif info and info[0] == "apply":
            structural(out, "apply_dump|%s" % info[1].split(":")[0], "apply_dump: what is returned (%s) is returned under another condition than documented, e.g. result %s, dump flag %s" % (
                info[1], "Ok" if z3.is_true(model.eval(info[2].ivar("disc(result)", 0, 1) == 0, model_completion=True)) else "Err",
                model.eval(info[2].bvar("self.dump"), model_completion=True)))
        elif info and info[0] == "impl":
            structural(out, "item_impl|code-with-dump", "build_by_item_impl can return generated code although `dump` is set")
    out.inconclusive[:] = list(dict.fromkeys(out.inconclusive))
    checked, skipped = native_differential(out, tier, seed)
    checked += e3.safe_part(out, native_failing_neighbours, out) or 0
    log("[C19] native differential: %d input pairs compared, %d skipped" % (checked, skipped))
    # a structural failure alone is no alarm: the code may only have been restructured. If the behaviour it stands for is wrong, the differential above
    # (or the replayed flag models) has a violation with a native replay; otherwise it is reported as inconclusive
    for key, what in STRUCTURAL:
        if out.violations:
            log("[C19] structural obligation failed as well: %s: %s" % (key, what[:200]))
        else:
            out.inconclusive.append("structure not recognised: %s: %s [%d native dump comparisons behave as documented]" % (key, what[:300], checked))
    del STRUCTURAL[:]
    if tier == "thorough":
        e3.cross_check_solvers(obl, out)
    return e3.finish(
        PID, tier, t0, eng, obl, out,
        rule="every feasible MIR path of DeriveEntry::{from_args_list, apply_dump}, build_by_item_{struct,enum}_core and item_impl::build_by_item_impl is one case; the dump flags of "
             "every list and trait, the presence of per-trait arguments, the builder's result and the derive kinds are symbolic",
        bounds="<=%d attribute lists x <=%d traits each; <=%d entries in the core loops; build_by_item_impl with its helper functions opaque and assumed to succeed "
               "(their error paths leave the function before `dump` is looked at), <=1 element in its loops; native differential: %d (item, trait list, dump placement, entry point) pairs" % (
                   n, n, n, checked),
        outside="the printing of a token stream into the message (`Display for TokenStream`) has no encoding: it is covered only by the native differential on the listed inputs; "
                "that rustc shows the message verbatim; `dump` on variants/fields (not a documented placement)",
        assumptions=["DeriveItemKind::from_ident, Bounds::from, the build_* functions and item_impl's helpers are opaque in these obligations: only where their results flow is examined",
                     "rustc's compact format-template encoding (<len><literal> / 0xC0 placeholder / 0x00 end); an unknown byte makes the obligation INCONCLUSIVE, not a violation"],
        validated=checked)


def replay_flags(out, label, model, info):
    """turn a model of the from_args_list obligation into a concrete attribute list and look at the real expansion"""
    from . import replay_e3
    _, infos, ex, n = info
    tv = lambda e: z3.is_true(model.eval(e, model_completion=True))
    names = ["Clone", "Default", "Debug", "PartialEq", "Hash", "Add", "Sub", "Neg", "Not"]
    nl = model.eval(ex.ivar("len(args_list)", 0, n), model_completion=True).as_long()
    lists, dumped, order = [], [], []
    t = 0
    for i in range(min(nl, n)):
        li = model.eval(ex.ivar("len(args_list.[%d].items)" % i, 0, n), model_completion=True).as_long()
        ents = []
        for j in range(min(li, n)):
            if t >= len(names):
                break
            name = names[t]
            t += 1
            some = tv(ex.ivar("disc(args_list.[%d].items.[%d].args)" % (i, j), 0, 1) == 0)
            own = some and any(tv(ex.bvar(nm)) for nm in ["args_list.[%d].items.[%d].args.<Some>.1.dump" % (i, j), "args_list.[%d].items.[%d].args.<Some>.args.dump" % (i, j)])
            shared = tv(ex.bvar("args_list.[%d].dump" % i))
            ents.append(name + ("(dump)" if own else "()" if some else ""))
            order.append(name)
            if own or shared:
                dumped.append(name)
        lists.append(", ".join(ents + (["dump"] if tv(ex.bvar("args_list.[%d].dump" % i)) else [])))
    if not order:
        out.broken.append("failed obligation %s has no entry to replay" % label)
        return
    item = "struct X { a: u8 }"
    attr = lists[0]
    stacked = " ".join("#[derive_ex(%s)]" % l for l in lists[1:])
    plain_lists = [re.sub(r"\(dump\)|, dump$|^dump$", "", l).replace("()", "") for l in lists]
    case = {"property": PID, "kind": "dump", "mode": "attr", "attr": attr, "item": "%s %s" % (stacked, item),
            "plain": {"mode": "attr", "attr": plain_lists[0], "item": "%s %s" % (" ".join("#[derive_ex(%s)]" % l for l in plain_lists[1:]), item)},
            "order": order, "dumped": dumped, "explain": "dump flags per entry from the solver's model: %s" % (infos,)}
    obs = replay_e3.observe(case)
    if replay_e3.disagrees(case, obs):
        key = "dump-flag|%s" % common.norm(" | ".join(lists))[:80]
        if any(v[0] == key for v in out.violations):
            return
        path = e3.write_replay(PID, "flags-%s" % re.sub(r"\W+", "_", " | ".join(lists))[:60], case)
        out.violation("dump-flag|%s" % common.norm(" | ".join(lists))[:80], path, "the traits whose code is dumped are not the ones the lists ask for: #[derive_ex(%s)] %s %s" % (attr, stacked, item))
    else:
        e3.not_reproduced(out, model, "for %s: #[derive_ex(%s)] %s %s" % (label, attr, stacked, item))
