// Support code copied into every generated harness crate (engine E1, DESIGN.md §2).
// Nothing in here is derived by derive_ex: these are the instrumented field types, the
// symbolic / replay input sources and the key / by callbacks the generated programs use.
#![allow(dead_code, unused_imports, unused_macros, static_mut_refs, clippy::all)]

use core::cmp::Ordering;

// ---------------------------------------------------------------------------------------------
// input sources: KaniSrc = solver-chosen, BytesSrc = replay of a counterexample
// ---------------------------------------------------------------------------------------------
pub trait Src {
    fn u8(&mut self) -> u8;
    fn bool(&mut self) -> bool {
        self.u8() & 1 == 1
    }
    fn i8(&mut self) -> i8 {
        self.u8() as i8
    }
    fn u16(&mut self) -> u16 {
        let lo = self.u8() as u16;
        let hi = self.u8() as u16;
        lo | (hi << 8)
    }
    /// a value in 0..n (variant selectors, option indices)
    fn below(&mut self, n: u8) -> u8 {
        let v = self.u8();
        vassume(v < n);
        v
    }
}

#[cfg(kani)]
pub struct KaniSrc;
#[cfg(kani)]
impl Src for KaniSrc {
    fn u8(&mut self) -> u8 {
        kani::any()
    }
}

pub struct BytesSrc<'a> {
    pub bytes: &'a [u8],
    pub pos: usize,
}
impl<'a> BytesSrc<'a> {
    pub fn new(bytes: &'a [u8]) -> Self {
        Self { bytes, pos: 0 }
    }
}
impl<'a> Src for BytesSrc<'a> {
    fn u8(&mut self) -> u8 {
        let v = self.bytes.get(self.pos).copied().unwrap_or(0);
        self.pos += 1;
        v
    }
}

#[cfg(kani)]
pub fn vassume(c: bool) {
    kani::assume(c)
}
/// natively a violated assumption means the replay bytes do not describe a valid input
#[cfg(not(kani))]
pub fn vassume(c: bool) {
    if !c {
        std::process::exit(3)
    }
}

macro_rules! cover {
    ($c:expr, $m:literal) => {
        #[cfg(all(kani, not(feature = "nocover")))]
        kani::cover!($c, $m);
    };
}
pub(crate) use cover;

/// values constructible from an input source
pub trait Gen: Sized {
    fn gen<S: Src>(s: &mut S) -> Self;
}
/// one-byte payload used by the key / by callbacks
pub trait P {
    fn p(&self) -> u8;
}
impl Gen for u8 {
    fn gen<S: Src>(s: &mut S) -> Self {
        s.u8()
    }
}
impl P for u8 {
    fn p(&self) -> u8 {
        *self
    }
}
impl Gen for i8 {
    fn gen<S: Src>(s: &mut S) -> Self {
        s.i8()
    }
}
impl P for i8 {
    fn p(&self) -> u8 {
        *self as u8
    }
}
impl Gen for bool {
    fn gen<S: Src>(s: &mut S) -> Self {
        s.bool()
    }
}
impl P for bool {
    fn p(&self) -> u8 {
        if *self {
            0xff
        } else {
            0
        }
    }
}
impl Gen for u16 {
    fn gen<S: Src>(s: &mut S) -> Self {
        s.u16()
    }
}
impl P for u16 {
    fn p(&self) -> u8 {
        (*self as u8) ^ ((*self >> 8) as u8)
    }
}
impl<T> Gen for core::marker::PhantomData<T> {
    fn gen<S: Src>(_: &mut S) -> Self {
        core::marker::PhantomData
    }
}

/// Partially ordered: two distinct values that both have the top bit set are incomparable.
#[derive(Debug, Clone, Copy, PartialEq)]
pub struct Po(pub u8);
impl PartialOrd for Po {
    fn partial_cmp(&self, o: &Self) -> Option<Ordering> {
        if self.0 != o.0 && self.0 & 0x80 != 0 && o.0 & 0x80 != 0 {
            None
        } else {
            Some(self.0.cmp(&o.0))
        }
    }
}
impl Gen for Po {
    fn gen<S: Src>(s: &mut S) -> Self {
        Po(s.u8())
    }
}
impl P for Po {
    fn p(&self) -> u8 {
        self.0
    }
}

/// Totally ordered by `Ord`, only partially by `PartialOrd` (like a float wrapper whose `Ord` is `total_cmp`): `partial_cmp` must come from the field's `PartialOrd`.
#[derive(Debug, Clone, Copy, PartialEq, Eq, Hash, Default)]
pub struct Wo(pub u8);
impl Ord for Wo {
    fn cmp(&self, o: &Self) -> Ordering {
        self.0.cmp(&o.0)
    }
}
impl PartialOrd for Wo {
    fn partial_cmp(&self, o: &Self) -> Option<Ordering> {
        if self.0 != o.0 && (self.0 | o.0) & 0x80 != 0 {
            None
        } else {
            Some(self.0.cmp(&o.0))
        }
    }
}
impl Gen for Wo {
    fn gen<S: Src>(s: &mut S) -> Self {
        Wo(s.u8())
    }
}
impl P for Wo {
    fn p(&self) -> u8 {
        self.0
    }
}

/// Not reflexive (like a float holding NaN): a value with the top bit set is neither equal to nor comparable with anything, itself included.
#[derive(Debug, Clone, Copy)]
pub struct Nr(pub u8);
impl PartialEq for Nr {
    fn eq(&self, o: &Self) -> bool {
        self.0 == o.0 && self.0 & 0x80 == 0
    }
}
impl PartialOrd for Nr {
    fn partial_cmp(&self, o: &Self) -> Option<Ordering> {
        if (self.0 | o.0) & 0x80 != 0 {
            None
        } else {
            Some(self.0.cmp(&o.0))
        }
    }
}
impl Gen for Nr {
    fn gen<S: Src>(s: &mut S) -> Self {
        Nr(s.u8())
    }
}
impl P for Nr {
    fn p(&self) -> u8 {
        self.0
    }
}

// --- key / by callbacks: N differs per helper attribute so that precedence is observable -----
pub fn kk<const N: u32, X: P>(x: &X) -> u8 {
    x.p() >> N
}
pub fn by_eq<const N: u32, X: P>(a: &X, b: &X) -> bool {
    (a.p() >> N) == (b.p() >> N)
}
pub fn by_ord<const N: u32, X: P>(a: &X, b: &X) -> Ordering {
    (a.p() >> N).cmp(&(b.p() >> N))
}
/// partial: `None` when the keys differ and both payloads have bit 0 set
pub fn by_po<const N: u32, X: P>(a: &X, b: &X) -> Option<Ordering> {
    let (ka, kb) = (a.p() >> N, b.p() >> N);
    if ka != kb && a.p() & 1 == 1 && b.p() & 1 == 1 {
        None
    } else {
        Some(ka.cmp(&kb))
    }
}
/// total variant used where all callbacks of a field must express one and the same key (C02)
pub fn by_po_total<const N: u32, X: P>(a: &X, b: &X) -> Option<Ordering> {
    Some((a.p() >> N).cmp(&(b.p() >> N)))
}
pub fn by_hash<const N: u32, X: P, H: core::hash::Hasher>(a: &X, h: &mut H) {
    h.write_u8(0xB0 | N as u8);
    h.write_u8(a.p() >> N);
}

// ---------------------------------------------------------------------------------------------
// Rec: a Hasher that records the exact byte feed
// ---------------------------------------------------------------------------------------------
pub const REC_CAP: usize = 16;
#[derive(Clone, Copy)]
pub struct Rec {
    pub buf: [u8; REC_CAP],
    pub len: usize,
    pub overflow: bool,
}
impl Rec {
    pub const fn new() -> Self {
        Rec {
            buf: [0; REC_CAP],
            len: 0,
            overflow: false,
        }
    }
    pub fn same(&self, o: &Rec) -> bool {
        if self.len != o.len || self.overflow != o.overflow {
            return false;
        }
        let mut i = 0;
        while i < REC_CAP {
            if i < self.len && self.buf[i] != o.buf[i] {
                return false;
            }
            i += 1;
        }
        true
    }
    pub fn push(&mut self, b: u8) {
        if self.len < REC_CAP {
            self.buf[self.len] = b;
            self.len += 1;
        } else {
            self.overflow = true;
        }
    }
}
impl core::hash::Hasher for Rec {
    fn finish(&self) -> u64 {
        0
    }
    fn write(&mut self, bytes: &[u8]) {
        let mut i = 0;
        while i < bytes.len() {
            self.push(bytes[i]);
            i += 1;
        }
    }
}

// ---------------------------------------------------------------------------------------------
// call trace shared by the recording types (Clone, operators)
// ---------------------------------------------------------------------------------------------
pub const TRACE_CAP: usize = 12;
#[derive(Clone, Copy, PartialEq, Eq, Debug)]
pub struct Ev {
    pub op: u8,
    pub a: u8,
    pub b: u8,
}
pub static mut TRACE: [Ev; TRACE_CAP] = [Ev { op: 0, a: 0, b: 0 }; TRACE_CAP];
pub static mut TRACE_LEN: usize = 0;
pub fn trace_push(op: u8, a: u8, b: u8) {
    unsafe {
        if TRACE_LEN < TRACE_CAP {
            TRACE[TRACE_LEN] = Ev { op, a, b };
        }
        TRACE_LEN += 1;
    }
}
pub fn trace_len() -> usize {
    unsafe { TRACE_LEN }
}
pub fn trace_at(i: usize) -> Ev {
    unsafe { TRACE[i] }
}
pub fn trace_reset() {
    unsafe {
        TRACE_LEN = 0;
    }
}
pub fn trace_is(expected: &[Ev]) -> bool {
    if trace_len() != expected.len() {
        return false;
    }
    let mut i = 0;
    while i < expected.len() {
        if trace_at(i) != expected[i] {
            return false;
        }
        i += 1;
    }
    true
}

pub const OP_CLONE: u8 = 1;
pub const OP_CLONE_FROM: u8 = 2;

/// R: Clone that records `clone(self)` / `clone_from(self, source)`
#[derive(Debug, PartialEq, Eq)]
pub struct R(pub u8);
impl Clone for R {
    fn clone(&self) -> Self {
        trace_push(OP_CLONE, self.0, 0);
        R(self.0)
    }
    fn clone_from(&mut self, source: &Self) {
        trace_push(OP_CLONE_FROM, self.0, source.0);
        self.0 = source.0;
    }
}
impl Gen for R {
    fn gen<S: Src>(s: &mut S) -> Self {
        R(s.u8())
    }
}

// ---------------------------------------------------------------------------------------------
// W: every operator in every owned / reference form, non-commutative, total, call-recording
// ---------------------------------------------------------------------------------------------
#[derive(Debug, PartialEq, Eq)]
pub struct W(pub u8);
impl Gen for W {
    fn gen<S: Src>(s: &mut S) -> Self {
        W(s.u8())
    }
}
/// a value of any type for `#[default(..)]` expressions of generic fields (never evaluated: the programs that use it only look at which impls exist)
pub fn mk_any<X>() -> X {
    loop {}
}
/// a bound that mentions `Self` in a type's parameter list (`struct T<A: Bnd<Self>>`): implemented by the generated programs for exactly the intended `Self`
pub trait Bnd<X: ?Sized> {}
/// the (non-commutative) result of operator `code` on payloads a, b
pub fn wop(code: u8, a: u8, b: u8) -> u8 {
    a.wrapping_mul(3).wrapping_add(b).wrapping_add(code)
}
fn wbin(code: u8, a: u8, b: u8) -> W {
    trace_push(code, a, b);
    W(wop(code, a, b))
}
pub const ASSIGN: u8 = 16;
macro_rules! w_bin {
    ($tr:ident, $f:ident, $tra:ident, $fa:ident, $code:expr) => {
        impl core::ops::$tr<W> for W {
            type Output = W;
            fn $f(self, r: W) -> W {
                wbin($code, self.0, r.0)
            }
        }
        impl<'b> core::ops::$tr<&'b W> for W {
            type Output = W;
            fn $f(self, r: &'b W) -> W {
                wbin($code, self.0, r.0)
            }
        }
        impl<'a> core::ops::$tr<W> for &'a W {
            type Output = W;
            fn $f(self, r: W) -> W {
                wbin($code, self.0, r.0)
            }
        }
        impl<'a, 'b> core::ops::$tr<&'b W> for &'a W {
            type Output = W;
            fn $f(self, r: &'b W) -> W {
                wbin($code, self.0, r.0)
            }
        }
        impl core::ops::$tra<W> for W {
            fn $fa(&mut self, r: W) {
                trace_push($code + ASSIGN, self.0, r.0);
                self.0 = wop($code + ASSIGN, self.0, r.0);
            }
        }
        impl<'b> core::ops::$tra<&'b W> for W {
            fn $fa(&mut self, r: &'b W) {
                trace_push($code + ASSIGN, self.0, r.0);
                self.0 = wop($code + ASSIGN, self.0, r.0);
            }
        }
    };
}
w_bin!(Add, add, AddAssign, add_assign, 1);
w_bin!(BitAnd, bitand, BitAndAssign, bitand_assign, 2);
w_bin!(BitOr, bitor, BitOrAssign, bitor_assign, 3);
w_bin!(BitXor, bitxor, BitXorAssign, bitxor_assign, 4);
w_bin!(Div, div, DivAssign, div_assign, 5);
w_bin!(Mul, mul, MulAssign, mul_assign, 6);
w_bin!(Rem, rem, RemAssign, rem_assign, 7);
w_bin!(Shl, shl, ShlAssign, shl_assign, 8);
w_bin!(Shr, shr, ShrAssign, shr_assign, 9);
w_bin!(Sub, sub, SubAssign, sub_assign, 10);
macro_rules! w_un {
    ($tr:ident, $f:ident, $code:expr) => {
        impl core::ops::$tr for W {
            type Output = W;
            fn $f(self) -> W {
                wbin($code, self.0, 0)
            }
        }
        impl<'a> core::ops::$tr for &'a W {
            type Output = W;
            fn $f(self) -> W {
                wbin($code, self.0, 0)
            }
        }
    };
}
w_un!(Neg, neg, 40);
w_un!(Not, not, 41);

// ---------------------------------------------------------------------------------------------
// C11 (Default): symbolic seeds read by user default expressions, conversion-observing types
// ---------------------------------------------------------------------------------------------
pub static mut SEEDS: [u8; 4] = [0; 4];
pub fn set_seeds<S: Src>(s: &mut S) {
    unsafe {
        SEEDS = [s.u8(), s.u8(), s.u8(), s.u8()];
    }
}
pub fn sd(i: usize) -> u8 {
    unsafe { SEEDS[i] }
}
pub const K0: u8 = 9;
/// a constant whose type reaches a `&[u8]` field by unsize coercion only (there is no `From<&[u8; 3]> for &[u8]`)
pub const BYTES3: &[u8; 3] = &[1, 2, 3];
pub struct Cfg;
impl Cfg {
    pub const K: u8 = 11;
}
/// `via` tells how the value was produced: 0 = built directly, 1 = From<u8>, 2 = From<&str>, 9 = Default
#[derive(Debug, Clone, Copy, PartialEq, Eq)]
pub struct M {
    pub v: u8,
    pub via: u8,
}
impl M {
    pub const fn direct(v: u8) -> M {
        M { v, via: 0 }
    }
}
pub const KM: M = M::direct(5);
impl From<u8> for M {
    fn from(v: u8) -> M {
        M { v, via: 1 }
    }
}
impl<'a> From<&'a str> for M {
    fn from(s: &'a str) -> M {
        M { v: s.len() as u8, via: 2 }
    }
}
impl Default for M {
    fn default() -> M {
        M { v: 0xD7, via: 9 }
    }
}
#[derive(Debug, Clone, Copy, PartialEq, Eq)]
pub enum Mode {
    Slow,
    Fast,
}
impl Default for Mode {
    fn default() -> Mode {
        Mode::Slow
    }
}

// ---------------------------------------------------------------------------------------------
// Debug observation (C10 / C12): a fixed-size fmt::Write sink and a field type that echoes the
// formatter flags it receives
// ---------------------------------------------------------------------------------------------
pub const SINK_CAP: usize = 64;
pub struct Sink {
    pub buf: [u8; SINK_CAP],
    pub len: usize,
    pub overflow: bool,
}
impl Sink {
    pub const fn new() -> Self {
        Sink {
            buf: [0; SINK_CAP],
            len: 0,
            overflow: false,
        }
    }
    pub fn same(&self, o: &Sink) -> bool {
        if self.len != o.len || self.overflow != o.overflow {
            return false;
        }
        self.buf == o.buf
    }
}
impl core::fmt::Write for Sink {
    fn write_str(&mut self, s: &str) -> core::fmt::Result {
        let b = s.as_bytes();
        if self.len + b.len() > SINK_CAP {
            self.overflow = true;
            return Ok(());
        }
        self.buf[self.len..self.len + b.len()].copy_from_slice(b);
        self.len += b.len();
        Ok(())
    }
}
/// F prints one value-dependent byte and one byte describing the formatter flags it was given
#[derive(Clone, Copy, PartialEq, Eq)]
pub struct F(pub u8);
impl core::fmt::Debug for F {
    fn fmt(&self, f: &mut core::fmt::Formatter<'_>) -> core::fmt::Result {
        use core::fmt::Write;
        let mut flags = 0u8;
        if f.alternate() {
            flags |= 1;
        }
        if f.sign_plus() {
            flags |= 2;
        }
        if f.sign_minus() {
            flags |= 4;
        }
        if f.sign_aware_zero_pad() {
            flags |= 8;
        }
        if f.width().is_some() {
            flags |= 16;
        }
        if f.precision().is_some() {
            flags |= 32;
        }
        f.write_char((b'a' + (self.0 & 15)) as char)?;
        f.write_char((b'A' + (self.0 >> 4)) as char)?;
        f.write_char((b'0' + flags) as char)
    }
}
impl Gen for F {
    fn gen<S: Src>(s: &mut S) -> Self {
        F(s.u8())
    }
}

// ---------------------------------------------------------------------------------------------
// Snap: structural copy / comparison that never goes through Clone (C07 reference runs)
// ---------------------------------------------------------------------------------------------
pub trait Snap: Sized {
    fn snap(&self) -> Self;
    fn same(&self, o: &Self) -> bool;
}
impl Snap for R {
    fn snap(&self) -> Self {
        R(self.0)
    }
    fn same(&self, o: &Self) -> bool {
        self.0 == o.0
    }
}
impl Snap for u8 {
    fn snap(&self) -> Self {
        *self
    }
    fn same(&self, o: &Self) -> bool {
        *self == *o
    }
}
impl<'a, X: Snap> Snap for &'a X {
    fn snap(&self) -> Self {
        *self
    }
    /// references are compared by address: a clone of `&X` must be the same reference
    fn same(&self, o: &Self) -> bool {
        core::ptr::eq(*self, *o)
    }
}
impl<X: Snap, Y: Snap> Snap for (X, Y) {
    fn snap(&self) -> Self {
        (self.0.snap(), self.1.snap())
    }
    fn same(&self, o: &Self) -> bool {
        self.0.same(&o.0) && self.1.same(&o.1)
    }
}
impl<X: Snap> Snap for [X; 2] {
    fn snap(&self) -> Self {
        [self[0].snap(), self[1].snap()]
    }
    fn same(&self, o: &Self) -> bool {
        self[0].same(&o[0]) && self[1].same(&o[1])
    }
}
impl<X: Snap> Snap for Option<X> {
    fn snap(&self) -> Self {
        match self {
            Some(x) => Some(x.snap()),
            None => None,
        }
    }
    fn same(&self, o: &Self) -> bool {
        match (self, o) {
            (Some(a), Some(b)) => a.same(b),
            (None, None) => true,
            _ => false,
        }
    }
}
impl<X> Snap for core::marker::PhantomData<X> {
    fn snap(&self) -> Self {
        core::marker::PhantomData
    }
    fn same(&self, _: &Self) -> bool {
        true
    }
}
impl<X: Gen, Y: Gen> Gen for (X, Y) {
    fn gen<S: Src>(s: &mut S) -> Self {
        (X::gen(s), Y::gen(s))
    }
}
impl<X: Gen> Gen for [X; 2] {
    fn gen<S: Src>(s: &mut S) -> Self {
        [X::gen(s), X::gen(s)]
    }
}
impl<X: Gen> Gen for Option<X> {
    fn gen<S: Src>(s: &mut S) -> Self {
        if s.bool() {
            Some(X::gen(s))
        } else {
            None
        }
    }
}
/// RC: `Copy` with a hand-written, call-recording `Clone`
#[derive(Debug, PartialEq, Eq, Copy)]
pub struct RC(pub u8);
impl Clone for RC {
    fn clone(&self) -> Self {
        trace_push(OP_CLONE, self.0, 0xC);
        RC(self.0)
    }
    fn clone_from(&mut self, source: &Self) {
        trace_push(OP_CLONE_FROM, self.0, source.0);
        self.0 = source.0;
    }
}
impl Gen for RC {
    fn gen<S: Src>(s: &mut S) -> Self {
        RC(s.u8())
    }
}
impl Snap for RC {
    fn snap(&self) -> Self {
        RC(self.0)
    }
    fn same(&self, o: &Self) -> bool {
        self.0 == o.0
    }
}
/// call-recording Clone next to every other derivable trait, so that Clone can be derived together with any of them
#[derive(Debug, PartialEq, Eq, PartialOrd, Ord, Hash, Default)]
pub struct RE(pub u8);
impl Clone for RE {
    fn clone(&self) -> Self {
        trace_push(OP_CLONE, self.0, 0xE);
        RE(self.0)
    }
    fn clone_from(&mut self, source: &Self) {
        trace_push(OP_CLONE_FROM, self.0, source.0);
        self.0 = source.0;
    }
}
impl Gen for RE {
    fn gen<S: Src>(s: &mut S) -> Self {
        RE(s.u8())
    }
}
impl Snap for RE {
    fn snap(&self) -> Self {
        RE(self.0)
    }
    fn same(&self, o: &Self) -> bool {
        self.0 == o.0
    }
}
/// a saved copy of the call trace
#[derive(Clone, Copy)]
pub struct TraceCopy {
    pub ev: [Ev; 12],
    pub len: usize,
}
pub fn trace_take() -> TraceCopy {
    let mut t = TraceCopy { ev: [Ev { op: 0, a: 0, b: 0 }; 12], len: trace_len() };
    let mut i = 0;
    while i < 12 {
        if i < t.len {
            t.ev[i] = trace_at(i);
        }
        i += 1;
    }
    trace_reset();
    t
}
pub fn trace_same(a: &TraceCopy, b: &TraceCopy) -> bool {
    if a.len != b.len || a.len > 12 {
        return false;
    }
    let mut i = 0;
    while i < 12 {
        if i < a.len && a.ev[i] != b.ev[i] {
            return false;
        }
        i += 1;
    }
    true
}

// ---------------------------------------------------------------------------------------------
// C13 (hygiene): a field type whose *inherent* methods carry the names of the trait methods the
// generated code must call, and return wrong results. UFCS / fully qualified calls are not affected.
// ---------------------------------------------------------------------------------------------
#[derive(Debug)]
pub struct Evil(pub u8);
impl Evil {
    pub fn clone(&self) -> Evil {
        Evil(0xEE)
    }
    pub fn clone_from(&mut self, _source: &Evil) {
        self.0 = 0xEE;
    }
    pub fn eq(&self, _other: &Evil) -> bool {
        true
    }
    pub fn ne(&self, _other: &Evil) -> bool {
        true
    }
    pub fn partial_cmp(&self, _other: &Evil) -> Option<Ordering> {
        None
    }
    pub fn cmp(&self, _other: &Evil) -> Ordering {
        Ordering::Greater
    }
    pub fn hash<H: core::hash::Hasher>(&self, state: &mut H) {
        state.write_u8(0xEE);
    }
    pub fn default() -> Evil {
        Evil(0xEE)
    }
    pub fn add(self, _rhs: Evil) -> Evil {
        Evil(0xEE)
    }
    pub fn neg(self) -> Evil {
        Evil(0xEE)
    }
    pub fn into(self) -> u8 {
        0xEE
    }
}
impl Clone for Evil {
    fn clone(&self) -> Evil {
        Evil(self.0)
    }
}
impl PartialEq for Evil {
    fn eq(&self, o: &Evil) -> bool {
        self.0 == o.0
    }
}
impl Eq for Evil {}
impl PartialOrd for Evil {
    fn partial_cmp(&self, o: &Evil) -> Option<Ordering> {
        Some(self.0.cmp(&o.0))
    }
}
impl Ord for Evil {
    fn cmp(&self, o: &Evil) -> Ordering {
        self.0.cmp(&o.0)
    }
}
impl core::hash::Hash for Evil {
    fn hash<H: core::hash::Hasher>(&self, state: &mut H) {
        state.write_u8(self.0);
    }
}
impl Default for Evil {
    fn default() -> Evil {
        Evil(7)
    }
}
impl core::ops::Add for Evil {
    type Output = Evil;
    fn add(self, r: Evil) -> Evil {
        Evil(wop(1, self.0, r.0))
    }
}
impl<'a> core::ops::Add<&'a Evil> for Evil {
    type Output = Evil;
    fn add(self, r: &'a Evil) -> Evil {
        Evil(wop(1, self.0, r.0))
    }
}
impl<'a> core::ops::Add<Evil> for &'a Evil {
    type Output = Evil;
    fn add(self, r: Evil) -> Evil {
        Evil(wop(1, self.0, r.0))
    }
}
impl<'a, 'b> core::ops::Add<&'b Evil> for &'a Evil {
    type Output = Evil;
    fn add(self, r: &'b Evil) -> Evil {
        Evil(wop(1, self.0, r.0))
    }
}
impl core::ops::Neg for Evil {
    type Output = Evil;
    fn neg(self) -> Evil {
        Evil(wop(40, self.0, 0))
    }
}
impl<'a> core::ops::Neg for &'a Evil {
    type Output = Evil;
    fn neg(self) -> Evil {
        Evil(wop(40, self.0, 0))
    }
}
impl Gen for Evil {
    fn gen<S: Src>(s: &mut S) -> Self {
        Evil(s.u8())
    }
}
impl P for Evil {
    fn p(&self) -> u8 {
        self.0
    }
}
/// the names a use site may shadow (glob-imported by the hostile scopes of C13)
pub mod hostile {
    #![allow(non_camel_case_types, dead_code, non_upper_case_globals)]
    pub struct Option;
    pub struct Some;
    pub struct None;
    pub struct Result;
    pub struct Ok;
    pub struct Err;
    pub struct Ordering;
    pub struct Default;
    pub struct Clone;
    pub struct Copy;
    pub struct PartialEq;
    pub struct PartialOrd;
    pub struct Ord;
    pub struct Hash;
    pub struct Hasher;
    pub struct Debug;
    pub struct Formatter;
    pub struct Into;
    pub struct From;
    pub struct Box;
    pub struct Vec;
    pub struct String;
    pub struct Sized;
    pub struct Deref;
    pub struct DerefMut;
    pub struct Add;
    pub struct Neg;
    pub struct PhantomData;
    pub fn drop() {}
    pub mod core {}
    pub mod std {}
}
/// names whose shadowing breaks the *unmodified* macro are kept apart so that the finding stays individually visible
pub mod hostile_eq_fn {
    #![allow(non_camel_case_types, dead_code)]
    pub struct Eq;
    pub struct Fn;
}
impl Default for R {
    fn default() -> Self {
        R(0)
    }
}

// ---------------------------------------------------------------------------------------------------------------
// "does this type implement that trait?" as a compile-time constant (inherent associated const shadows the trait's
// one when its bounds hold). Used by the C03 instantiation programs: the verdict is rustc's trait solver's.
// ---------------------------------------------------------------------------------------------------------------
pub trait NotImpl {
    const V: bool = false;
}
impl<T: ?Sized> NotImpl for T {}
macro_rules! probe {
    ($name:ident, $($b:tt)*) => {
        pub struct $name<T: ?Sized>(core::marker::PhantomData<T>);
        impl<T: ?Sized + $($b)*> $name<T> {
            pub const V: bool = true;
        }
    };
}
probe!(IsClone, Clone);
probe!(IsCopy, Copy);
probe!(IsDebug, core::fmt::Debug);
probe!(IsDefault, Default);
probe!(IsPartialEq, PartialEq);
probe!(IsEq, Eq);
probe!(IsPartialOrd, PartialOrd);
probe!(IsOrd, Ord);
probe!(IsHash, core::hash::Hash);
probe!(IsDeref, core::ops::Deref);
probe!(IsDerefMut, core::ops::DerefMut);
pub struct IsAddVV<T>(core::marker::PhantomData<T>);
impl<T: core::ops::Add<T, Output = T>> IsAddVV<T> { pub const V: bool = true; }
pub struct IsNegV<T>(core::marker::PhantomData<T>);
impl<T: core::ops::Neg<Output = T>> IsNegV<T> { pub const V: bool = true; }
pub struct IsAddAssignV<T>(core::marker::PhantomData<T>);
impl<T: core::ops::AddAssign<T>> IsAddAssignV<T> { pub const V: bool = true; }
pub struct IsAddVR<T>(core::marker::PhantomData<T>);
impl<T> IsAddVR<T> where T: for<'x> core::ops::Add<&'x T, Output = T> { pub const V: bool = true; }
pub struct IsAddRV<T>(core::marker::PhantomData<T>);
impl<T> IsAddRV<T> where for<'x> &'x T: core::ops::Add<T, Output = T> { pub const V: bool = true; }
pub struct IsAddRR<T>(core::marker::PhantomData<T>);
impl<T> IsAddRR<T> where for<'x> &'x T: core::ops::Add<&'x T, Output = T> { pub const V: bool = true; }
pub struct IsNegR<T>(core::marker::PhantomData<T>);
impl<T> IsNegR<T> where for<'x> &'x T: core::ops::Neg<Output = T> { pub const V: bool = true; }
pub struct IsAddAssignR<T>(core::marker::PhantomData<T>);
impl<T> IsAddAssignR<T> where T: for<'x> core::ops::AddAssign<&'x T> { pub const V: bool = true; }

/// a type parameter with a declared bound and an associated type
pub trait HasOut {
    type Out;
}
/// probe types: which traits they implement is in the name
#[derive(Clone, Copy, Debug, Default, PartialEq, Eq, PartialOrd, Ord, Hash)]
pub struct PAll(pub u8);
pub struct PNone(pub u8);
#[derive(Clone)]
pub struct PClone(pub u8);
#[derive(Clone, Copy)]
pub struct PCopy(pub u8);
#[derive(Debug)]
pub struct PDebug(pub u8);
#[derive(Default)]
pub struct PDefault(pub u8);
#[derive(PartialEq)]
pub struct PPartialEq(pub u8);
#[derive(PartialEq, Eq)]
pub struct PEq(pub u8);
#[derive(PartialEq, PartialOrd)]
pub struct PPartialOrd(pub u8);
#[derive(PartialEq, Eq, PartialOrd, Ord)]
pub struct POrd(pub u8);
#[derive(Hash)]
pub struct PHash(pub u8);
pub struct PAddVV(pub u8);
pub struct PAddRR(pub u8);
/// `&P + &P` only when both borrows share one lifetime (what `for<'a> &'a F: Add<&'a F>` asks for, and no more)
pub struct PAddTied(pub u8);
pub struct PNegV(pub u8);
pub struct PNegR(pub u8);
pub struct PAddAssignV(pub u8);
pub struct PAddAssignR(pub u8);
macro_rules! has_out { ($($t:ident),*) => { $(impl HasOut for $t { type Out = $t; })* } }
has_out!(PAll, PNone, PClone, PCopy, PDebug, PDefault, PPartialEq, PEq, PPartialOrd, POrd, PHash, PAddVV, PAddRR, PAddTied, PNegV, PNegR, PAddAssignV, PAddAssignR);
impl core::ops::Add<PAll> for PAll { type Output = PAll; fn add(self, r: PAll) -> PAll { PAll(self.0 ^ r.0) } }
impl<'x> core::ops::Add<&'x PAll> for PAll { type Output = PAll; fn add(self, r: &PAll) -> PAll { PAll(self.0 ^ r.0) } }
impl<'x> core::ops::Add<PAll> for &'x PAll { type Output = PAll; fn add(self, r: PAll) -> PAll { PAll(self.0 ^ r.0) } }
impl<'x, 'y> core::ops::Add<&'y PAll> for &'x PAll { type Output = PAll; fn add(self, r: &PAll) -> PAll { PAll(self.0 ^ r.0) } }
impl core::ops::AddAssign<PAll> for PAll { fn add_assign(&mut self, r: PAll) { self.0 ^= r.0 } }
impl<'x> core::ops::AddAssign<&'x PAll> for PAll { fn add_assign(&mut self, r: &PAll) { self.0 ^= r.0 } }
impl core::ops::Neg for PAll { type Output = PAll; fn neg(self) -> PAll { self } }
impl<'x> core::ops::Neg for &'x PAll { type Output = PAll; fn neg(self) -> PAll { PAll(self.0) } }
impl core::ops::Add<PAddVV> for PAddVV { type Output = PAddVV; fn add(self, _r: PAddVV) -> PAddVV { self } }
impl<'x, 'y> core::ops::Add<&'y PAddRR> for &'x PAddRR { type Output = PAddRR; fn add(self, _r: &PAddRR) -> PAddRR { PAddRR(self.0) } }
impl<'x> core::ops::Add<&'x PAddTied> for &'x PAddTied { type Output = PAddTied; fn add(self, _r: &'x PAddTied) -> PAddTied { PAddTied(self.0) } }
impl core::ops::Neg for PNegV { type Output = PNegV; fn neg(self) -> PNegV { self } }
impl<'x> core::ops::Neg for &'x PNegR { type Output = PNegR; fn neg(self) -> PNegR { PNegR(self.0) } }
impl core::ops::AddAssign<PAddAssignV> for PAddAssignV { fn add_assign(&mut self, _r: PAddAssignV) {} }
impl<'x> core::ops::AddAssign<&'x PAddAssignR> for PAddAssignR { fn add_assign(&mut self, _r: &PAddAssignR) {} }

// marker traits and probe types for the bound(..) resolution programs (C04): PMall has every marker, PMx<k> every marker but Mk<k>, PStd the std traits but no marker; a marker implies the std traits the generated bodies need
macro_rules! mk_traits { ($($m:ident),*) => { $(pub trait $m: Clone + Copy + core::fmt::Debug + Default + PartialEq + PartialOrd + core::hash::Hash {})* } }
mk_traits!(Mk0, Mk1, Mk2, Mk3, Mk4, Mk5, Mk6, Mk7, Mk8, Mk9, Mk10, Mk11, Mk12, Mk13, Mk14, Mk15);
macro_rules! mk_impl { ($t:ident: $($m:ident),*) => { $(impl $m for $t {})* } }
#[derive(Clone, Copy, Debug, Default, PartialEq, Eq, PartialOrd, Ord, Hash)]
pub struct PMall(pub u8);
mk_impl!(PMall: Mk0, Mk1, Mk2, Mk3, Mk4, Mk5, Mk6, Mk7, Mk8, Mk9, Mk10, Mk11, Mk12, Mk13, Mk14, Mk15);
#[derive(Clone, Copy, Debug, Default, PartialEq, Eq, PartialOrd, Ord, Hash)]
pub struct PStd(pub u8);
#[derive(Clone, Copy, Debug, Default, PartialEq, Eq, PartialOrd, Ord, Hash)]
pub struct PMx0(pub u8);
mk_impl!(PMx0: Mk1, Mk2, Mk3, Mk4, Mk5, Mk6, Mk7, Mk8, Mk9, Mk10, Mk11, Mk12, Mk13, Mk14, Mk15);
#[derive(Clone, Copy, Debug, Default, PartialEq, Eq, PartialOrd, Ord, Hash)]
pub struct PMx1(pub u8);
mk_impl!(PMx1: Mk0, Mk2, Mk3, Mk4, Mk5, Mk6, Mk7, Mk8, Mk9, Mk10, Mk11, Mk12, Mk13, Mk14, Mk15);
#[derive(Clone, Copy, Debug, Default, PartialEq, Eq, PartialOrd, Ord, Hash)]
pub struct PMx2(pub u8);
mk_impl!(PMx2: Mk0, Mk1, Mk3, Mk4, Mk5, Mk6, Mk7, Mk8, Mk9, Mk10, Mk11, Mk12, Mk13, Mk14, Mk15);
#[derive(Clone, Copy, Debug, Default, PartialEq, Eq, PartialOrd, Ord, Hash)]
pub struct PMx3(pub u8);
mk_impl!(PMx3: Mk0, Mk1, Mk2, Mk4, Mk5, Mk6, Mk7, Mk8, Mk9, Mk10, Mk11, Mk12, Mk13, Mk14, Mk15);
#[derive(Clone, Copy, Debug, Default, PartialEq, Eq, PartialOrd, Ord, Hash)]
pub struct PMx4(pub u8);
mk_impl!(PMx4: Mk0, Mk1, Mk2, Mk3, Mk5, Mk6, Mk7, Mk8, Mk9, Mk10, Mk11, Mk12, Mk13, Mk14, Mk15);
#[derive(Clone, Copy, Debug, Default, PartialEq, Eq, PartialOrd, Ord, Hash)]
pub struct PMx5(pub u8);
mk_impl!(PMx5: Mk0, Mk1, Mk2, Mk3, Mk4, Mk6, Mk7, Mk8, Mk9, Mk10, Mk11, Mk12, Mk13, Mk14, Mk15);
#[derive(Clone, Copy, Debug, Default, PartialEq, Eq, PartialOrd, Ord, Hash)]
pub struct PMx6(pub u8);
mk_impl!(PMx6: Mk0, Mk1, Mk2, Mk3, Mk4, Mk5, Mk7, Mk8, Mk9, Mk10, Mk11, Mk12, Mk13, Mk14, Mk15);
#[derive(Clone, Copy, Debug, Default, PartialEq, Eq, PartialOrd, Ord, Hash)]
pub struct PMx7(pub u8);
mk_impl!(PMx7: Mk0, Mk1, Mk2, Mk3, Mk4, Mk5, Mk6, Mk8, Mk9, Mk10, Mk11, Mk12, Mk13, Mk14, Mk15);
#[derive(Clone, Copy, Debug, Default, PartialEq, Eq, PartialOrd, Ord, Hash)]
pub struct PMx8(pub u8);
mk_impl!(PMx8: Mk0, Mk1, Mk2, Mk3, Mk4, Mk5, Mk6, Mk7, Mk9, Mk10, Mk11, Mk12, Mk13, Mk14, Mk15);
#[derive(Clone, Copy, Debug, Default, PartialEq, Eq, PartialOrd, Ord, Hash)]
pub struct PMx9(pub u8);
mk_impl!(PMx9: Mk0, Mk1, Mk2, Mk3, Mk4, Mk5, Mk6, Mk7, Mk8, Mk10, Mk11, Mk12, Mk13, Mk14, Mk15);
#[derive(Clone, Copy, Debug, Default, PartialEq, Eq, PartialOrd, Ord, Hash)]
pub struct PMx10(pub u8);
mk_impl!(PMx10: Mk0, Mk1, Mk2, Mk3, Mk4, Mk5, Mk6, Mk7, Mk8, Mk9, Mk11, Mk12, Mk13, Mk14, Mk15);
#[derive(Clone, Copy, Debug, Default, PartialEq, Eq, PartialOrd, Ord, Hash)]
pub struct PMx11(pub u8);
mk_impl!(PMx11: Mk0, Mk1, Mk2, Mk3, Mk4, Mk5, Mk6, Mk7, Mk8, Mk9, Mk10, Mk12, Mk13, Mk14, Mk15);
#[derive(Clone, Copy, Debug, Default, PartialEq, Eq, PartialOrd, Ord, Hash)]
pub struct PMx12(pub u8);
mk_impl!(PMx12: Mk0, Mk1, Mk2, Mk3, Mk4, Mk5, Mk6, Mk7, Mk8, Mk9, Mk10, Mk11, Mk13, Mk14, Mk15);
#[derive(Clone, Copy, Debug, Default, PartialEq, Eq, PartialOrd, Ord, Hash)]
pub struct PMx13(pub u8);
mk_impl!(PMx13: Mk0, Mk1, Mk2, Mk3, Mk4, Mk5, Mk6, Mk7, Mk8, Mk9, Mk10, Mk11, Mk12, Mk14, Mk15);
#[derive(Clone, Copy, Debug, Default, PartialEq, Eq, PartialOrd, Ord, Hash)]
pub struct PMx14(pub u8);
mk_impl!(PMx14: Mk0, Mk1, Mk2, Mk3, Mk4, Mk5, Mk6, Mk7, Mk8, Mk9, Mk10, Mk11, Mk12, Mk13, Mk15);
#[derive(Clone, Copy, Debug, Default, PartialEq, Eq, PartialOrd, Ord, Hash)]
pub struct PMx15(pub u8);
mk_impl!(PMx15: Mk0, Mk1, Mk2, Mk3, Mk4, Mk5, Mk6, Mk7, Mk8, Mk9, Mk10, Mk11, Mk12, Mk13, Mk14);

/// addressable constants for reference-typed fields
pub static ZZ: [u8; 4] = [7, 9, 11, 13];
