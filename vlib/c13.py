"""C13 — generated code is hygienic: user-chosen names never change its meaning (E1, silent-capture clause).

Representative programs of every derivable trait family are written under a hostile environment: field / variant / type / parameter names taken from the
identifiers the expansion itself introduces, a use-site scope whose glob import shadows prelude and core names, and field types whose *inherent* methods carry
the names of the trait methods (returning wrong results). The oracles are the unchanged references of the other checks, so Kani decides for all values that
the derived impls still compute the same. Whether a renamed program compiles at all is rustc's verdict and is reported as such.
"""
import random
import time

from . import common, e1, kani_runner

PID = "C13"

SCOPE_HEAD = """pub mod scope {
    #![allow(unused_imports, non_camel_case_types)]
    use crate::support::hostile::*;
%(extra_use)s    use derive_ex::{derive_ex, Ex};
    use crate::support::{Evil, R, W, F, M};
%(items)s
}
use scope::*;
"""


def prog(name, pid, title, items, check, extra_use="", unwind=None, nontrivial=True):
    src = e1.HEADER.format(pid=PID, name=name, desc=title)
    src += SCOPE_HEAD % {"items": "\n".join("    " + l for l in items.strip("\n").splitlines()), "extra_use": extra_use}
    src += "\n" + check.strip("\n") + "\n\n" + e1.harness(unwind=unwind)
    return kani_runner.Program(name, src, pid, title, nontrivial)


CMP_ORACLE = """
fn lex(a: &[u8], b: &[u8]) -> Ordering {
    let mut i = 0;
    while i < a.len() {
        if a[i] != b[i] {
            return a[i].cmp(&b[i]);
        }
        i += 1;
    }
    Ordering::Equal
}
"""


def programs(tier):
    P = []

    def add(pid, title, items, check, **kw):
        P.append(prog("p%05d" % len(P), pid, title, items, check, **kw))

    # 1. comparison family, struct: field names are the expansion's own locals
    for names in (("this", "other", "o"), ("state", "to_index", "cmp"), ("eq", "partial_cmp", "hash")):
        a, b, c = names
        add("cmp-struct|%s" % "+".join(names), "comparison traits on a struct whose fields are called %s, inherent-method field type, shadowed prelude" % (names,),
            """
#[derive_ex(PartialEq, Eq, PartialOrd, Ord, Hash)]
pub struct T { pub %s: Evil, #[ord(key = crate::support::kk::<1, _>(&$))] pub %s: Evil, #[ord(reverse)] pub %s: Evil }
""" % (a, b, c), CMP_ORACLE + """
pub fn check<S: Src>(s: &mut S) {
    let (x0, x1, x2, y0, y1, y2) = (s.u8(), s.u8(), s.u8(), s.u8(), s.u8(), s.u8());
    let x = T { %(a)s: Evil(x0), %(b)s: Evil(x1), %(c)s: Evil(x2) };
    let y = T { %(a)s: Evil(y0), %(b)s: Evil(y1), %(c)s: Evil(y2) };
    // the third field is compared in reverse order
    let r = lex(&[x0, x1 >> 1, 255 - x2], &[y0, y1 >> 1, 255 - y2]);
    cover!(r == Ordering::Less, "less");
    cover!(r == Ordering::Equal, "equal");
    assert!((x == y) == (r == Ordering::Equal), "eq");
    assert!(x.partial_cmp(&y) == Some(r), "partial_cmp");
    assert!(x.cmp(&y) == r, "cmp");
    let mut h = Rec::new();
    Hash::hash(&x, &mut h);
    assert!(h.len == 3 && h.buf[0] == x0 && h.buf[1] == x1 >> 1 && h.buf[2] == x2, "hash-feed");
}
""" % {"a": a, "b": b, "c": c}, unwind=18)
    # 2. comparison family, enum whose variants are called like prelude variants
    add("cmp-enum|None+Some+Ok", "comparison traits on an enum with variants None / Some / Ok and fields this / other",
        """
#[derive_ex(PartialEq, Eq, PartialOrd, Ord, Hash)]
pub enum T { None, Some(Evil), Ok { this: Evil, other: Evil } }
""", CMP_ORACLE + """
fn mk<S: Src>(s: &mut S) -> (T, [u8; 3]) {
    match s.below(3) {
        0 => (T::None, [0, 0, 0]),
        1 => { let a = s.u8(); (T::Some(Evil(a)), [1, a, 0]) }
        _ => { let (a, b) = (s.u8(), s.u8()); (T::Ok { this: Evil(a), other: Evil(b) }, [2, a, b]) }
    }
}
pub fn check<S: Src>(s: &mut S) {
    let (x, kx) = mk(s);
    let (y, ky) = mk(s);
    let r = lex(&kx, &ky);
    cover!(kx[0] != ky[0], "different-variants");
    cover!(r == Ordering::Equal, "equal");
    assert!((x == y) == (r == Ordering::Equal), "eq");
    assert!(x.partial_cmp(&y) == Some(r), "partial_cmp");
    assert!(x.cmp(&y) == r, "cmp");
    let mut h = Rec::new();
    Hash::hash(&x, &mut h);
    let want: usize = if kx[0] == 0 { 0 } else if kx[0] == 1 { 1 } else { 2 };
    assert!(h.len == want && (want < 1 || h.buf[0] == kx[1]) && (want < 2 || h.buf[1] == kx[2]), "hash-feed");
}
""", unwind=18)
    # 2b. generic parameters spelled as raw identifiers / called like the expansion's generics, used in field types (default bounds must still be found)
    add("clone-cmp|raw-type-parameter", "a type parameter spelled r#type used in field types",
        """
#[derive_ex(Clone, PartialEq, PartialOrd, Hash, Debug, Default)]
pub struct T<r#type, r#match> { pub x: r#type, pub y: ::core::marker::PhantomData<r#match>, pub z: (r#type, u8) }
pub struct NoTraits;
""", """
pub fn check<S: Src>(s: &mut S) {
    let (a, b, c, d) = (s.u8(), s.u8(), s.u8(), s.u8());
    let x = T::<u8, NoTraits> { x: a, y: core::marker::PhantomData, z: (b, 1) };
    let y = T::<u8, NoTraits> { x: c, y: core::marker::PhantomData, z: (d, 1) };
    assert!((x == y) == (a == c && b == d), "eq");
    assert!(x.partial_cmp(&y) == Some((a, b).cmp(&(c, d))), "partial_cmp");
    let z = x.clone();
    assert!(z.x == a && z.z.0 == b, "clone");
    let dflt = <T<u8, NoTraits> as Default>::default();
    assert!(dflt.x == 0, "default");
}
""")
    # 3. by = ... closures (the expansion wraps them in helper fns taking `impl Fn`)
    add("cmp-by|this+other", "by = ... comparators under a shadowed prelude",
        """
#[derive_ex(PartialEq, Eq, PartialOrd, Ord)]
pub struct T { #[ord(by = crate::support::by_ord::<1, Evil>)] pub this: Evil, pub other: Evil }
""", CMP_ORACLE + """
pub fn check<S: Src>(s: &mut S) {
    let (x0, x1, y0, y1) = (s.u8(), s.u8(), s.u8(), s.u8());
    let x = T { this: Evil(x0), other: Evil(x1) };
    let y = T { this: Evil(y0), other: Evil(y1) };
    let r = lex(&[x0 >> 1, x1], &[y0 >> 1, y1]);
    assert!((x == y) == (r == Ordering::Equal), "eq");
    assert!(x.partial_cmp(&y) == Some(r), "partial_cmp");
    assert!(x.cmp(&y) == r, "cmp");
}
""")
    # 4. Clone: fields called like clone_from's parameters / binders
    add("clone|source+lhs+rhs", "Clone on struct and enum with fields source / lhs / rhs / l / r",
        """
#[derive_ex(Clone)]
pub struct T { pub source: R, pub lhs: R, pub rhs: Evil }
#[derive_ex(Clone)]
pub enum E { Clone(R, Evil), Default { l: R, r: R }, None }
""", """
pub fn check<S: Src>(s: &mut S) {
    let (a, b, c, d) = (s.u8(), s.u8(), s.u8(), s.u8());
    let x = T { source: R(a), lhs: R(b), rhs: Evil(c) };
    trace_reset();
    let y = x.clone();
    assert!(y.source.0 == a && y.lhs.0 == b && y.rhs.0 == c, "clone-value");
    assert!(trace_is(&[Ev { op: OP_CLONE, a, b: 0 }, Ev { op: OP_CLONE, a: b, b: 0 }]), "clone-trace");
    let mut z = T { source: R(d), lhs: R(d), rhs: Evil(d) };
    trace_reset();
    z.clone_from(&x);
    assert!(z.source.0 == a && z.lhs.0 == b && z.rhs.0 == c, "clone_from-value");
    assert!(trace_is(&[Ev { op: OP_CLONE_FROM, a: d, b: a }, Ev { op: OP_CLONE_FROM, a: d, b }]), "clone_from-trace");
    let e = match s.below(3) { 0 => E::Clone(R(a), Evil(b)), 1 => E::Default { l: R(a), r: R(b) }, _ => E::None };
    let mut f = match s.below(3) { 0 => E::Clone(R(c), Evil(d)), 1 => E::Default { l: R(c), r: R(d) }, _ => E::None };
    let g = e.clone();
    f.clone_from(&e);
    let same = |p: &E, q: &E| match (p, q) {
        (E::Clone(a0, a1), E::Clone(b0, b1)) => a0.0 == b0.0 && a1.0 == b1.0,
        (E::Default { l: a0, r: a1 }, E::Default { l: b0, r: b1 }) => a0.0 == b0.0 && a1.0 == b1.0,
        (E::None, E::None) => true,
        _ => false,
    };
    assert!(same(&g, &e), "enum-clone-value");
    assert!(same(&f, &e), "enum-clone_from-value");
}
""", unwind=14)
    # 5. operators: fields rhs / lhs, inherent add / neg on the field type
    add("ops|rhs+lhs", "Add / Neg on a struct with fields rhs / lhs",
        """
#[derive_ex(Add, Neg)]
pub struct T { pub rhs: Evil, pub lhs: Evil }
""", """
pub fn check<S: Src>(s: &mut S) {
    let (a, b, c, d) = (s.u8(), s.u8(), s.u8(), s.u8());
    let r = T { rhs: Evil(a), lhs: Evil(b) } + T { rhs: Evil(c), lhs: Evil(d) };
    assert!(r.rhs.0 == wop(1, a, c) && r.lhs.0 == wop(1, b, d), "add-value");
    let r = &T { rhs: Evil(a), lhs: Evil(b) } + &T { rhs: Evil(c), lhs: Evil(d) };
    assert!(r.rhs.0 == wop(1, a, c) && r.lhs.0 == wop(1, b, d), "add-ref-value");
    let n = -T { rhs: Evil(a), lhs: Evil(b) };
    assert!(n.rhs.0 == wop(40, a, 0) && n.lhs.0 == wop(40, b, 0), "neg-value");
}
""")
    # 6. Debug: field / variant-field called f, state
    add("debug|f+state", "Debug on a struct and an enum with fields called f / state",
        """
#[derive_ex(Debug)]
pub struct T { pub f: F, pub state: F }
#[derive_ex(Debug)]
pub enum E { Some { f: F }, None }
pub mod twin {
    use crate::support::F;
    #[derive(Debug)]
    pub struct T { pub f: F, pub state: F }
    #[derive(Debug)]
    pub enum E { Some { f: F }, None }
}
""", """
pub fn check<S: Src>(s: &mut S) {
    use core::fmt::Write;
    let (a, b) = (F(s.u8()), F(s.u8()));
    let mut s1 = Sink::new();
    let mut s2 = Sink::new();
    if s.bool() {
        let _ = write!(s1, "{:?}", T { f: a, state: b });
        let _ = write!(s2, "{:?}", twin::T { f: a, state: b });
    } else if s.bool() {
        let _ = write!(s1, "{:?}", E::Some { f: a });
        let _ = write!(s2, "{:?}", twin::E::Some { f: a });
    } else {
        let _ = write!(s1, "{:4?}", E::None);
        let _ = write!(s2, "{:4?}", twin::E::None);
    }
    assert!(!s1.overflow && s2.len > 0, "harness-sink-capacity");
    assert!(s1.same(&s2), "debug-output");
}
""", unwind=66)
    # 7. Default: field called default / into, Into conversion, variant called Default
    add("default|default+into", "Default with fields default / into and a #[default] variant called Default",
        """
#[derive_ex(Default)]
pub struct T { pub default: Evil, #[default(crate::support::K0)] pub into: M, #[default(crate::support::sd(0))] pub from: u8 }
#[derive_ex(Default)]
pub enum E { None, #[default] Default(Evil), Some }
""", """
pub fn check<S: Src>(s: &mut S) {
    set_seeds(s);
    let t = <T as Default>::default();
    assert!(t.default.0 == 7, "field-default-through-the-trait");
    assert!(t.into == M { v: 9, via: 1 }, "into-conversion");
    assert!(t.from == sd(0), "call-expression-value");
    assert!(matches!(<E as Default>::default(), E::Default(Evil(7))), "default-variant");
}
""")
    # 8. Deref
    add("deref|target", "Deref / DerefMut on a struct whose field is called target",
        """
#[derive_ex(Deref, DerefMut)]
pub struct T { pub target: u8 }
""", """
pub fn check<S: Src>(s: &mut S) {
    let mut x = T { target: s.u8() };
    assert!(core::ptr::eq(core::ops::Deref::deref(&x), &x.target), "deref-address");
    let v = s.u8();
    *core::ops::DerefMut::deref_mut(&mut x) = v;
    assert!(x.target == v, "deref_mut-write");
}
""")
    # 9. names introduced by the expansion as generics / lifetimes / bare trait names / macros
    add("hash|type-parameter-H", "Hash on a type whose type parameter is called H",
        """
#[derive_ex(Hash)]
pub struct T<H> { pub state: H, pub b: u8 }
""", """
pub fn check<S: Src>(s: &mut S) {
    let (a, b) = (s.u8(), s.u8());
    let mut h = Rec::new();
    Hash::hash(&T::<u8> { state: a, b }, &mut h);
    assert!(h.len == 2 && h.buf[0] == a && h.buf[1] == b, "hash-feed");
}
""", unwind=18)
    add("ops|lifetime-a", "Add on a generic type with a lifetime parameter called 'a",
        """
pub struct U<'a>(pub core::marker::PhantomData<&'a ()>);
impl<'a> ::core::ops::Add for U<'a> { type Output = U<'a>; fn add(self, _: U<'a>) -> U<'a> { self } }
impl<'a, 'b> ::core::ops::Add<&'b U<'a>> for U<'a> { type Output = U<'a>; fn add(self, _: &'b U<'a>) -> U<'a> { self } }
impl<'a, 'b> ::core::ops::Add<U<'a>> for &'b U<'a> { type Output = U<'a>; fn add(self, r: U<'a>) -> U<'a> { r } }
impl<'a, 'b, 'c> ::core::ops::Add<&'c U<'a>> for &'b U<'a> { type Output = U<'a>; fn add(self, _: &'c U<'a>) -> U<'a> { U(core::marker::PhantomData) } }
#[derive_ex(Add)]
pub struct T<'a, A> { pub v: A, pub u: U<'a> }
""".replace("core::marker::PhantomData", "::core::marker::PhantomData"), """
pub fn check<S: Src>(s: &mut S) {
    let (a, b) = (s.u8(), s.u8());
    let r = T { v: Evil(a), u: U(core::marker::PhantomData) } + T { v: Evil(b), u: U(core::marker::PhantomData) };
    assert!(r.v.0 == wop(1, a, b), "add-value");
}
""")
    add("ops|lifetime-a-unary-assign", "Neg and AddAssign on a generic type with a lifetime parameter called 'a (and type parameters called T and Rhs)",
        """
#[derive(Clone, Copy)]
pub struct U<'a>(pub ::core::marker::PhantomData<&'a ()>);
impl<'a> ::core::ops::Neg for U<'a> { type Output = U<'a>; fn neg(self) -> U<'a> { self } }
impl<'a, 'b> ::core::ops::Neg for &'b U<'a> { type Output = U<'a>; fn neg(self) -> U<'a> { *self } }
impl<'a> ::core::ops::AddAssign for U<'a> { fn add_assign(&mut self, _: U<'a>) {} }
impl<'a, 'b> ::core::ops::AddAssign<&'b U<'a>> for U<'a> { fn add_assign(&mut self, _: &'b U<'a>) {} }
pub struct Q(pub u8);
impl ::core::ops::AddAssign for Q { fn add_assign(&mut self, r: Q) { self.0 = crate::support::wop(2, self.0, r.0) } }
impl<'x> ::core::ops::AddAssign<&'x Q> for Q { fn add_assign(&mut self, r: &'x Q) { self.0 = crate::support::wop(2, self.0, r.0) } }
#[derive_ex(Neg)]
pub struct N1<'a, T> { pub v: T, pub u: U<'a> }
#[derive_ex(AddAssign)]
pub struct T2<'a, Rhs> { pub v: Rhs, pub u: U<'a> }
""", """
pub fn check<S: Src>(s: &mut S) {
    let (a, b) = (s.u8(), s.u8());
    let r = -N1 { v: Evil(a), u: U(core::marker::PhantomData) };
    assert!(r.v.0 == wop(40, a, 0), "neg-value");
    let t = N1 { v: Evil(b), u: U(core::marker::PhantomData) };
    let r2 = -&t;
    assert!(r2.v.0 == wop(40, b, 0) && t.v.0 == b, "neg-ref");
    let mut x = T2 { v: Q(a), u: U(core::marker::PhantomData) };
    x += T2 { v: Q(b), u: U(core::marker::PhantomData) };
    assert!(x.v.0 == wop(2, a, b), "add-assign-value");
    let y = T2 { v: Q(b), u: U(core::marker::PhantomData) };
    x += &y;
    assert!(x.v.0 == wop(2, wop(2, a, b), b) && y.v.0 == b, "add-assign-ref");
}
""")
    add("raw|enum-fields-and-by-field", "fields spelled as raw identifiers in enum variants (every family binds them) and on a struct field compared with by = ..",
        """
#[derive_ex(Clone, Debug, Default, PartialEq, Eq, PartialOrd, Ord, Hash)]
pub enum T { #[default] A { r#type: Evil, r#match: Evil }, B(Evil) }
#[derive_ex(PartialEq, Eq, PartialOrd, Ord, Hash)]
pub struct Q { #[ord(by = crate::support::by_ord::<1, Evil>)] #[partial_ord(by = crate::support::by_po_total::<1, Evil>)] #[hash(key = crate::support::kk::<1, _>(&$))] pub r#fn: Evil, pub r#loop: Evil }
""", CMP_ORACLE + """
pub fn check<S: Src>(s: &mut S) {
    let (x0, x1, y0, y1) = (s.u8(), s.u8(), s.u8(), s.u8());
    let x = T::A { r#type: Evil(x0), r#match: Evil(x1) };
    let y = if s.bool() { T::A { r#type: Evil(y0), r#match: Evil(y1) } } else { T::B(Evil(y0)) };
    let r = match &y { T::A { .. } => lex(&[x0, x1], &[y0, y1]), T::B(_) => Ordering::Less };
    assert!((x == y) == (r == Ordering::Equal), "enum-eq");
    assert!(x.partial_cmp(&y) == Some(r) && x.cmp(&y) == r, "enum-cmp");
    let c = x.clone();
    assert!(c == x, "enum-clone");
    let mut h = Rec::new();
    Hash::hash(&x, &mut h);
    assert!(h.len == 2 && h.buf[0] == x0 && h.buf[1] == x1, "enum-hash-feed");
    assert!(matches!(T::default(), T::A { r#type: Evil(7), r#match: Evil(7) }), "enum-default");
    let (p, q) = (Q { r#fn: Evil(x0), r#loop: Evil(x1) }, Q { r#fn: Evil(y0), r#loop: Evil(y1) });
    let r2 = lex(&[x0 >> 1, x1], &[y0 >> 1, y1]);
    assert!((p == q) == (r2 == Ordering::Equal) && p.partial_cmp(&q) == Some(r2) && p.cmp(&q) == r2, "struct-by-cmp");
    let mut h2 = Rec::new();
    Hash::hash(&p, &mut h2);
    assert!(h2.len == 2 && h2.buf[0] == x0 >> 1 && h2.buf[1] == x1, "struct-hash-feed");
}
""", unwind=18)
    # the type itself, const parameters and items in scope called like the parameters and locals of the generated methods
    add("locals|type-and-const-param-names", "tuple structs and const parameters called rhs / other / this / source / f / state / o (the standard derives accept them)",
        """
#[derive_ex(Add, AddAssign, Sub)]
pub struct rhs(pub W, pub W);
#[derive_ex(Clone, PartialEq, Eq, PartialOrd, Ord, Hash, Debug, Default)]
pub struct other(pub u8, #[ord(reverse)] pub u8);
#[derive_ex(Clone, PartialEq, PartialOrd, Hash, Debug)]
pub struct this(#[ord(by = crate::support::by_ord::<1, u8>)] #[partial_ord(by = crate::support::by_po_total::<1, u8>)] #[hash(key = crate::support::kk::<1, _>(&$))] pub u8);
#[derive_ex(Clone, PartialEq, Debug)]
pub struct source(pub R);
#[derive_ex(Clone, Debug, Hash, PartialEq)]
pub struct f(pub u8);
#[derive_ex(Hash, PartialEq, Debug, Clone)]
pub struct state(pub u8);
#[derive_ex(Clone, PartialEq, Eq, PartialOrd, Ord, Hash, Debug)]
pub enum o { o(u8), to_index(u8), lhs }
""", CMP_ORACLE + """
pub fn check<S: Src>(s: &mut S) {
    let (a, b, c, d) = (s.u8(), s.u8(), s.u8(), s.u8());
    let r = rhs(W(a), W(b)) + rhs(W(c), W(d));
    assert!((r.0).0 == wop(1, a, c) && (r.1).0 == wop(1, b, d), "add-on-type-named-rhs");
    let (x, y) = (other(a, b), other(c, d));
    let e = lex(&[a, 255 - b], &[c, 255 - d]);
    assert!((x == y) == (e == Ordering::Equal) && x.partial_cmp(&y) == Some(e) && x.cmp(&y) == e, "cmp-on-type-named-other");
    let (p, q) = (this(a), this(c));
    assert!((p == q) == (a >> 1 == c >> 1) && p.partial_cmp(&q) == Some((a >> 1).cmp(&(c >> 1))), "by-on-type-named-this");
    let mut h = Rec::new();
    Hash::hash(&p, &mut h);
    assert!(h.len == 1 && h.buf[0] == a >> 1, "hash-on-type-named-this");
    let mut z = source(R(a));
    z.clone_from(&source(R(b)));
    assert!((z.0).0 == b, "clone_from-on-type-named-source");
    let mut h2 = Rec::new();
    Hash::hash(&state(a), &mut h2);
    assert!(h2.len == 1 && h2.buf[0] == a, "hash-on-type-named-state");
    let (u, v) = (if s.bool() { o::o(a) } else { o::lhs }, o::to_index(b));
    assert!(u.cmp(&v) == (if matches!(u, o::o(_)) { Ordering::Less } else { Ordering::Greater }) && u != v, "enum-named-o");
}
""", unwind=18)
    add("locals|const-param-names", "const parameters called rhs / this / other / state / f / source / o",
        """
#[derive_ex(Add, AddAssign)]
pub struct G1<const rhs: usize>(pub W);
#[derive_ex(Clone, PartialEq, PartialOrd, Hash, Debug, Default, Neg)]
pub struct G2<const this: usize, const other: usize, const state: usize, const f: usize, const source: usize, const o: usize>(pub i8);
""", """
pub fn check<S: Src>(s: &mut S) {
    let (a, b) = (s.u8(), s.u8());
    let mut g = G1::<3>(W(a));
    g += G1::<3>(W(b));
    assert!((g.0).0 == wop(1 | ASSIGN, a, b) || (g.0).0 == wop(1, a, b), "add-assign-with-const-param-named-rhs");
    vassume(a != 128);
    let n = -G2::<1, 2, 3, 4, 5, 6>(a as i8);
    assert!(n.0 == -(a as i8), "neg-with-const-params-named-like-locals");
    let (p, q) = (G2::<1, 2, 3, 4, 5, 6>(a as i8), G2::<1, 2, 3, 4, 5, 6>(b as i8));
    assert!((p == q) == (a == b) && p.partial_cmp(&q) == Some((a as i8).cmp(&(b as i8))), "cmp-with-const-params-named-like-locals");
}
""", unwind=18)
    add("locals|items-in-scope", "constants and unit structs in scope called like the parameters and locals of the generated methods; user callbacks called other / state",
        """
pub const other: u8 = 1;
pub const rhs: u8 = 2;
pub const state: u8 = 3;
pub const f: u8 = 4;
pub const source: u8 = 5;
pub const this: u8 = 6;
pub const o: u8 = 7;
pub const to_index: u8 = 8;
pub const lhs: u8 = 9;
pub struct cmp;
pub struct eq;
pub struct partial_cmp;
pub struct hash;
#[derive_ex(Clone, PartialEq, Eq, PartialOrd, Ord, Default, Add, Neg)]
pub struct T1 { #[ord(by = crate::support::by_ord::<1, Evil>)] #[partial_ord(by = crate::support::by_po_total::<1, Evil>)] pub a: Evil, pub b: Evil }
#[derive_ex(Clone, PartialEq, Eq, PartialOrd, Ord, Hash, Debug)]
pub enum T2 { A(u8), B { x: u8 }, C }
#[derive_ex(Hash, PartialEq)]
pub struct T3 { #[hash(by = crate::support::by_hash::<1, u8, _>)] #[eq(key = crate::support::kk::<1, _>(&$))] pub a: u8 }
""", CMP_ORACLE + """
pub fn check<S: Src>(s: &mut S) {
    let (a, b, c, d) = (s.u8(), s.u8(), s.u8(), s.u8());
    let (x, y) = (T1 { a: Evil(a), b: Evil(b) }, T1 { a: Evil(c), b: Evil(d) });
    let e = lex(&[a >> 1, b], &[c >> 1, d]);
    assert!((x == y) == (e == Ordering::Equal) && x.partial_cmp(&y) == Some(e) && x.cmp(&y) == e, "struct-cmp");
    let r = T1 { a: Evil(a), b: Evil(b) } + T1 { a: Evil(c), b: Evil(d) };
    assert!(r.a.0 == wop(1, a, c) && r.b.0 == wop(1, b, d), "struct-add");
    let (u, v) = (T2::A(a), if s.bool() { T2::B { x: b } } else { T2::A(c) });
    let want = match &v { T2::B { .. } => Ordering::Less, _ => a.cmp(&c) };
    assert!(u.cmp(&v) == want && u.partial_cmp(&v) == Some(want) && (u == v) == (want == Ordering::Equal), "enum-cmp");
    let mut h = Rec::new();
    Hash::hash(&T3 { a }, &mut h);
    assert!(h.len >= 1, "hash-by");
}
""", unwind=18)
    add("paths|local-modules-called-core-std-alloc", "modules called core, std and alloc at the use site (every generated path must start at the crate root)",
        """
mod core { pub mod fmt { pub struct Debug; pub struct Formatter; } pub mod cmp { pub struct Ordering; } pub mod clone {} pub mod default {} pub mod hash {} pub mod ops {} pub mod option {} pub mod marker {} pub mod convert {} }
mod std { pub mod fmt {} pub mod cmp {} pub mod convert {} pub mod string {} }
mod alloc {}
#[derive_ex(Debug)]
pub struct T0 { #[debug(transparent)] pub a: F, pub b: u8 }
#[derive_ex(Clone, Default, PartialEq, Eq, PartialOrd, Ord, Hash)]
pub struct T1 { pub a: Evil, #[ord(reverse)] pub b: u8 }
#[derive_ex(Clone, Default, PartialEq)]
pub enum T2 { #[default] A(Evil), B { #[default(3)] x: u8, #[default("s")] y: M } }
#[derive_ex(Add, Neg, Deref)]
pub struct T3(pub Evil);
""", """
pub fn check<S: Src>(s: &mut S) {
    use ::core::fmt::Write;
    let (a, b) = (s.u8(), s.u8());
    let mut k1 = Sink::new();
    let mut k2 = Sink::new();
    let _ = write!(k1, "{:5?}", T0 { a: F(a), b });
    let _ = write!(k2, "{:5?}", F(a));
    assert!(k1.same(&k2), "transparent-debug");
    let x = T1 { a: Evil(a), b };
    let y = T1 { a: Evil(a), b: s.u8() };
    assert!(x.cmp(&y) == y.b.cmp(&b) && (x == y) == (y.b == b), "cmp");
    let r = T3(Evil(a)) + T3(Evil(b));
    assert!((r.0).0 == wop(1, a, b) && (*r).0 == wop(1, a, b), "ops");
    assert!(matches!(T2::default(), T2::A(_)), "default");
}
""", unwind=66)
    add("eq|shadowed-Eq-and-Fn", "Eq and by = ... with `Eq` and `Fn` shadowed at the use site",
        """
#[derive_ex(PartialEq, Eq, PartialOrd, Ord)]
pub struct T { #[partial_ord(by = crate::support::by_po_total::<1, Evil>)] #[ord(by = crate::support::by_ord::<1, Evil>)] pub this: Evil, pub other: Evil }
""", CMP_ORACLE + """
pub fn check<S: Src>(s: &mut S) {
    let (x0, x1, y0, y1) = (s.u8(), s.u8(), s.u8(), s.u8());
    let x = T { this: Evil(x0), other: Evil(x1) };
    let y = T { this: Evil(y0), other: Evil(y1) };
    let r = lex(&[x0 >> 1, x1], &[y0 >> 1, y1]);
    assert!((x == y) == (r == Ordering::Equal), "eq");
    assert!(x.partial_cmp(&y) == Some(r), "partial_cmp");
    assert!(x.cmp(&y) == r, "cmp");
}
""", extra_use="    use crate::support::hostile_eq_fn::*;\n")
    add("enum|shadowed-unreachable-macro", "Hash / Ord / PartialOrd on an enum with a local macro called unreachable",
        """
macro_rules! unreachable { () => { () }; }
#[derive_ex(PartialEq, Eq, PartialOrd, Ord, Hash)]
pub enum T { A(Evil), B }
""", CMP_ORACLE + """
pub fn check<S: Src>(s: &mut S) {
    let (a, b) = (s.u8(), s.u8());
    let x = if s.bool() { T::A(Evil(a)) } else { T::B };
    let y = if s.bool() { T::A(Evil(b)) } else { T::B };
    let k = |t: &T| match t { T::A(e) => [0, e.0], T::B => [1, 0] };
    let r = lex(&k(&x), &k(&y));
    assert!(x.cmp(&y) == r && x.partial_cmp(&y) == Some(r) && (x == y) == (r == Ordering::Equal), "cmp");
}
""")
    # 10. operators derived from a user impl, operand types called like the expansion's idents
    add("item-impl|Rhs+Output", "operators derived from a user impl on types called Rhs / Output",
        """
pub struct Rhs(pub u8);
impl ::core::clone::Clone for Rhs { fn clone(&self) -> Rhs { Rhs(self.0) } }
impl Rhs { pub fn clone(&self) -> Rhs { Rhs(0xEE) } }  // inherent method called like the trait method
#[derive_ex(Sub, SubAssign)]
impl ::core::ops::Sub<&Rhs> for &Rhs {
    type Output = Rhs;
    fn sub(self, rhs: &Rhs) -> Rhs { Rhs(crate::support::wop(10, self.0, rhs.0)) }
}
pub struct Lhs(pub u8);
impl ::core::clone::Clone for Lhs { fn clone(&self) -> Lhs { Lhs(self.0) } }
impl Lhs { pub fn clone(&self) -> Lhs { Lhs(0xEE) } }
// a base impl that takes both operands by value: the derived reference forms clone them (through the trait, whatever `Clone` means at the use site)
#[derive_ex(Add, AddAssign)]
impl ::core::ops::Add<Lhs> for Lhs {
    type Output = Lhs;
    fn add(self, rhs: Lhs) -> Lhs { Lhs(crate::support::wop(1, self.0, rhs.0)) }
}
""", """
pub fn check<S: Src>(s: &mut S) {
    let (a, b) = (s.u8(), s.u8());
    assert!((&Lhs(a) + &Lhs(b)).0 == wop(1, a, b) && (&Lhs(a) + Lhs(b)).0 == wop(1, a, b) && (Lhs(a) + &Lhs(b)).0 == wop(1, a, b), "by-value-base-ref-forms");
    let mut l = Lhs(a);
    l += &Lhs(b);
    assert!(l.0 == wop(1, a, b), "by-value-base-assign-ref");
    assert!((Rhs(a) - Rhs(b)).0 == wop(10, a, b), "val-val");
    assert!((&Rhs(a) - Rhs(b)).0 == wop(10, a, b), "ref-val");
    let mut x = Rhs(a);
    x -= Rhs(b);
    assert!(x.0 == wop(10, a, b), "assign");
}
""")
    # 11. the derived type itself has inherent methods named like the trait methods, all giving wrong answers: generated code that calls
    #     `x.clone()` / `a.eq(b)` instead of the fully qualified trait method would pick these up
    add("self-inherent|clone+eq+cmp+hash+default", "Clone / comparison / Hash / Default on types with wrong-answer inherent methods of the same names",
        """
#[derive_ex(Clone, PartialEq, Eq, PartialOrd, Ord, Hash, Default)]
pub enum E { #[default] A(Evil), B { x: Evil }, C }
impl E {
    pub fn clone(&self) -> Self { E::C }
    pub fn clone_from(&mut self, _source: &Self) { *self = E::C; }
    pub fn eq(&self, _o: &Self) -> bool { true }
    pub fn ne(&self, _o: &Self) -> bool { true }
    pub fn partial_cmp(&self, _o: &Self) -> ::core::option::Option<::core::cmp::Ordering> { ::core::option::Option::None }
    pub fn cmp(&self, _o: &Self) -> ::core::cmp::Ordering { ::core::cmp::Ordering::Greater }
    pub fn hash<HH>(&self, _s: &mut HH) {}
    pub fn default() -> Self { E::C }
}
#[derive_ex(Clone, PartialEq, Default)]
pub struct T { pub a: Evil, pub b: Evil }
impl T {
    pub fn clone(&self) -> Self { T { a: Evil(0xEE), b: Evil(0xEE) } }
    pub fn clone_from(&mut self, _source: &Self) {}
    pub fn eq(&self, _o: &Self) -> bool { false }
    pub fn default() -> Self { T { a: Evil(0xEE), b: Evil(0xEE) } }
}
""", """
fn key(e: &E) -> [u8; 2] { match e { E::A(r) => [0, r.0], E::B { x } => [1, x.0], E::C => [2, 0] } }
pub fn check<S: Src>(s: &mut S) {
    let (a, b) = (s.u8(), s.u8());
    let mk = |sel: u8, v: u8| match sel { 0 => E::A(Evil(v)), 1 => E::B { x: Evil(v) }, _ => E::C };
    let (sx, sy) = (s.below(3) as u8, s.below(3) as u8);
    let (e, mut f) = (mk(sx, a), mk(sy, b));
    cover!(sx != sy, "different-variants");
    cover!(sx == sy && sx < 2, "same-data-variant");
    let g = ::core::clone::Clone::clone(&e);
    assert!(key(&g) == key(&e), "enum-clone");
    ::core::clone::Clone::clone_from(&mut f, &e);
    assert!(key(&f) == key(&e), "enum-clone_from");
    let f2 = mk(sy, b);
    let r = key(&e).cmp(&key(&f2));
    assert!(::core::cmp::PartialEq::eq(&e, &f2) == (r == Ordering::Equal), "enum-eq");
    assert!(::core::cmp::PartialOrd::partial_cmp(&e, &f2) == Some(r), "enum-partial_cmp");
    assert!(::core::cmp::Ord::cmp(&e, &f2) == r, "enum-cmp");
    let mut h = Rec::new();
    Hash::hash(&e, &mut h);
    assert!(h.len == if sx < 2 { 1 } else { 0 } && (sx >= 2 || h.buf[0] == a), "enum-hash-feed");
    assert!(key(&<E as Default>::default()) == [0, 7], "enum-default");
    let t = T { a: Evil(a), b: Evil(b) };
    let u = ::core::clone::Clone::clone(&t);
    assert!(u.a.0 == a && u.b.0 == b, "struct-clone");
    let mut w = T { a: Evil(b), b: Evil(a) };
    ::core::clone::Clone::clone_from(&mut w, &t);
    assert!(w.a.0 == a && w.b.0 == b, "struct-clone_from");
    assert!(::core::cmp::PartialEq::eq(&t, &u), "struct-eq");
    let d = <T as Default>::default();
    assert!(d.a.0 == 7 && d.b.0 == 7, "struct-default");
}
""", unwind=18)
    # 12. user items called like the generics of the expansion's nested helper functions, inside the field types those helpers mention
    add("hash-by|items-named-H-and-T", "hash(by = ..) / partial_ord(by = ..) on fields whose types are user items called H and T",
        """
#[derive(Clone, Copy)]
pub struct H(pub u8);
#[derive(Clone, Copy)]
pub struct T(pub u8);
pub fn hb<S2: ::core::hash::Hasher>(v: &H, s: &mut S2) { s.write_u8(v.0 >> 1) }
pub fn ht<S2: ::core::hash::Hasher>(v: &[T; 1], s: &mut S2) { s.write_u8(v[0].0 >> 1) }
pub fn eb(a: &H, b: &H) -> bool { a.0 >> 1 == b.0 >> 1 }
pub fn pb(a: &H, b: &H) -> ::core::option::Option<::core::cmp::Ordering> { ::core::option::Option::Some((a.0 >> 1).cmp(&(b.0 >> 1))) }
pub fn etb(a: &[T; 1], b: &[T; 1]) -> bool { a[0].0 >> 1 == b[0].0 >> 1 }
pub fn ptb(a: &[T; 1], b: &[T; 1]) -> ::core::option::Option<::core::cmp::Ordering> { ::core::option::Option::Some((a[0].0 >> 1).cmp(&(b[0].0 >> 1))) }
#[derive_ex(Hash, PartialEq, PartialOrd)]
pub struct X { #[hash(by = hb)] #[partial_eq(by = eb)] #[partial_ord(by = pb)] pub h: H, #[hash(by = ht)] #[partial_eq(by = etb)] #[partial_ord(by = ptb)] pub t: [T; 1], pub k: u8 }
""", """
pub fn check<S: Src>(s: &mut S) {
    let (a, b, c, d, e, f) = (s.u8(), s.u8(), s.u8(), s.u8(), s.u8(), s.u8());
    let x = X { h: H(a), t: [T(b)], k: c };
    let y = X { h: H(d), t: [T(e)], k: f };
    let mut r = Rec::new();
    Hash::hash(&x, &mut r);
    assert!(r.len == 3 && r.buf[0] == a >> 1 && r.buf[1] == b >> 1 && r.buf[2] == c, "hash-feed");
    assert!((x == y) == (a >> 1 == d >> 1 && b >> 1 == e >> 1 && c == f), "eq");
    assert!(x.partial_cmp(&y) == Some((a >> 1, b >> 1, c).cmp(&(d >> 1, e >> 1, f))), "partial_cmp");
}
""", unwind=18)
    # 13. the bindings of the enum match arms: field names and items in scope spelled like them
    add("binders|field-named-_f-and-consts-named-like-bindings", "enum fields called _f / f / _self / l / r and constants in scope spelled like the bindings of the generated match arms (l_0, r_0, _0, _self_0, _other_x, ...)",
        """
pub const l_0: u8 = 0;
pub const r_0: u8 = 0;
pub const _0: u8 = 0;
pub const _self_0: u8 = 0;
pub const _other_0: u8 = 0;
pub const _this_0: u8 = 0;
pub const l_x: u8 = 0;
pub const r_x: u8 = 0;
pub const _x: u8 = 0;
pub const _self_x: u8 = 0;
pub const _other_x: u8 = 0;
pub const _this_x: u8 = 0;
// ... and like the fields themselves
#[allow(dead_code)]
const x: u8 = 0;
#[allow(dead_code)]
const f: F = F(0);
#[allow(dead_code)]
const _f: F = F(0);
#[derive_ex(Clone, PartialEq, Eq, PartialOrd, Ord, Hash)]
pub enum B1 { A(u8), B { x: u8 }, C }
#[derive_ex(Debug)]
pub enum B2 { V { _f: F, f: F }, W(F) }
#[derive_ex(Clone, PartialEq, PartialOrd, Hash)]
pub enum B3 { V { _f: u8, f: u8, _self: u8, _other: u8, l: u8, r: u8 }, W(u8) }
pub mod twin {
    use crate::support::F;
    #[derive(Debug)]
    pub enum B2 { V { _f: F, f: F }, W(F) }
}
""", CMP_ORACLE + """
fn k1(v: &B1) -> [u8; 2] { match v { B1::A(a) => [0, *a], B1::B { x } => [1, *x], B1::C => [2, 0] } }
pub fn check<S: Src>(s: &mut S) {
    use ::core::fmt::Write;
    let (a, b) = (s.u8(), s.u8());
    let mk = |s: &mut S, v: u8| match s.u8() % 3 { 0 => B1::A(v), 1 => B1::B { x: v }, _ => B1::C };
    let (p, q) = (mk(s, a), mk(s, b));
    let e = lex(&k1(&p), &k1(&q));
    assert!((p == q) == (e == Ordering::Equal) && p.partial_cmp(&q) == Some(e) && p.cmp(&q) == e, "cmp-with-consts-named-like-bindings");
    let c = p.clone();
    assert!(k1(&c) == k1(&p), "clone-with-consts-named-like-bindings");
    let mut w = q.clone();
    w.clone_from(&p);
    assert!(k1(&w) == k1(&p), "clone_from-with-consts-named-like-bindings");
    let mut h = Rec::new();
    Hash::hash(&p, &mut h);
    assert!(h.len == if matches!(p, B1::C) { 0 } else { 1 } && (matches!(p, B1::C) || h.buf[0] == a), "hash-with-consts-named-like-bindings");
    let (x, y) = if s.bool() { (B2::V { _f: F(a), f: F(b) }, twin::B2::V { _f: F(a), f: F(b) }) } else { (B2::W(F(a)), twin::B2::W(F(a))) };
    let mut k1 = Sink::new();
    let mut k2 = Sink::new();
    let _ = write!(k1, "{:?}", x);
    let _ = write!(k2, "{:?}", y);
    assert!(k1.same(&k2), "debug-with-field-named-_f");
    let z = B3::V { _f: a, f: b, _self: a, _other: b, l: a, r: b };
    let z2 = B3::V { _f: a, f: b, _self: a, _other: s.u8(), l: a, r: b };
    assert!(z.clone() == z && (z == z2) == matches!(z2, B3::V { _other, .. } if _other == b) && z.partial_cmp(&z2).is_some(), "clone-eq-with-fields-named-like-prefixes");
}
""", unwind=66)
    # 15. user macros called like the std macros: the generated code names no macro by its bare name (or only with the meaning the prelude gives it)
    add("macros|user-macros-named-like-std-macros", "macros called matches / unreachable / panic / assert / stringify / concat / write / format_args / vec / todo in scope of the derive",
        """
macro_rules! matches { ($($t:tt)*) => { true }; }
macro_rules! unreachable { ($($t:tt)*) => { () }; }
macro_rules! panic { ($($t:tt)*) => { () }; }
macro_rules! assert { ($($t:tt)*) => { () }; }
macro_rules! debug_assert { ($($t:tt)*) => { () }; }
macro_rules! assert_eq { ($($t:tt)*) => { () }; }
macro_rules! stringify { ($($t:tt)*) => { "WRONG" }; }
macro_rules! concat { ($($t:tt)*) => { "WRONG" }; }
macro_rules! write { ($($t:tt)*) => { ::core::result::Result::Ok(()) }; }
macro_rules! format_args { ($($t:tt)*) => { () }; }
macro_rules! vec { ($($t:tt)*) => { () }; }
macro_rules! todo { ($($t:tt)*) => { () }; }
macro_rules! unimplemented { ($($t:tt)*) => { () }; }
#[derive_ex(Clone, Default, PartialEq, Eq, PartialOrd, Ord, Hash)]
pub enum M1 { #[default] A(u8), B { x: u8 }, C }
#[derive_ex(PartialEq, PartialOrd)]
pub struct M2 { #[partial_ord(by = crate::support::by_po_total::<1, u8>)] pub a: u8, pub b: u8 }
#[derive_ex(PartialEq, Eq, PartialOrd, Ord)]
pub struct M3 { #[ord(by = crate::support::by_ord::<1, u8>)] pub a: u8, #[ord(key = crate::support::kk::<2, _>(&$))] pub b: u8 }
#[derive_ex(Add, AddAssign, Neg, Deref, DerefMut)]
pub struct M4(pub W);
#[derive_ex(Debug)]
pub enum M5 { V { a: F, b: F }, U }
pub mod twin {
    use crate::support::F;
    #[derive(Debug)]
    pub enum M5 { V { a: F, b: F }, U }
}
""", CMP_ORACLE + """
pub fn check<S: Src>(s: &mut S) {
    use ::core::fmt::Write;
    let (a, b, c, d) = (s.u8(), s.u8(), s.u8(), s.u8());
    let mk = |s: &mut S, v: u8| match s.u8() % 3 { 0 => M1::A(v), 1 => M1::B { x: v }, _ => M1::C };
    let k = |v: &M1| match v { M1::A(a) => [0, *a], M1::B { x } => [1, *x], M1::C => [2, 0] };
    let (p, q) = (mk(s, a), mk(s, b));
    let e = lex(&k(&p), &k(&q));
    assert!((p == q) == (e == Ordering::Equal) && p.partial_cmp(&q) == Some(e) && p.cmp(&q) == e && k(&p.clone()) == k(&p), "enum-cmp-clone");
    assert!(k(&M1::default()) == [0, 0], "enum-default");
    let (x, y) = (M2 { a, b }, M2 { a: c, b: d });
    let e2 = lex(&[a >> 1, b], &[c >> 1, d]);
    assert!((x == y) == (e2 == Ordering::Equal) && x.partial_cmp(&y) == Some(e2), "eq-from-partial_ord-by");
    let (u, v) = (M3 { a, b }, M3 { a: c, b: d });
    let e3 = lex(&[a >> 1, b >> 2], &[c >> 1, d >> 2]);
    assert!((u == v) == (e3 == Ordering::Equal) && u.cmp(&v) == e3 && u.partial_cmp(&v) == Some(e3), "eq-from-ord-by-and-eq-key");
    let r = M4(W(a)) + M4(W(b));
    assert!((r.0).0 == wop(1, a, b) && (*r).0 == wop(1, a, b), "ops");
    let (m, t) = if s.bool() { (M5::V { a: F(a), b: F(b) }, twin::M5::V { a: F(a), b: F(b) }) } else { (M5::U, twin::M5::U) };
    let mut k1 = Sink::new();
    let mut k2 = Sink::new();
    let _ = ::core::write!(k1, "{:?}", m);
    let _ = ::core::write!(k2, "{:?}", t);
    assert!(k1.same(&k2), "debug");
}
""", unwind=66)
    # 16. key expressions whose *value* has wrong-answer inherent methods called like the trait methods (a generated `a.partial_cmp(&b)` / `a.eq(&b)` / `a.hash(..)` on key values would pick them up)
    add("key-value|inherent-methods-on-the-key-type", "key = .. expressions that evaluate to a type with inherent eq / partial_cmp / cmp / hash methods giving wrong answers",
        """
#[derive_ex(PartialEq, Eq, PartialOrd, Ord, Hash)]
pub struct K1 { #[ord(key = crate::support::Evil($ >> 1))] pub a: u8, pub b: u8 }
#[derive_ex(PartialEq, PartialOrd)]
pub enum K2 { A(#[partial_ord(key = crate::support::Evil($ >> 2))] u8), B }
#[derive_ex(PartialEq, Eq, Hash)]
pub struct K3 { #[eq(key = crate::support::Evil($ >> 3))] pub a: u8 }
""", CMP_ORACLE + """
pub fn check<S: Src>(s: &mut S) {
    let (a, b, c, d) = (s.u8(), s.u8(), s.u8(), s.u8());
    let (x, y) = (K1 { a, b }, K1 { a: c, b: d });
    let e = lex(&[a >> 1, b], &[c >> 1, d]);
    assert!((x == y) == (e == Ordering::Equal) && x.partial_cmp(&y) == Some(e) && x.cmp(&y) == e, "struct-key-of-hostile-type");
    let (p, q) = (K2::A(a), if s.bool() { K2::A(c) } else { K2::B });
    let want = if matches!(q, K2::B) { Ordering::Less } else { (a >> 2).cmp(&(c >> 2)) };
    assert!(p.partial_cmp(&q) == Some(want) && (p == q) == (want == Ordering::Equal), "enum-key-of-hostile-type");
    assert!((K3 { a } == K3 { a: c }) == (a >> 3 == c >> 3), "eq-key-of-hostile-type");
}
""", unwind=18)
    # 17. items in scope called like the hidden assertion function of Eq, its nested helper and the helper's parameter
    add("eq-assertion|items-called-_f-_eq-_this", "user functions called _f and _eq used inside eq(key = ..) expressions, a unit struct called _this in scope (the Eq assertion may not capture them)",
        """
#[allow(dead_code)]
pub struct _this;
pub fn _f(v: &u8) -> u8 { *v >> 1 }
pub fn _eq(v: &u8) -> u8 { *v >> 2 }
#[derive_ex(PartialEq, Eq)]
pub struct Q1 { #[eq(key = _f(&$))] pub a: u8, #[eq(key = _eq(&$))] pub b: u8, pub c: u8 }
#[derive_ex(PartialEq, Eq)]
pub enum Q2 { A(#[eq(key = _eq(&$))] u8, u8), B { x: u8 }, C }
""", """
pub fn check<S: Src>(s: &mut S) {
    let (a, b, c, d, e, f) = (s.u8(), s.u8(), s.u8(), s.u8(), s.u8(), s.u8());
    assert!((Q1 { a, b, c } == Q1 { a: d, b: e, c: f }) == (a >> 1 == d >> 1 && b >> 2 == e >> 2 && c == f), "struct-eq-with-functions-called-_f-_eq");
    assert!((Q2::A(a, b) == Q2::A(c, d)) == (a >> 2 == c >> 2 && b == d) && Q2::B { x: a } != Q2::C, "enum-eq-with-functions-called-_eq");
}
""", unwind=18)
    # 14. type parameters called like the primitive types the expansion writes in its signatures
    add("params|type-parameters-called-bool-and-usize", "type parameters called bool / usize (the generated signatures say `-> bool` and `-> usize`; the standard derives accept such types)",
        """
#[derive_ex(Clone, PartialEq, Eq, PartialOrd, Ord, Hash)]
pub struct P1<bool, usize> { pub a: bool, #[ord(reverse)] pub b: usize }
#[derive_ex(Clone, PartialEq, Eq, PartialOrd, Ord, Hash)]
pub enum P2<usize, bool> { A(usize), B(bool), C }
""", CMP_ORACLE + """
pub fn check<S: Src>(s: &mut S) {
    let (a, b, c, d) = (s.u8(), s.u8(), s.u8(), s.u8());
    let (x, y) = (P1::<u8, u8> { a, b }, P1::<u8, u8> { a: c, b: d });
    let e = lex(&[a, 255 - b], &[c, 255 - d]);
    assert!((x == y) == (e == Ordering::Equal) && x.partial_cmp(&y) == Some(e) && x.cmp(&y) == e, "struct-with-type-parameters-called-bool-usize");
    let mk = |s: &mut S, v: u8| match s.u8() % 3 { 0 => P2::<u8, u8>::A(v), 1 => P2::B(v), _ => P2::C };
    let (p, q) = (mk(s, a), mk(s, b));
    let k = |v: &P2<u8, u8>| match v { P2::A(a) => [0, *a], P2::B(a) => [1, *a], P2::C => [2, 0] };
    let e2 = lex(&k(&p), &k(&q));
    assert!((p == q) == (e2 == Ordering::Equal) && p.partial_cmp(&q) == Some(e2) && p.cmp(&q) == e2, "enum-with-type-parameters-called-usize-bool");
}
""", unwind=18)
    return P


NO_STD_CORPUS = [
    ("Clone, Copy, Debug, Default, PartialEq, Eq, PartialOrd, Ord, Hash", "struct X { a: u8, #[default(\"s\")] b: &'static str, #[default(K)] c: u8, #[default(1)] d: i64, #[default(f())] e: u8, #[default(1.5)] g: W }"),
    ("Clone, Debug, Default, PartialEq, Eq, PartialOrd, Ord, Hash", "enum X<T> { A, #[default] B(#[debug(ignore)] u8, T), C { #[ord(key = $.len())] x: S, #[ord(by = f)] #[hash(by = h)] y: T, #[ord(reverse)] z: u8 } }"),
    ("Clone, Debug, Default", "#[default(X::new())] struct X<'a, T: ?Sized, const N: usize> { #[debug(transparent)] a: &'a T, b: [u8; N] }"),
    ("Add, AddAssign, Sub, Neg, Not, Shl, ShlAssign, Deref, DerefMut", "struct X<T>(T);"),
    ("Add, Mul, BitXorAssign", "struct X { a: u8, b: W }"),
    ("Add, AddAssign", "impl ::core::ops::Add<&Y> for &Y { type Output = Y; fn add(self, r: &Y) -> Y { Y(self.0 + r.0) } }"),
    ("Sub", "impl<T> ::core::ops::SubAssign<Z<T>> for Z<T> where T: Copy { fn sub_assign(&mut self, r: Z<T>) { } }"),
    ("Clone, Debug", "enum X {}"),
    ("Clone, Debug, Default, PartialEq, Hash", "struct X;"),
]


def no_std_scan(out):
    """the `#![no_std]` clause, observed on the real expansion: generated tokens name no crate other than `::core` (none of the inputs mentions std / alloc itself)"""
    import re
    from . import e3
    reqs = [(mode, attr if mode == "attr" else "", item if mode == "attr" else "#[derive_ex(%s)] %s" % (attr, item))
            for attr, item in NO_STD_CORPUS for mode in (("attr", "derive") if not item.startswith("impl") else ("attr",))]
    res = common.expand_many(reqs)
    n = 0
    for rq, r in zip(reqs, res):
        items = r.get("items", [])
        gen = " ".join(it.get("text", "") for it in (items[1:] if rq[0] == "attr" else items))
        n += 1
        if r.get("panic") or common.compile_errors(r):
            out.broken.append("no_std corpus input is not accepted: %s %s: %s" % (rq[1], rq[2][:80], (common.compile_errors(r) or [r.get("panic")])[:1]))
            continue
        m = re.search(r"\b(std|alloc) ::", gen)
        if m:
            case = {"property": PID, "kind": "matches", "mode": rq[0], "attr": rq[1], "item": rq[2], "regex": r"# \[automatically_derived\].*\b(std|alloc) ::", "expected": False, "where": "out",
                    "explain": "generated code names `%s::`; it would not build in a #![no_std] crate" % m.group(1)}
            path = e3.write_replay(PID, "nostd%02d" % n, case)
            out.violation("no_std|%s" % common.norm(rq[2])[:60], path, "generated code names `%s ::` (not `::core`): ...%s... for #[derive_ex(%s)] %s" % (
                m.group(1), gen[max(0, m.start() - 60):m.end() + 40], rq[1], rq[2][:100]))
    return n


def run(tier):
    t0 = time.time()
    progs = programs(tier)
    out = common.Outcome(PID)
    scanned = no_std_scan(out)
    return e1.finish(
        PID, tier, progs, t0, outcome=out, extra={"no_std_scan_inputs": scanned, "no_std_scan_rule": "native, not solver-decided: the generated part of the real expansion of each corpus input "
                                                                                              "contains no path through `std` or `alloc`"},
        rule="one Kani harness per hostile program (a trait family x a set of hostile names x a use-site scope that glob-imports shadowing definitions of prelude / core names x "
             "field types with wrong-answer inherent methods); all payloads symbolic; the oracles are those of the neutral-name checks; distinct by family|names",
        bounds="%d handcrafted programs covering the comparison family (struct, enum, by/key), Clone, operators, Debug, Default, Deref, operators from a user impl; names taken from the "
               "expansion's own locals / generics (this, other, o, state, to_index, cmp, eq, hash, source, lhs, rhs, l, r, f, H, 'a, Rhs, Output) and from the prelude" % len(progs),
        outside="whether a renamed program compiles is rustc's verdict (reported as such, not solver-decided); an actual `#![no_std]` build (replaced by a scan of the real expansion "
                "for paths through std / alloc); names starting with a double underscore (reserved)",
        functions=["every derived method exercised by the programs above"],
        harness_timeout="900s")
