"""C14 — the item is re-emitted unchanged apart from derive_ex's own attributes (E3: attribute-ownership kernel only).

Decided on the macro's MIR: (1) `HelperAttributeKinds::is_match` answers true exactly for `derive_ex` and for the helper attributes that the documentation
assigns to a derived trait, and never for a path attribute; (2) `extend` raises exactly the flags of the derived traits; (3) `remove_attrs` drops exactly the
matching attributes; (4) both attribute-macro entry points filter the attributes of the item, of every variant and of every field, also when derivation
fails, and hand the builder's result on unchanged. Not decided: that everything else survives token for token (syn's parse -> print round trip).
"""
import re
import time

import z3

from . import common, e3
from .common import log
from . import probes
from .mir import engine as mir_engine, exec as mx

PID = "C14"
AFFECTS = {"ord": ["ord", "partial_ord", "eq", "partial_eq", "hash"], "partial_ord": ["partial_ord", "partial_eq"], "eq": ["eq", "partial_eq", "hash"],
           "partial_eq": ["partial_eq", "eq"], "hash": ["hash"]}  # attribute -> derived-trait flags that make it a helper (doc table)
KIND_FLAG = {("kind", 7): "default", ("kind", 6): "debug", ("cmp", 0): "ord", ("cmp", 1): "partial_ord", ("cmp", 2): "eq", ("cmp", 3): "partial_eq", ("cmp", 4): "hash"}
FLAGS = ["derive_ex", "default", "debug", "ord", "partial_ord", "eq", "partial_eq", "hash"]


def val_expr(ex, v):
    if isinstance(v, bool):
        return z3.BoolVal(v)
    if isinstance(v, mx.Sym):
        return ex.bvar(mx.pstr(v.path))
    if z3.is_expr(v):
        return v
    return None


def check_is_match(eng, obl, out):
    ex = eng.executor(trace={"Path::get_ident", "Attribute::path"})
    fn = eng.find("HelperAttributeKinds::is_match")
    res = ex.run(fn, eng.args_for(fn))
    obl.note_paths("HelperAttributeKinds::is_match", res, ex)
    f = lambda n: ex.bvar("self." + n)
    expected = {"derive_ex": f("derive_ex"), "default": f("default"), "debug": f("debug"), None: z3.BoolVal(False)}
    for a, flags in AFFECTS.items():
        expected[a] = z3.Or([f(x) for x in flags])
    for r in res:
        if r.kind != "return":
            out.inconclusive.append("fn=is_match reason=%s" % (r.value,))
            continue
        name = None
        for c in r.pc:
            m = re.fullmatch(r"streq\((.*),(\w+)\)", str(c).replace("\n", ""))
            if m:
                name = m.group(2)
        v = val_expr(ex, r.value)
        if v is not None and name is None and not any(e[0] == "Path::get_ident" for e in r.events):
            # decided before the attribute's name was looked at: the answer must then be right for every name, the helper names included
            for n2 in [k for k in expected if k is not None]:
                obl.check_unsat(ex, "is_match[decided without the name; %s]" % n2, list(r.pc) + [v != expected[n2]], info=("is_match", n2, ex), keep_smt=True)
            continue
        if v is None or name not in expected:
            out.inconclusive.append("fn=is_match reason=unrecognised result %r for attribute name %s" % (r.value, name))
            continue
        obl.check_unsat(ex, "is_match[%s]" % name, list(r.pc) + [v != expected[name]], info=("is_match", name, ex), keep_smt=True)
        obl.total += 1
        if any(e[0] == "Path::get_ident" and "Attribute::path(sym:attr)" in e[1][0] for e in r.events):
            obl.discharged += 1
        else:
            probes.structural(out, "is_match-ident", "is_match does not decide on `attr.path().get_ident()` (a multi-segment foreign attribute could be taken for a helper)", 'C14.foreign')
    e3.coverage_check(ex, obl, "is_match", res)
    obl.samples.append({"function": "HelperAttributeKinds::is_match", "paths": len(res),
                        "obligation": "path_condition AND (returned value != flag expression of the documentation table for the matched attribute name) is UNSAT"})


def check_extend(eng, obl, out, n=2):
    ex = eng.executor(slice_bound=n)
    fn = eng.find("HelperAttributeKinds::extend")
    res = ex.run(fn, eng.args_for(fn))
    obl.note_paths("HelperAttributeKinds::extend", res, ex)
    ln = ex.ivar("len(es)", 0, n)
    for r in res:
        if r.kind != "return":
            out.inconclusive.append("fn=extend reason=%s" % (r.value,))
            continue
        final = {mx.pstr(k).split(".", 1)[1]: v for k, v in r.mem.items() if mx.pstr(k).startswith("self.")}
        conj = []
        for flag in FLAGS:
            init = ex.bvar("self." + flag)
            now = final.get(flag)
            now = init if now is None else val_expr(ex, now)
            derived = []
            for i in range(n):
                k = ex.ivar("disc(es.[%d].kind)" % i, 0, 9)
                c = ex.ivar("disc(es.[%d].kind.<CompareOp>.0)" % i, 0, 4)
                for (which, idx), fl in KIND_FLAG.items():
                    if fl == flag:
                        derived.append(z3.And(ln > i, k == idx) if which == "kind" else z3.And(ln > i, k == 3, c == idx))
            conj.append(now == z3.Or([init] + derived))
        obl.check_unsat(ex, "extend:flags", list(r.pc) + [z3.Not(z3.And(conj))], info=("extend", None, ex), keep_smt=True)
    e3.coverage_check(ex, obl, "extend", res)


def check_remove_attrs(eng, obl, out, n=3):
    """remove_attrs on a vector of 0..n attributes: afterwards the vector holds exactly the attributes `kinds.is_match` says no to, in their original order.
    `is_match` is an uninterpreted predicate of (kinds, attribute) here; what it answers is the subject of check_is_match."""
    fn = eng.find("remove_attrs")
    pure = "HelperAttributeKinds::is_match"
    for k in range(n + 1):
        ex = eng.executor(opaque_local={pure})
        ex.pure_fns = {pure}
        elems = [mx.Sym(("a%d" % i,), "Attribute") for i in range(k)]
        res = ex.run(fn, [mx.Sym(("attrs",), "&mut Vec<Attribute>"), mx.Sym(("kinds",), "&HelperAttributeKinds")], mem={("attrs",): mx.VecL(elems)})
        tag = "remove_attrs[%d attributes]" % k
        stuck = obl.note_paths(tag, res, ex)
        for r in stuck[:1]:
            out.inconclusive.append("fn=%s reason=%s" % (tag, r.value))
        match = [ex.bvar("pure:%s(sym:kinds,sym:a%d)" % (pure, i)) for i in range(k)]
        for r in res:
            if r.kind == "stuck":
                continue
            if r.kind == "panic":
                obl.check_unsat(ex, tag + ":no-panic", list(r.pc), info=("remove", "panics (%s)" % r.value, ex, match, k))
                continue
            final = r.mem.get(("attrs",))
            if not isinstance(final, mx.VecL):
                out.inconclusive.append("fn=%s reason=the vector is replaced by a value the executor does not follow (%r)" % (tag, final))
                continue
            idx = [elems.index(x) if x in elems else -1 for x in final.items]
            if -1 in idx or idx != sorted(set(idx)):
                # kept attributes duplicated, foreign, or out of their original order: the path must be infeasible
                obl.check_unsat(ex, tag + ":order", list(r.pc), info=("remove", "leaves attributes %s of [0..%d) in this order" % (idx, k), ex, match, k, idx))
                continue
            conj = [(z3.Not(match[i]) if i in idx else match[i]) for i in range(k)]
            obl.check_unsat(ex, tag + ":kept-set", list(r.pc) + [z3.Not(z3.And(conj))] if conj else list(r.pc) + [z3.BoolVal(False)],
                            info=("remove", "leaves attributes %s of [0..%d)" % (idx, k), ex, match, k, idx), keep_smt=True)
        if not stuck:
            e3.coverage_check(ex, obl, tag, res)
    obl.samples.append({"function": "remove_attrs", "vector_lengths": list(range(n + 1)),
                        "obligation": "path_condition AND NOT(kept == [a_i | NOT is_match(kinds, a_i)] in order) is UNSAT; panic paths infeasible"})


def check_entry(eng, obl, out, which):
    core = "build_by_item_%s_core" % which
    ex = eng.executor(opaque_local={core, "remove_attrs"}, trace={core, "remove_attrs"}, slice_bound=2)
    fn = eng.find("build_by_item_%s" % which)
    res = ex.run(fn, eng.args_for(fn))
    tag = "build_by_item_%s" % which
    obl.note_paths(tag, res, ex)
    for r in res:
        if r.kind != "return":
            out.inconclusive.append("fn=%s reason=%s" % (tag, r.value))
            continue
        obl.total += 1
        evs = r.events
        pcs = " ".join(str(c) for c in r.pc)
        problems = []
        if not evs or evs[0][0] != core:
            problems.append("the builder is not called first")
        rm = [e[1][0] for e in evs if e[0] == "remove_attrs"]
        if "sym:item.attrs" not in rm:
            problems.append("the item's own attributes are not filtered")
        # every filter uses the set of kinds the builder filled in (incl. derive_ex itself), not a copy with something switched off
        kinds_args = set(e[1][1] for e in evs if e[0] == "remove_attrs" and len(e[1]) > 1)
        core_kinds = [e[1][-1] for e in evs if e[0] == core]
        # (the builder receives `&mut kinds`: what the filters see afterwards is that local as the builder left it, i.e. its havoc'd value)
        left_by_core = lambda k: ("havoc-bool(%s)" % core) in k
        if len(kinds_args) > 1 or any("without_derive_ex" in k for k in kinds_args) or (core_kinds and kinds_args and not all(left_by_core(k) or k == core_kinds[0] for k in kinds_args)):
            problems.append("attributes are filtered with a different set of attribute kinds than the one the builder used: %s" % sorted(kinds_args)[:2])
        # every element the loops visited must have been filtered
        want = set()
        for m in re.finditer(r"len\((item\.[\w.\[\]]*)\) > (\d+)", pcs):
            base, i = m.group(1), int(m.group(2))
            want.add("sym:%s.[%d].attrs" % (base, i))
        missing = [w for w in want if w not in rm]
        if missing:
            problems.append("not filtered: %s" % missing)
        # every variant the loop visited has its fields looked at (whatever else the variant carries: a discriminant, attributes of its own)
        if which == "enum":
            for m in re.finditer(r"len\(item\.variants\) > (\d+)", pcs):
                if ("item.variants.[%s].fields" % m.group(1)) not in pcs:
                    problems.append("the fields of variant %s are not visited on a path that visits the variant (%s)" % (m.group(1), [str(c)[:50] for c in r.pc][-3:]))
        # the result handed back is the builder's result
        if "opaque" not in ex.summ(mx.State(), r.value) or core.split("::")[-1] not in ex.summ(mx.State(), r.value):
            problems.append("the returned value is not the builder's result")
        if problems:
            probes.structural(out, "entry|%s|%s" % (which, problems[0]), "%s: %s (events %s)" % (tag, "; ".join(problems), [(e[0], e[1][0]) for e in evs][:8]), ["C14.strip-variants", "C14.strip", "C14.strip-on-error", "C14.strip-on-core-error"])
        else:
            obl.discharged += 1
    # the filter must not depend on the builder's result: there is no fork on it
    obl.total += 1
    if res and not any("disc-opaque" in str(c) and core in str(c) for r in res for c in r.pc):
        obl.discharged += 1
    else:
        probes.structural(out, "entry|%s|result-dependent" % which, "%s branches on the builder's result before filtering the attributes" % tag, ['C14.strip', 'C14.strip-on-error', 'C14.strip-on-core-error'])
    obl.samples.append({"function": tag, "paths": len(res), "example_events": [(e[0], e[1][0]) for e in res[-1].events][:8] if res else []})


def check_core_kinds(eng, obl, out, which):
    """what the entry functions filter with is the set of kinds *as the core builder leaves it*: on every way out of the core builder - also the early ones with an error -
    the `derive_ex` flag is what it was on entry (the flag makes the filter remove the field- and variant-level `#[derive_ex(..)]` attributes)"""
    core = "build_by_item_%s_core" % which
    builders = {"build_binary_op", "build_assign_op", "build_unary_op", "build_compare_op_for_struct", "build_compare_op_for_enum", "build_copy_for_struct",
                "build_clone_for_struct", "build_debug_for_struct", "build_default_for_struct", "build_deref_for_struct", "build_copy_for_enum",
                "build_clone_for_enum", "build_debug_for_enum", "build_default_for_enum"}
    ex = eng.executor(opaque_local=builders | {"DeriveEntry::apply_dump", "HelperAttributes::from_attrs", "FieldEntry::from_fields", "VariantEntry::from_variants",
                                                "DeriveEntry::from_root", "HelperAttributeKinds::extend"}, slice_bound=1)
    fn = eng.find(core)
    res = ex.run(fn, eng.args_for(fn))
    tag = core + ":kinds-left-behind"
    obl.note_paths(tag, res, ex)
    init = ex.bvar("kinds.derive_ex")
    for r in res:
        if r.kind == "stuck":
            out.inconclusive.append("fn=%s reason=%s" % (tag, r.value))
            continue
        if r.kind != "return":
            continue
        v = (r.mem or {}).get(("kinds", "derive_ex"))
        if v is None:
            obl.total += 1
            obl.discharged += 1  # never written
            continue
        e = val_expr(ex, v)
        if e is None:
            out.inconclusive.append("fn=%s reason=kinds.derive_ex is left with a value the executor does not follow (%r)" % (tag, v))
            continue
        obl.check_unsat(ex, tag, list(r.pc) + [e != init], info=("core-kinds", which, "the derive_ex flag of the attribute kinds is left as %s on a way out of %s (path %s)" % (
            v, core, [str(c)[:60] for c in r.pc][:4])))


class _All(set):
    def __contains__(self, x):
        return True


def check_lib_entries(eng, obl, out):
    """lib.rs: the (filtered) item is emitted first and the generated tokens after it; a builder error becomes a compile_error next to the item, and when even
    parsing fails the attribute entry point still hands back the original item followed by the error"""
    builders = {"build_by_item_struct", "build_by_item_enum", "build_by_item_impl"}
    ex = eng.executor(opaque_local=builders)
    ex.trace = _All()
    fn = eng.find("build")
    res = ex.run(fn, eng.args_for(fn))
    obl.note_paths("lib::build", res, ex)
    seen_builders = set()
    for r in res:
        if r.kind != "return":
            out.inconclusive.append("fn=build reason=%s" % (r.value,))
            continue
        names = [e[0] for e in r.events]
        called = [n for n in names if n in builders]
        if not called:
            continue
        seen_builders.add(called[0])
        obl.total += 1
        item_pos = [i for i, e in enumerate(r.events) if e[0].endswith("Item::to_tokens") and "parse2(sym:item)" in e[1][0]]
        gen_pos = [i for i, e in enumerate(r.events) if e[0] == "ToTokens::TokenStream::to_tokens" and called[0] in e[1][0]]
        conv = any(e[0] == "Result::unwrap_or_else" and called[0] in e[1][0] for e in r.events)
        ok_result = isinstance(r.value, mx.Agg) and r.value.variant == "Ok"
        if item_pos and gen_pos and item_pos[0] < gen_pos[0] and conv and ok_result:
            obl.discharged += 1
        else:
            probes.structural(out, "lib-build|%s" % called[0], "lib.rs `build` does not emit the parsed item followed by the generated tokens / the builder's error as compile_error "
                          "(item first: %s, error converted: %s, result Ok: %s)" % (bool(item_pos and gen_pos and item_pos[0] < gen_pos[0]), conv, ok_result), ['C14.lib', 'C14.strip-on-core-error'])
    obl.total += 1
    if seen_builders == builders:
        obl.discharged += 1
    else:
        probes.structural(out, "lib-build|dispatch", "lib.rs `build` does not dispatch struct / enum / impl items to their builders (%s)" % sorted(seen_builders), ['C14.lib', 'C14.strip-on-core-error'])
    ex = eng.executor(opaque_local={"build"})
    ex.trace = _All()
    fn = eng.find("derive_ex")
    res = ex.run(fn, eng.args_for(fn))
    obl.note_paths("lib::derive_ex", res, ex)
    obl.total += 1
    ok = len(res) == 2
    for r in res:
        v = ex.summ(mx.State(), r.value) if r.kind == "return" else ""
        err_path = any(e[0].endswith("to_compile_error") for e in r.events)
        if err_path:
            ext = [e for e in r.events if e[0].endswith("::extend")]
            ok = ok and bool(ext) and "sym:item" in ext[0][1][0] and "to_compile_error" in " ".join(ext[0][1][1:]) and "sym:item" in v and "build(" not in v
        else:
            ok = ok and "build(" in v
    # the derive entry point emits generated tokens only: on failure just the error, never the input item again (the item already exists)
    ex = eng.executor(opaque_local={"build_derive"})
    ex.trace = _All()
    fn = eng.find("derive_ex_derive")
    res2 = ex.run(fn, eng.args_for(fn))
    obl.note_paths("lib::derive_ex_derive", res2, ex)
    obl.total += 1
    good = len(res2) == 2
    for r in res2:
        v = ex.summ(mx.State(), r.value) if r.kind == "return" else ""
        if "build_derive(" not in v or any(e[0].endswith("::extend") for e in r.events):
            good = False
    if good:
        obl.discharged += 1
    else:
        probes.structural(out, "lib-derive_ex_derive|output", "the derive entry point returns something else than the builder's tokens / the builder's error: %s" % (
            [(r.kind, [e[0].split("::")[-1] for e in r.events]) for r in res2],), ['C14.lib', 'C14.strip-on-core-error'])
    if ok:
        obl.discharged += 1
    else:
        probes.structural(out, "lib-derive_ex|error-path", "the attribute entry point does not return the original item followed by the error when `build` fails: %s" % (
            [(r.kind, [e[0].split("::")[-1] for e in r.events]) for r in res],), ['C14.lib', 'C14.strip-on-core-error'])


def replay_failures(obl, out):
    for label, model, info in obl.failed:
        if label.startswith("coverage:"):
            out.broken.append("path conditions do not cover the configuration space: " + label)
            continue
        if info[0] == "remove":
            replay_remove(out, label, model, info)
            continue
        if info[0] == "core-kinds":
            probes.structural(out, "core-kinds|" + info[1], info[2], ["C14.strip-on-core-error", "C14.strip-on-error", "C14.strip"])
            continue
        kind, name, ex = info
        if kind == "is_match":
            # replay: derive exactly the traits of the model through the attribute macro and look whether `#[name(..)]` on a field survives
            flags = {fl: z3.is_true(model.eval(ex.bvar("self." + fl), model_completion=True)) for fl in FLAGS}
            traits = [t for t, fl in (("Default", "default"), ("Debug", "debug"), ("Ord", "ord"), ("PartialOrd", "partial_ord"), ("Eq", "eq"),
                                      ("PartialEq", "partial_eq"), ("Hash", "hash")) if flags[fl]]
            if not traits or name in (None, "derive_ex"):
                probes.structural(out, "is_match|%s" % name, "is_match(%s) disagrees with the documentation table for derived flags %s" % (name, flags), 'C14.kinds')
                continue
            arg = {"default": "_", "debug": "ignore"}.get(name, "bound(..)")
            # the form the attribute is written in (syn::Meta: Path / List / NameValue), when the path depends on it
            form = 1
            for d in model.decls():
                if re.fullmatch(r"disc\(attr\.(3|meta)\)", d.name()):
                    form = model[d].as_long()
            item = "struct X { #[%s] f0: u8 }" % {0: name, 2: "%s = 5" % name}.get(form, "%s(%s)" % (name, arg))
            doc_owned = name in ("default", "debug") and flags[name] or name in AFFECTS and any(flags[x] for x in AFFECTS[name])
            case = {"property": PID, "kind": "stripped", "mode": "attr", "attr": ", ".join(traits), "item": item, "expected_kept": {name: not doc_owned},
                    "explain": "attribute #[%s] with derived traits %s: the documentation %s it to a derived trait" % (name, traits, "assigns" if doc_owned else "does not assign")}
            from . import replay_e3
            obs = replay_e3.observe(case)
            path = e3.write_replay(PID, "case-%s-%s" % (name, "-".join(traits)), case)
            if replay_e3.disagrees(case, obs):
                out.violation("is_match|%s|%s" % (name, "+".join(traits)), path,
                              "#[%s(..)] on a field is %s although the documentation %s: #[derive_ex(%s)] %s" % (
                                  name, "kept" if doc_owned else "stripped", "assigns it to a derived trait" if doc_owned else "does not assign it to any derived trait", ", ".join(traits), item))
            else:
                e3.not_reproduced(out, model, "for %s" % label)
        else:
            probes.structural(out, "extend", "HelperAttributeKinds::extend does not raise exactly the flags of the derived traits (%s)" % label, 'C14.kinds')


def replay_remove(out, label, model, info):
    """a model of a failed remove_attrs obligation -> an item whose type-level attributes follow the model: matching ones are further `#[derive_ex(..)]` lists,
    the others doc attributes; the re-emitted item must carry exactly the doc attributes, in order"""
    from . import replay_e3
    what, ex, match, k = info[1], info[2], info[3], info[4]
    tv = [z3.is_true(model.eval(m, model_completion=True)) for m in match]
    extra = ["Clone", "Default", "Debug", "Hash"]
    attrs, expected = [], []
    for i, t in enumerate(tv):
        if t:
            attrs.append("#[derive_ex(%s)]" % extra[i % len(extra)])
        else:
            attrs.append('#[doc = "k%d"]' % i)
            expected.append("k%d" % i)
    item = "%s struct X { a: u8 }" % " ".join(attrs)
    case = {"property": PID, "kind": "attr_order", "mode": "attr", "attr": "PartialEq", "item": item, "expected_docs": expected,
            "explain": "MIR path of remove_attrs %s when is_match answers %s" % (what, tv)}
    key = "remove_attrs|%s" % "".join("m" if t else "k" for t in tv)
    if any(v[0] == key for v in out.violations):
        return
    obs = replay_e3.observe(case)
    if replay_e3.disagrees(case, obs):
        path = e3.write_replay(PID, "remove-%s" % key.split("|")[1], case)
        out.violation(key, path, "the re-emitted item does not carry exactly the attributes that are not derive_ex's, in their order: #[derive_ex(PartialEq)] %s -> %s" % (item, obs.get("item0", "")[:160]))
    else:
        e3.not_reproduced(out, model, "for %s: %s" % (label, item))


def run(tier):
    t0 = time.time()
    out = common.Outcome(PID)
    eng = mir_engine.Engine()
    obl = e3.Obligations(PID)
    steps = [(check_is_match, ()), (check_extend, (2 if tier == "quick" else 3,)), (check_remove_attrs, (3 if tier == "quick" else 5,)), (check_entry, ("struct",)),
             (check_entry, ("enum",)), (check_core_kinds, ("struct",)), (check_core_kinds, ("enum",)), (check_lib_entries, ())]
    for f, args in steps:
        # one part the executor cannot follow (a function renamed or restructured) must not take the other parts down
        try:
            f(eng, obl, out, *args)
        except mx.Inconclusive as e:
            out.inconclusive.append("fn=%s reason=%s" % (f.__name__, e))
        except Exception as e:  # noqa
            out.inconclusive.append("fn=%s reason=executor error %s: %s" % (f.__name__, type(e).__name__, str(e)[:200]))
    try:
        replay_failures(obl, out)
        if tier == "thorough":
            e3.cross_check_solvers(obl, out)
    except mx.Inconclusive as e:
        out.inconclusive.append("fn=? reason=%s" % e)
    return e3.finish(
        PID, tier, t0, eng, obl, out,
        rule="every feasible MIR path of HelperAttributeKinds::{is_match, extend}, remove_attrs and the two attribute-macro entry functions is one case; the set of derived "
             "traits (8 flags), the attribute name and the list of derive entries are symbolic",
        bounds="<=2 (thorough 3) derive entries; <=2 fields / variants in the entry functions; attribute names compared through symbolic string equalities",
        outside="token-for-token survival of everything else (visibility, generics, discriminants, doc comments, order): that is syn's parse -> print round trip and `quote!(#item #ts)`, "
                "for which there is no encoding; the derive-macro entry point emits no item at all")
