"""C02 — accepted attribute combinations give mutually coherent Eq/Ord/Hash impls (E1, model-free laws)."""
import itertools
import random
import time

from . import common, e1, kani_runner, gen_cmp
from .common import log
from .gen_cmp import Field, TypeSpec, Variant, entry_attrs

PID = "C02"
F = Field
ORD_OPTS = [(), ("ignore",), ("reverse",), ("key",), ("by",), ("reverse", "key"), ("reverse", "by")]
EQ_OPTS = [(), ("ignore",), ("key",), ("by",)]
BASE = [["PartialEq"], ["PartialEq", "Eq"], ["PartialEq", "PartialOrd"], ["PartialEq", "Eq", "PartialOrd"], ["PartialEq", "Eq", "PartialOrd", "Ord"]]
SUBSETS = BASE + [b + ["Hash"] for b in BASE]


def make_type(placement, combo):
    o, po, e, pe, h = combo
    attrs = {}
    for name, opt in (("ord", o), ("partial_ord", po), ("eq", e), ("partial_eq", pe), ("hash", h)):
        if opt:
            attrs[name] = set(opt)
    fa = F("a", "u8", attrs)
    fa.consistent = True
    if placement == "struct":
        return TypeSpec("struct", [Variant(None, "named", [fa, F("b", "u8")])], shape="struct")
    fa.name = None
    return TypeSpec("enum", [Variant("A", "tuple", [F(None, "u8"), fa]), Variant("B", "tuple", [F(None, "u8")])], shape="enum")


def combo_str(c):
    return ",".join("%s(%s)" % (n, "+".join(o)) for n, o in zip(("ord", "partial_ord", "eq", "partial_eq", "hash"), c) if o) or "-"


def laws(traits):
    b = ["    let a = mk(s);", "    let b = mk(s);", "    let c = mk(s);"]
    T = set(traits)
    b += ['    cover!(a == b, "some-equal-pair");', '    cover!(!(a == b), "some-unequal-pair");']
    b += ['    assert!((a == b) == (b == a), "eq-symmetric");',
          '    if a == b && b == c { assert!(a == c, "eq-transitive"); }',
          '    assert!((a != b) == !(a == b), "ne-is-not-eq");']
    if "Eq" in T:
        b += ['    assert!(a == a, "eq-reflexive");']
    if "PartialOrd" in T:
        b += ["    let pab = a.partial_cmp(&b);", "    let pba = b.partial_cmp(&a);", "    let pbc = b.partial_cmp(&c);", "    let pac = a.partial_cmp(&c);",
              '    assert!((a == b) == (pab == Some(Ordering::Equal)), "eq-iff-partial_cmp-equal");',
              '    assert!(pab == pba.map(Ordering::reverse), "partial_cmp-duality");',
              '    if pab == Some(Ordering::Less) && pbc == Some(Ordering::Less) { assert!(pac == Some(Ordering::Less), "partial_cmp-transitive"); }',
              '    cover!(pab == Some(Ordering::Less) && pbc == Some(Ordering::Less), "chain");']
    if "Ord" in T:
        b += ["    let cab = a.cmp(&b);", "    let cba = b.cmp(&a);", "    let cbc = b.cmp(&c);", "    let cac = a.cmp(&c);",
              '    assert!(pab == Some(cab), "partial_cmp-is-some-cmp");',
              '    assert!((a == b) == (cab == Ordering::Equal), "eq-iff-cmp-equal");',
              '    assert!(cab == cba.reverse(), "cmp-flips-under-swap");',
              '    if cab != Ordering::Greater && cbc != Ordering::Greater { assert!(cac != Ordering::Greater, "cmp-transitive"); }']
    if "Hash" in T:
        b += ["    let mut ha = Rec::new();", "    Hash::hash(&a, &mut ha);", "    let mut hb = Rec::new();", "    Hash::hash(&b, &mut hb);",
              '    if a == b { assert!(ha.same(&hb), "eq-implies-equal-hash-feed"); }']
    return b


def build(name, placement, combo, traits, entry):
    t = make_type(placement, combo)
    desc = "placement=%s attrs=%s traits=%s entry=%s" % (placement, combo_str(combo), "+".join(traits), entry)
    sig = "%s|%s|%s|%s" % (placement, combo_str(combo), "+".join(traits), entry)
    src = e1.HEADER.format(pid=PID, name=name, desc=desc)
    src += t.item_text(entry_attrs(entry, traits)) + "\n\n" + t.mk_fn() + "\n"
    src += "pub fn check<S: Src>(s: &mut S) {\n%s\n}\n\n" % "\n".join(laws(traits))
    src += e1.harness(unwind=18)
    return kani_runner.Program(name, src, sig, desc, nontrivial=any(combo))


def all_points():
    for combo in itertools.product(ORD_OPTS, ORD_OPTS, EQ_OPTS, EQ_OPTS, EQ_OPTS):
        yield combo


def accepted(points, outcome=None):
    """R: which (placement, combo, traits, entry) does the macro accept; disagreements with the documented verdict are reported"""
    reqs = []
    for (pl, combo, ts, en) in points:
        t = make_type(pl, combo)
        if en == "attr":
            reqs.append(("attr", ", ".join(ts), t.item_text()))
        else:
            reqs.append(("derive", "", t.item_text(["#[derive_ex(%s)]" % ", ".join(ts)])))
    res = common.expand_many(reqs)
    acc = []
    reported = 0
    for pt, r, rq in zip(points, res, reqs):
        did = "accept"
        if "panic" in r or not r.get("parse_ok") or common.compile_errors(r):
            did = "reject"
        elif pt[3] == "attr":
            item0 = r["items"][0].get("text", "") if r["items"] else ""
            if any(("# [%s" % a) in item0 for a in gen_cmp.CMP_ATTRS):
                did = "unrecognised"
        doc = gen_cmp.doc_verdict(make_type(pt[0], pt[1]), pt[2], pt[3])
        if outcome is not None and did != doc[0] and not (did == "reject" and doc[0] == "unrecognised") and reported < 6:
            from . import e3, replay_e3
            reported += 1
            case = {"property": PID, "kind": "reject", "mode": rq[0], "attr": rq[1], "item": rq[2], "expected_reject": doc[0] == "reject",
                    "explain": "documentation verdict %s, macro %s; verdict from the macro's own diagnostics, not from the solver" % (doc, did)}
            path = e3.write_replay(PID, "acceptance%02d" % reported, case)
            obs = replay_e3.observe(case)
            if "unrecognised" in (did, doc[0]) or replay_e3.disagrees(case, obs):
                outcome.violation("acceptance|%s|%s|%s|%s|doc=%s|macro=%s" % (pt[0], combo_str(pt[1]), "+".join(pt[2]), pt[3], doc[0], did), path,
                                  "the macro %ss a combination for which the documentation says %s: %s %s" % (did, doc[0], rq[1], " ".join(rq[2].split())[:300]))
        if did == "accept":
            acc.append(pt)
    return acc


def run(tier):
    t0 = time.time()
    rnd = random.Random(common.seed())
    combos = list(all_points())
    pts = []
    if tier == "thorough":
        for c in combos:
            for pl in ("struct", "enum"):
                for ts in SUBSETS:
                    pts.append((pl, c, ts, "attr"))
    else:
        full = SUBSETS[9]
        core = [c for c in combos if sum(1 for x in c if x) <= 1]
        for c in core:
            pts.append(("struct", c, full, "attr"))
        for c in rnd.sample(combos, 700):
            pts.append((rnd.choice(["struct", "enum"]), c, rnd.choice(SUBSETS), rnd.choice(["attr", "attr", "derive"])))
    out = common.Outcome(PID)
    acc = accepted(pts, out)
    if tier != "thorough":
        head = [p for p in acc if sum(1 for x in p[1] if x) <= 1 and p[2] == SUBSETS[9]]
        rest = [p for p in acc if p not in head]
        acc = head + rest[:260]
    log("[C02] %d points, %d accepted by the macro" % (len(pts), len(acc)))
    progs = [build("p%05d" % i, *p) for i, p in enumerate(acc)]
    return e1.finish(
        PID, tier, progs, t0, outcome=out,
        rule="one Kani harness per accepted point of the 7x7x4x4x4 per-field attribute matrix x placement x supertrait-closed derived subset; three symbolic values "
             "(pairs and triples) of the type; model-free laws asserted; non-trivial = at least one helper attribute; distinct by placement|combo|traits|entry",
        bounds="one attributed u8 field plus one plain u8 field (struct field / enum-variant field); every key/by callback expresses the same key (payload >> 1); recorder 16 bytes",
        outside="several attributed fields; user callbacks that express different keys (then coherence is the user's responsibility); that the refused set is exactly the documented one (C05)",
        functions=["PartialEq::eq/ne, PartialOrd::partial_cmp, Ord::cmp, Hash::hash generated by derive_ex for each program"],
        assumptions=["acceptance of a combination is read from the real macro (R)"],
        extra={"points_considered": len(pts), "accepted": len(acc), "matrix_size": len(combos)},
        batch=600)
