"""Shared plumbing: paths, scratch slots, evidence, known findings, native expander client."""
import atexit
import fcntl
import json
import os
import shutil
import subprocess
import sys
import time

VERIF = os.path.dirname(os.path.dirname(os.path.abspath(__file__)))
REPO = os.environ.get("VERIF_REPO", "/repo")
CACHE = os.path.join(VERIF, ".cache")
GUARD = "frozenlib_derive_ex_verif"

ENV = dict(os.environ)
ENV["CARGO_NET_OFFLINE"] = "true"
ENV.setdefault("CARGO_TERM_COLOR", "never")


def seed():
    try:
        return int(os.environ.get("VERIF_SEED", "0"))
    except ValueError:
        return 0


def log(*a):
    print(*a, file=sys.stderr, flush=True)


# ---------------------------------------------------------------------------------------------
# scratch slots: a small pool of reusable build directories (so that the dependency builds of
# syn/quote/... are cached between runs) guarded by file locks, so concurrent checks never share
# ---------------------------------------------------------------------------------------------
class Slot:
    def __init__(self):
        os.makedirs(os.path.join(CACHE, "slots"), exist_ok=True)
        self.lock = None
        i = 0
        while True:
            path = os.path.join(CACHE, "slots", str(i))
            os.makedirs(path, exist_ok=True)
            f = open(os.path.join(path, ".lock"), "w")
            try:
                fcntl.flock(f, fcntl.LOCK_EX | fcntl.LOCK_NB)
                self.lock = f
                self.path = path
                break
            except OSError:
                f.close()
                i += 1
                if i > 63:
                    raise RuntimeError("no free scratch slot")

    def dir(self, name, clean=False):
        p = os.path.join(self.path, name)
        if clean and os.path.exists(p):
            shutil.rmtree(p)
        os.makedirs(p, exist_ok=True)
        return p

    def release(self):
        if self.lock:
            try:
                fcntl.flock(self.lock, fcntl.LOCK_UN)
                self.lock.close()
            except OSError:
                pass
            self.lock = None


_slot = None


def slot():
    global _slot
    if _slot is None:
        _slot = Slot()
        atexit.register(_slot.release)
    return _slot


# ---------------------------------------------------------------------------------------------
# native expander (R)
# ---------------------------------------------------------------------------------------------
_expander_ready = False


def _repo_tag():
    import hashlib
    return "" if REPO == "/repo" else "-" + hashlib.sha1(REPO.encode()).hexdigest()[:10]


def _lockfile():
    """Cargo.lock is ignored by git in /repo: a scratch worktree (VERIF_REPO) may not have one"""
    p = os.path.join(REPO, "Cargo.lock")
    return p if os.path.exists(p) else "/repo/Cargo.lock"


def hook_target_dir():
    return os.path.join(CACHE, "hooklib-target" + _repo_tag())


def build_expander():
    """(Re)build the hook library + expander from /repo's current working tree."""
    global _expander_ready
    if _expander_ready:
        return expander_path()
    os.makedirs(CACHE, exist_ok=True)
    lockf = open(os.path.join(CACHE, "hooklib%s.lock" % _repo_tag()), "w")
    fcntl.flock(lockf, fcntl.LOCK_EX)
    try:
        src = os.path.join(VERIF, "hooklib")
        work = os.path.join(CACHE, "hooklib-src" + _repo_tag())
        # the manifest names /repo/derive-ex/src/lib.rs; honour VERIF_REPO for scratch worktrees
        if os.path.exists(work):
            shutil.rmtree(work)
        shutil.copytree(src, work)
        man = os.path.join(work, "Cargo.toml")
        t = open(man).read().replace("/repo/derive-ex/src/lib.rs", os.path.join(REPO, "derive-ex/src/lib.rs"))
        open(man, "w").write(t)
        shutil.copy(_lockfile(), os.path.join(work, "Cargo.lock"))
        env = dict(ENV)
        env["RUSTFLAGS"] = "--cfg " + GUARD
        env["CARGO_TARGET_DIR"] = hook_target_dir()
        t0 = time.time()
        r = subprocess.run(["cargo", "build", "--release", "--offline", "--bin", "expander"], cwd=work, env=env,
                           stdout=subprocess.PIPE, stderr=subprocess.STDOUT, text=True)
        if r.returncode != 0:
            log(r.stdout[-4000:])
            raise RuntimeError("hooklib build failed (does /repo still compile with --cfg %s?)" % GUARD)
        log("[R] expander built in %.1fs" % (time.time() - t0))
    finally:
        fcntl.flock(lockf, fcntl.LOCK_UN)
        lockf.close()
    _expander_ready = True
    return expander_path()


def expander_path():
    return os.path.join(hook_target_dir(), "release", "expander")


def expand_many(reqs):
    """reqs: list of (mode, attr, item). Returns list of dicts (see hooklib/expander/main.rs)."""
    if not reqs:
        return []
    exe = build_expander()
    data = "".join("%s\x1f%s\x1f%s\x1e" % (m, a, i) for (m, a, i) in reqs)
    r = subprocess.run([exe], input=data, stdout=subprocess.PIPE, stderr=subprocess.PIPE, text=True)
    if r.returncode != 0:
        raise RuntimeError("expander failed: " + r.stderr[-2000:])
    out = [json.loads(l) for l in r.stdout.splitlines() if l.strip()]
    if len(out) != len(reqs):
        raise RuntimeError("expander returned %d results for %d requests" % (len(out), len(reqs)))
    return out


def norm(s):
    """token-string normalisation: drop all whitespace"""
    return "".join(s.split())


def compile_errors(res):
    return [it["msg"] for it in res.get("items", []) if it.get("kind") == "compile_error"]


# ---------------------------------------------------------------------------------------------
# known findings
# ---------------------------------------------------------------------------------------------
def load_known():
    p = os.path.join(VERIF, "known_findings.json")
    if not os.path.exists(p):
        return []
    return json.load(open(p)).get("findings", [])


def known_match(pid, key):
    for f in load_known():
        if f.get("property") == pid and f.get("key") == key:
            return f
    return None


# ---------------------------------------------------------------------------------------------
# evidence
# ---------------------------------------------------------------------------------------------
def write_evidence(pid, tier, coverage, assumptions, wall_s, violations, level="model_checking"):
    evdir = os.environ.get("VERIF_EVIDENCE_DIR") or os.path.join(VERIF, "evidence")
    os.makedirs(evdir, exist_ok=True)
    ev = {
        "property_id": pid,
        "tier": tier,
        "seed": seed(),
        "level": level,
        "coverage": coverage,
        "assumptions": assumptions,
        "wall_s": round(wall_s, 2),
        "violations": violations,
    }
    p = os.path.join(evdir, pid + ".json")
    tmp = p + ".tmp"
    json.dump(ev, open(tmp, "w"), indent=1)
    os.replace(tmp, p)
    return p


class Outcome:
    """Collects what a check run found and turns it into exit code + stdout lines."""

    def __init__(self, pid):
        self.pid = pid
        self.violations = []  # (key, replay_path, what)
        self.known = []
        self.broken = []  # messages; exit 2
        self.inconclusive = []

    def violation(self, key, replay, what):
        k = known_match(self.pid, key)
        if k:
            if key not in [x[0] for x in self.known]:
                self.known.append((key, k.get("what", what)))
        elif not any(v[0] == key and v[1] == replay for v in self.violations):
            self.violations.append((key, replay, what))

    def _structural_replay(self, n, key, what):
        """violations that are facts about the macro's own code (E3 structural obligations) or that exceeded the native replay budget:
        the replay re-runs the deciding check and greps for the same role key"""
        import re
        d = os.path.join(VERIF, "replays", self.pid, "recheck-%02d-%s" % (n, re.sub(r"[^A-Za-z0-9_.-]+", "_", key)[:60]))
        os.makedirs(d, exist_ok=True)
        json.dump({"property": self.pid, "key": key, "what": what}, open(os.path.join(d, "case.json"), "w"), indent=1)
        open(os.path.join(d, "run.sh"), "w").write(
            "#!/bin/sh\n# re-runs the deciding check against /repo's current tree; exit 0 = the same violation is reported again\n"
            "cd \"$(dirname \"$0\")/../../..\" && ./check %s quick 2>/dev/null | grep -F -q -- %s\n" % (self.pid, json.dumps("key=" + key)))
        os.chmod(os.path.join(d, "run.sh"), 0o755)
        return d

    def finish(self):
        for key, what in self.known:
            print("KNOWN-FINDING: property=%s %s: %s" % (self.pid, key, what))
        for m in self.inconclusive:
            print("INCONCLUSIVE property=%s %s" % (self.pid, m))
        for m in self.broken:
            print("BROKEN-CHECK property=%s %s" % (self.pid, m))
        for n, (key, replay, what) in enumerate(self.violations):
            if replay in ("-", None, ""):
                replay = self._structural_replay(n, key, what)
            print("VIOLATION property=%s replay=%s" % (self.pid, replay))
            print("  DETAIL key=%s: %s" % (key, what))
        sys.stdout.flush()
        if self.violations:
            return 1
        if self.broken:
            return 2
        return 0
