"""C06 — Hash feeds exactly the effective inputs of the non-ignored fields, in order (E1)."""
import itertools
import random
import time

from . import common, e1, kani_runner, gen_cmp
from .common import log
from .gen_cmp import accepted, candidate_desc, sig_of, entry_attrs

PID = "C06"
SUBSETS = [["Hash"], ["Hash", "PartialEq"], ["Hash", "PartialEq", "Eq"], ["PartialEq", "Eq", "Hash", "PartialOrd", "Ord"]]
OPTS = {"hash": [("ignore",), ("key",), ("by",)], "eq": [("ignore",), ("key",), ("by",)], "ord": [("ignore",), ("key",), ("by",), ("reverse",), ("reverse", "key")],
        "partial_eq": [("key",), ("ignore",)], "partial_ord": [("key",), ("ignore",)]}


def eff_same_fn(t):
    tu = t.ty_use()
    arms = []
    for v in t.variants:
        conds = []
        for i, f in enumerate(v.fields):
            if gen_cmp.ignored(f, "Hash"):
                continue
            c = gen_cmp.comparator(f, "Hash")
            if c is None:
                conds.append("(*a%d == *b%d)" % (i, i))
            else:
                n = gen_cmp.KEY_N[c[0]]
                conds.append("(kk::<%d, _>(a%d) == kk::<%d, _>(b%d))" % (n, i, n, i))
        arms.append("        (%s, %s) => %s," % (t.pat(v, "a"), t.pat(v, "b"), " && ".join(conds) or "true"))
    if t.kind == "enum":
        arms.append("        _ => false,")
    return "/// effective hash inputs of two values of the same variant are equal\n#[allow(unreachable_patterns)]\npub fn eff_same(x: &%s, y: &%s) -> bool {\n    match (x, y) {\n%s\n    }\n}\n" % (tu, tu, "\n".join(arms))


CHECK = """pub fn check<S: Src>(s: &mut S) {
    let x = mk(s);
    let y = mk(s);
    let mut gx = Rec::new();
    Hash::hash(&x, &mut gx);
    let mut wx = Rec::new();
    ref_hash_fields(&x, &mut wx);
    assert!(!gx.overflow && !wx.overflow, "harness-recorder-capacity");
    assert!(gx.same(&wx), "hash-feed");
    let mut gy = Rec::new();
    Hash::hash(&y, &mut gy);
    if vidx(&x) == vidx(&y) {
        let e = eff_same(&x, &y);
        cover!(e, "inputs-equal");
        COVER_DIFF
        assert!(gx.same(&gy) == e, "feed-equal-iff-inputs-equal");
    }
}

"""


def has_effective(t):
    return any((not gen_cmp.ignored(f, "Hash")) and "PhantomData" not in f.ty for _, f in t.all_fields())


def build(name, t, traits, entry, desc, sig):
    src = e1.HEADER.format(pid=PID, name=name, desc=desc)
    src += t.item_text(entry_attrs(entry, traits)) + "\n\n"
    src += gen_cmp.oracle_fns(t, traits=("Hash",)) + "\n" + eff_same_fn(t) + "\n" + t.mk_fn() + "\n"
    src += CHECK.replace("COVER_DIFF", 'cover!(!e, "inputs-differ");' if has_effective(t) else "")
    src += e1.harness(unwind=18)
    nontrivial = sum(len(v.fields) for v in t.variants) >= 2 or any(f.attrs for _, f in t.all_fields())
    return kani_runner.Program(name, src, sig, desc, nontrivial)


def all_candidates():
    shapes = ["s_named3", "s_tuple2", "s_named4", "s_gen", "e_mixed", "e_two", "e_single", "e_gen"]
    single = [(a, o) for a in ("hash", "eq", "ord", "partial_eq", "partial_ord") for o in OPTS[a]]
    out = []
    for sh in shapes + ["s_unit", "e_units3", "s_named1", "s_marker"]:
        for ts in SUBSETS:
            for en in ("attr", "derive"):
                out.append((sh, [], ts, en))
    for sh in shapes:
        n = len(list(gen_cmp.shapes()[sh]().all_fields()))
        for idx in range(n):
            for (a, o) in single:
                for ts in SUBSETS:
                    for en in ("attr", "derive"):
                        out.append((sh, [(idx, a, o)], ts, en))
    for sh, idx in (("s_named3", 1), ("e_mixed", 2), ("s_tuple2", 1)):
        for (a1, o1), (a2, o2) in itertools.combinations(single, 2):
            if a1 == a2:
                continue
            for ts in SUBSETS:
                out.append((sh, [(idx, a1, o1), (idx, a2, o2)], ts, "attr"))
    return out


def core_candidates():
    out = []
    single = [(a, o) for a in ("hash", "eq", "ord") for o in OPTS[a]]
    for sh in ["s_named3", "s_tuple2", "s_gen", "e_mixed", "e_two", "e_single", "e_gen", "s_unit", "e_units3", "e_data_unit", "s_marker"]:
        out.append((sh, [], ["Hash"], "attr"))
        out.append((sh, [], SUBSETS[3], "derive"))
    for sh, idx in (("s_named3", 1), ("e_mixed", 2), ("s_named3", 2), ("s_tuple2", 0)):
        for (a, o) in single:
            for ts in (SUBSETS[0], SUBSETS[3]):
                out.append((sh, [(idx, a, o)], ts, "attr"))
            out.append((sh, [(idx, a, o)], SUBSETS[0], "derive"))
    # explicit bound() at the type level together with own / inherited keys and by
    for sh, idx in (("s_hashbound", 1), ("e_hashbound", 1), ("s_hashbound", 2)):
        out.append((sh, [], ["Hash"], "attr"))
        for (a, o) in single:
            out.append((sh, [(idx, a, o)], SUBSETS[0] if a == "hash" else SUBSETS[3], "attr"))
    pairs = [(("hash", ("key",)), ("eq", ("key",))), (("eq", ("key",)), ("ord", ("key",))), (("hash", ("by",)), ("eq", ("key",))),
             (("hash", ("key",)), ("ord", ("key",))), (("hash", ("by",)), ("ord", ("by",))), (("hash", ("key",)), ("eq", ("by",))),
             (("hash", ("ignore",)), ("eq", ("key",))), (("eq", ("by",)), ("hash", ("key",))), (("hash", ("by",)), ("ord", ("reverse", "key"))),
             (("eq", ("ignore",)), ("hash", ("key",))), (("ord", ("ignore",)), ("hash", ("by",))), (("eq", ("ignore",)), ("hash", ("by",)))]
    for (a1, o1), (a2, o2) in pairs:
        for sh, idx in (("s_named3", 1), ("e_mixed", 2)):
            for ts in (SUBSETS[0], SUBSETS[2], SUBSETS[3]):
                out.append((sh, [(idx, a1, o1), (idx, a2, o2)], ts, "attr"))
    return out


def run(tier):
    t0 = time.time()
    rnd = random.Random(common.seed())
    if tier == "thorough":
        cands = all_candidates()
    else:
        cands = core_candidates()
        for c in rnd.sample(all_candidates(), 120):
            pl = [tuple(p) + ((rnd.randrange(len(gen_cmp.KEY_STYLES)),) if "key" in p[2] else ()) for p in c[1]]
            cands.append((c[0], pl, c[2], c[3]))
        for ks in range(1, len(gen_cmp.KEY_STYLES)):
            cands.append(("s_named3", [(1, "hash", ("key",), ks)], SUBSETS[0], "attr"))
            cands.append(("e_mixed", [(2, "eq", ("key",), ks)], SUBSETS[2], "attr"))
    seen, uniq = set(), []
    for c in cands:
        k = candidate_desc(*c)
        if k not in seen:
            seen.add(k)
            uniq.append(c)
    mism = []
    acc, rejected, leftover = accepted(uniq, mism)
    log("[C06] %d candidates, %d accepted, %d rejected, %d unconsumed-attribute" % (len(uniq), len(acc), rejected, leftover))
    progs = [build("p%05d" % i, t, c[2], c[3], candidate_desc(*c), sig_of(c)) for i, (c, t) in enumerate(acc)]
    out = common.Outcome(PID)
    gen_cmp.report_mismatches(PID, mism, out)
    return e1.finish(
        PID, tier, progs, t0, outcome=out,
        rule="one Kani harness per program (shape x hash/eq/ord(/partial_*) placement x derived subset x entry); all field values of two operands symbolic; the derived "
             "Hash::hash is run against a recording Hasher and compared byte for byte with the reference feed; non-trivial = >= 2 fields or an attribute",
        bounds="shapes as C01; one attributed field at every position, or two attributes of different kinds on one field; recorder capacity 16 bytes (unwind 18); "
               "field types with fixed-width feeds (u8,i8,bool,u16,generic A:=u8)",
        outside="variable-length feeds (str, slices); more than one attributed field; the enum discriminant is not part of the statement and is not fed by derive_ex",
        functions=["Hash::hash generated by derive_ex for each program"],
        assumptions=["acceptance of a placement is read from the real macro (R)"],
        extra={"candidates": len(uniq), "rejected_by_macro": rejected, "unconsumed_helper_attribute": leftover})
