"""C11 — default() returns the documented value (E1: values; the Into / rejection decision tables are E3 obligations)."""
import itertools
import random
import time

from . import common, e1, kani_runner, e3_extras

PID = "C11"

# kind -> (field type, attribute text or None, reference value expression)
KINDS = {
    "none-u8": ("u8", None, "0u8"),
    "none-M": ("M", None, "M { v: 0xD7, via: 9 }"),
    "underscore-M": ("M", "#[default(_)]", "M { v: 0xD7, via: 9 }"),
    "underscore-bound-M": ("M", "#[default(_, bound(..))]", "M { v: 0xD7, via: 9 }"),
    "int-lit": ("u8", "#[default(7)]", "7u8"),
    "neg-lit": ("i8", "#[default(-3)]", "-3i8"),
    "bool-lit": ("bool", "#[default(true)]", "true"),
    "char-lit": ("char", "#[default('x')]", "'x'"),
    "call": ("u8", "#[default(sd(0))]", "sd(0)"),
    "block": ("u8", "#[default({ let a = sd(1); a ^ 0x55 })]", "(sd(1) ^ 0x55)"),
    "binary-expr": ("u8", "#[default(sd(2) | 1)]", "(sd(2) | 1)"),
    "path-const-same-type": ("u8", "#[default(K0)]", "9u8"),
    "assoc-const-path": ("u8", "#[default(Cfg::K)]", "11u8"),
    "path-const-into": ("M", "#[default(K0)]", "M { v: 9, via: 1 }"),
    "assoc-const-into": ("M", "#[default(Cfg::K)]", "M { v: 11, via: 1 }"),
    "str-lit-into": ("M", '#[default("abc")]', "M { v: 3, via: 2 }"),
    "call-direct": ("M", "#[default(M::direct(sd(2)))]", "M { v: sd(2), via: 0 }"),
    "path-const-identity": ("M", "#[default(KM)]", "M { v: 5, via: 0 }"),
    "variant-path": ("Mode", "#[default(Mode::Fast)]", "Mode::Fast"),
    "none-Mode": ("Mode", None, "Mode::Slow"),
    # a field type with an inherent `default()` that answers differently: the documented value is that of its `Default` impl
    "none-Evil": ("Evil", None, "Evil(7)"),
    "call-bound": ("u8", "#[default(sd(3), bound(..))]", "sd(3)"),
    "int-lit-bound-empty": ("u8", "#[default(7, bound())]", "7u8"),
    "str-into-bound-empty": ("M", '#[default("ab", bound())]', "M { v: 2, via: 2 }"),
    "method-call": ("u8", "#[default(sd(0).wrapping_add(3))]", "sd(0).wrapping_add(3)"),
    # a parenthesised path is neither a path nor a string literal: no `Into`, the value reaches the field type by coercion
    "paren-const-coerced": ("&'static [u8]", "#[default((BYTES3))]", "&BYTES3[..]"),
    # the expression names an item in scope that is called like the first field (`f0`): it is evaluated at the use site's scope, fields are not locals
    "call-named-like-field": ("u8", "#[default(f0(2))]", "sd(2)"),
}
CORE_KINDS = [k for k in KINDS if k != "call-named-like-field"]


def fields_decl(kind, kinds):
    parts, refs = [], []
    for i, k in enumerate(kinds):
        ty, attr, ref = KINDS[k]
        a = (attr + " ") if attr else ""
        parts.append("%s%s%s" % (a, ("f%d: " % i) if kind == "named" else "", ty))
        refs.append((("f%d" % i) if kind == "named" else str(i), ref))
    if kind == "unit":
        return "", []
    if kind == "named":
        return " { %s }" % ", ".join(parts), refs
    return "(%s)" % ", ".join(parts), refs


def build(name, shape, kinds, entry, variant_kind="named", type_value=None, nvariants=3, defidx=1, list_args="Default"):
    desc = "shape=%s/%s kinds=%s entry=%s type_value=%s list=%s" % (shape, variant_kind, ",".join(kinds), entry, type_value, list_args)
    sig = "%s/%s|%s|%s|%s|%s" % (shape, variant_kind, ",".join(kinds), entry, type_value, list_args)
    src = e1.HEADER.format(pid=PID, name=name, desc=desc)
    pre = "#[derive_ex(%s)]\n" % list_args if entry == "attr" else "#[derive(Ex)]\n#[derive_ex(%s)]\n" % list_args
    tv_attr, tv_ref = "", None
    if type_value == "call":
        tv_attr, tv_ref = "#[default(Self::mk_t(sd(3)))]\n", "sd(3)"
    elif type_value == "path":
        tv_attr, tv_ref = "#[default(KT)]\n", "77u8"
    checks = []
    if shape.startswith("struct"):
        decl, refs = fields_decl(variant_kind, kinds)
        semi = ";" if variant_kind in ("unit", "tuple") else ""
        item = "%s%spub struct T%s%s\n" % (pre, tv_attr, decl, semi)
        acc = lambda n: "got.%s" % n
        if type_value:
            # the type-level value wins: T is built by mk_t / KT, recognisable by the marker field
            extra_field = "mark: u8" if variant_kind == "named" else "u8"
            decl2, refs = fields_decl(variant_kind, kinds)
            if variant_kind == "named":
                inner = decl2.strip()[1:-1].strip()
                item = "%s%spub struct T { %smark: u8 }\n" % (pre, tv_attr, (inner + ", ") if inner else "")
                ctor = "T { %smark: %%s }" % "".join("%s: %s, " % (n, "Default::default()") for n, _ in refs)
                checks.append('    assert!(got.mark == %s, "type-level-value-wins");' % tv_ref)
            else:
                item = "%s%spub struct T(%s u8);\n" % (pre, tv_attr, (decl2.strip()[1:-1] + ",") if refs else "")
                ctor = "T(%s %%s)" % "".join("Default::default(), " for _ in refs)
                checks.append('    assert!(got.%d == %s, "type-level-value-wins");' % (len(refs), tv_ref))
            item += "impl T {\n    pub fn mk_t(m: u8) -> T { %s }\n}\npub const KT: T = %s;\n" % (
                ctor % "m", (ctor % "77").replace("Default::default()", "CONSTDEF"))
            # const context: spell the defaults out
            defaults = {"u8": "0", "i8": "0", "bool": "false", "char": "'\\0'", "M": "M { v: 0xD7, via: 9 }", "Mode": "Mode::Slow", "Evil": "Evil(7)"}
            for k in kinds:
                item = item.replace("CONSTDEF", defaults[KINDS[k][0]], 1)
        else:
            for n, ref in refs:
                checks.append('    assert!(got.%s == %s, "field-%s-value");' % (n, ref, n))
    else:
        # enum: variants V0..; the default one carries the fields
        vs = []
        decl, refs = fields_decl(variant_kind, kinds)
        for i in range(nvariants):
            mark = "#[default] " if (i == defidx and shape != "enum-single") else ""
            if i == defidx:
                vs.append("    %sV%d%s," % (mark, i, decl))
            else:
                vs.append("    V%d%s," % (i, "(u8)" if i % 2 == 0 else ""))
        if type_value:
            # the type-level value wins over the marked variant: V0(u8) is built from a seed / taken from a const
            tv_attr = {"call": "#[default(Self::V0(sd(3)))]\n", "path": "#[default(KT)]\n", "underscore": "#[default(_, bound(..))]\n"}[type_value]
        item = "%s%spub enum T {\n%s\n}\n" % (pre, tv_attr, "\n".join(vs))
        if type_value == "path":
            item += "pub const KT: T = T::V0(77);\n"
        if type_value in ("call", "path"):
            checks.append('    assert!(matches!(got, T::V0(m) if m == %s), "type-level-value-wins");' % ("sd(3)" if type_value == "call" else "77"))
        elif variant_kind == "unit":
            checks.append('    assert!(matches!(got, T::V%d), "default-variant");' % defidx)
        else:
            if variant_kind == "named":
                pat = "T::V%d { %s }" % (defidx, ", ".join("%s: g%d" % (n, i) for i, (n, _) in enumerate(refs)))
            else:
                pat = "T::V%d(%s)" % (defidx, ", ".join("g%d" % i for i in range(len(refs))))
            inner = "\n".join('            assert!(*g%d == %s, "field-%s-value");' % (i, ref, n) for i, (n, ref) in enumerate(refs))
            checks.append("    match &got {\n        %s => {\n%s\n        }\n        _ => assert!(false, \"default-variant\"),\n    }" % (pat, inner))
    if "call-named-like-field" in kinds:
        src += "fn f0(k: usize) -> u8 { sd(k) }\n"
    src += item + "\n"
    src += "pub fn check<S: Src>(s: &mut S) {\n    set_seeds(s);\n    let got: T = Default::default();\n%s\n}\n\n" % "\n".join(checks)
    src += e1.harness()
    return kani_runner.Program(name, src, sig, desc, nontrivial=len(kinds) >= 1)


def run(tier):
    t0 = time.time()
    rnd = random.Random(common.seed())
    progs = []

    def add(*a, **k):
        progs.append(build("p%05d" % len(progs), *a, **k))

    kinds = [k for k in KINDS if k != "call-named-like-field"]
    add("struct", ["none-u8", "call-named-like-field"], "attr", "named")
    add("enum", ["none-u8", "call-named-like-field", "int-lit"], "attr", "named")
    add("struct", ["none-u8", "call-named-like-field"], "derive", "named")
    # every expression kind alone, in a named struct, a tuple struct and an enum variant
    for k in kinds:
        add("struct", [k], "attr", "named")
        add("struct", ["none-u8", k], "attr", "tuple")
        add("enum", [k, "none-M"], "attr", "named")
        if tier == "thorough":
            add("struct", [k], "derive", "named")
            add("enum", [k], "attr", "tuple", nvariants=2, defidx=0)
            add("enum-single", [k, "call"], "attr", "named", nvariants=1, defidx=0)
    add("struct", [], "attr", "unit")
    add("struct", [], "attr", "named")  # struct T {}
    add("struct", [], "attr", "tuple")  # struct T();
    add("enum", [], "attr", "named", nvariants=2, defidx=1)  # #[default] V1 {}
    add("enum-single", [], "attr", "tuple", nvariants=1, defidx=0)  # Only()
    add("enum", [], "attr", "unit", nvariants=3, defidx=2)
    add("enum", [], "derive", "unit", nvariants=2, defidx=0)
    add("enum-single", ["call", "path-const-into"], "attr", "named", nvariants=1, defidx=0)
    add("enum-single", [], "attr", "unit", nvariants=1, defidx=0)
    add("enum-single", ["str-lit-into"], "derive", "tuple", nvariants=1, defidx=0)
    # type-level value, alone and together with field values (the type-level one wins)
    for tv in ("call", "path"):
        for vk in ("named", "tuple"):
            add("struct", ["call", "path-const-into"], "attr", vk, type_value=tv)
            add("struct", [], "attr", vk, type_value=tv)
    for tv in ("call", "path", "underscore"):
        add("enum", ["call", "none-M"], "attr", "named", type_value=tv, nvariants=3, defidx=1)
        add("enum", [], "attr", "unit", type_value=tv, nvariants=3, defidx=1)
        add("enum", ["path-const-into"], "derive", "tuple", type_value=tv, nvariants=2, defidx=1)
    # bound arguments in the list must not change the value
    for la in ("Default(bound())", "Default, bound()", "Default(bound(..))"):
        add("struct", ["call", "str-lit-into", "none-M"], "attr", "named", list_args=la)
        add("enum", ["path-const-into", "int-lit"], "attr", "tuple", list_args=la)
    # combinations
    combos = list(itertools.product(kinds, repeat=2))
    n = len(combos) if tier == "thorough" else 40
    for c in rnd.sample(combos, n):
        add("struct", list(c), "attr", rnd.choice(["named", "tuple"]))
    if tier == "thorough":
        for c in rnd.sample(list(itertools.product(kinds, repeat=3)), 300):
            add("enum", list(c), "attr", rnd.choice(["named", "tuple"]), nvariants=3, defidx=rnd.randrange(3))
    else:
        for c in rnd.sample(list(itertools.product(kinds, repeat=3)), 15):
            add("enum", list(c), "attr", rnd.choice(["named", "tuple"]), nvariants=3, defidx=rnd.randrange(3))
    seen, uniq = set(), []
    for p in progs:
        if p.sig not in seen:
            seen.add(p.sig)
            uniq.append(p)
    out = common.Outcome(PID)
    extra = e3_extras.summary(e3_extras.safe(e3_extras.c11_into, out, 3 if tier == "thorough" else 2))
    return e1.finish(
        PID, tier, uniq, t0, outcome=out, extra=extra,
        rule="one Kani harness per program (shape x choice of default variant x per-field default-expression kind x type-level value x list form); the values that call / block "
             "expressions evaluate to are symbolic seeds; conversion is observed through a From impl that marks its result; distinct by shape|kinds|entry|type-value|list",
        bounds="named/tuple/unit structs and enums (<=3 variants) with <=3 fields; expression kinds %s" % sorted(KINDS),
        outside="expressions whose type inference depends on Into being absent (the Into/no-Into decision per Expr kind and the enum rejection rules are E3 obligations); generic types",
        functions=["Default::default generated by derive_ex for each program"])
