"""C16 — expansion is total and deterministic (E3 panic-freedom kernel: MIR paths + z3; native totality / determinism sampling).

What the solver decides: every *structural* panic site of the macro's own code - an `unreachable!()`, an index or `unwrap` on data the macro
built itself - is unreachable for every configuration within the bounds. The sites are not listed by hand: they are found in the MIR dump of
the current tree (diverging calls, `assert` terminators, calls of partial std functions), so a panic site added by a change is a new obligation.
Each site must be shown unreachable either for every argument value of its function (standalone run, all arguments symbolic) or in every calling
context (context runs that inline the function; all static call sites must lie in code covered by such runs).

What it cannot decide (stated in the evidence): partial calls whose outcome depends on token text (`parse_quote!`, `Ident::new`, `format_ident!`,
`TokenStream::from_str`), syn's and structmeta's parsers, termination, well-formedness of the printed tokens, and determinism. Those are sampled
natively (expander processes on a corpus; byte equality across processes with different hash seeds) and reported as sampling.
"""
import collections
import os
import random
import re
import subprocess
import time

import z3

from . import common, e3, c04
from .common import log
from .mir import engine as mir_engine, exec as mx, chain, cmpcfg

PID = "C16"

# partial std / syn callees whose failure depends on the *shape of data* (decidable on the MIR)
PARTIAL_S = re.compile(r"^(Option::(unwrap|expect)|Result::(unwrap|expect|unwrap_err|expect_err)|Index(Mut)?::\w+::index(_mut)?|Vec::(remove|swap_remove|insert|drain|split_off)"
                       r"|slice::(split_at|split_at_mut|copy_from_slice|swap|chunks|windows|first_chunk)|str::split_at|Index::(str|String)::index|RefCell::borrow(_mut)?|VecDeque::\w*remove\w*)$")
# partial callees whose failure depends on token text (outside the encoding)
PARTIAL_T = re.compile(r"(parse_quote::parse|Ident::new(_raw)?$|mk_ident|Literal::\w+|TokenStream::from_str|FromStr::TokenStream::from_str|__private::parse$|LitStr::parse$|LitInt::base10_parse|str::parse$|parse_str$)")
DIVERGING = re.compile(r"panicking::|unwrap_failed|expect_failed|unreachable|begin_panic|panic_fmt|panic_display|slice_index|index_len_fail|str::slice_error")
HASH_ITER = re.compile(r"(HashMap|HashSet|hash_map|hash_set)\S*::(iter|iter_mut|into_iter|keys|values|values_mut|into_keys|into_values|drain|retain|extract_if|union|intersection|difference|symmetric_difference)$")


def _derive_generated(fn_name, repo):
    m = re.search(r"<impl at ([^:]+):(\d+):(\d+): ", fn_name)
    if not m:
        return False
    try:
        line = open(os.path.join(repo, m.group(1))).read().splitlines()[int(m.group(2)) - 1]
    except (OSError, IndexError):
        return False
    return line.lstrip().startswith("#[derive(")


def inventory(eng, ex):
    """panic-capable sites of the crate's own functions, from the MIR of the current tree"""
    sites = []
    hash_iter = []
    callers = collections.defaultdict(set)  # short callee name -> set of short caller names
    for name, fl in eng.fns.items():
        if name.startswith("const ") or "promoted[" in name:
            continue
        short = ex.qual.get(name, name)
        for f in fl:
            if not f.blocks:
                continue
            gen = _derive_generated(f.name, common.REPO)
            for b, (stmts, term) in sorted(f.blocks.items()):
                if term[0] == "call":
                    c = mx.normalize_callee(term[2])
                    try:
                        kind, target = ex.resolve(term[2], [], mx.State())
                    except Exception:  # noqa
                        kind, target = "opaque", c
                    if kind == "local":
                        callers[ex.qual.get(target.name, target.name)].add(short)
                    if kind == "closure-call":
                        cf = ex._closure_by_sig.get(target)
                        if cf is not None:
                            callers[ex.qual.get(cf.name, cf.name)].add(short)
                    if HASH_ITER.search(c):
                        hash_iter.append((short, c))
                    if term[4].get("return") is None:
                        if DIVERGING.search(c) or True:
                            sites.append({"fn": short, "kind": "diverge", "what": c, "bb": b, "generated": gen, "cls": "S"})
                    elif PARTIAL_S.match(c):
                        sites.append({"fn": short, "kind": "partial-call", "what": c, "bb": b, "generated": gen, "cls": "S"})
                    elif PARTIAL_T.search(c):
                        sites.append({"fn": short, "kind": "partial-call", "what": c, "bb": b, "generated": gen, "cls": "T"})
                elif term[0] == "assert":
                    sites.append({"fn": short, "kind": "assert", "what": "assert", "bb": b, "generated": gen, "cls": "S"})
    # closures are `called` by the function that creates them (they are passed to iterator adaptors the executor evaluates in place)
    for name in list(eng.fns):
        short = ex.qual.get(name, name)
        m = re.match(r"^(.*)::\{closure#\d+\}$", short)
        if m:
            callers[short].add(m.group(1))
    return sites, hash_iter, callers


# ---------------------------------------------------------------------------------------------
# symbolic runs
# ---------------------------------------------------------------------------------------------
class RunInfo:
    def __init__(self, label, entry):
        self.label, self.entry = label, entry
        self.covered = set()
        self.panics = []  # PathResult
        self.stuck = []
        self.checks = []
        self.paths = 0
        self.ex = None
        self.ctx = None  # replay context
        self.error = None
        self.wall = 0.0


def _do_run(eng, label, fname, overrides=None, pre_fn=None, opaque=None, slice_bound=2, ctx=None, budget=None, mem_fn=None):
    info = RunInfo(label, fname)
    info.ctx = ctx
    t0 = time.time()
    try:
        ex = eng.executor(opaque_local=opaque if opaque is not None else eng.opaque_local, slice_bound=slice_bound)
        ex.check_panics = True
        info.ex = ex
        fn = eng.find(fname)
        ov = overrides(ex, fn) if overrides else {}
        pre = pre_fn(ex) if pre_fn else []
        old = os.environ.get("VERIF_E3_RUN_BUDGET")
        if budget:
            os.environ["VERIF_E3_RUN_BUDGET"] = str(budget)
        try:
            res = ex.run(fn, eng.args_for(fn, overrides=ov), pre=pre, mem=mem_fn(ex) if mem_fn else None)
        finally:
            if budget:
                if old is None:
                    os.environ.pop("VERIF_E3_RUN_BUDGET", None)
                else:
                    os.environ["VERIF_E3_RUN_BUDGET"] = old
        info.paths = len(res)
        info.panics = [r for r in res if r.kind == "panic"]
        info.stuck = [r for r in res if r.kind == "stuck"]
        info.checks = list(ex.panic_checks)
        info.covered = set(ex.stats["inlined"]) | {ex.qual.get(fn.name, fn.name)}
        info.results = res
        info.pre = pre
    except mx.Inconclusive as e:
        info.error = str(e)
        if info.ex is not None:
            info.checks = list(info.ex.panic_checks)
    except Exception as e:  # noqa - an executor error must cost this run only
        info.error = "executor error %s: %s" % (type(e).__name__, str(e)[:160])
    info.wall = time.time() - t0
    return info


def builder_runs(eng, tier):
    """every builder, as C04 runs it (same opaque set: token plumbing), without any assumption about which entry kind reaches it"""
    runs = []
    for spec in c04.BUILDERS:
        label, fname, fam, trait, skind, roots = spec
        if fam == "CompareOp":
            continue  # comparison builders: per-field closures below (all 20 atoms of a field free)
        if fam == "Deref":
            continue  # reached through the dispatcher run (its `unreachable!()` arm depends on which kinds the dispatcher routes to it)
        heavy = fam in ("Debug", "Default")
        if skind == "struct":
            sizes = [(1, 1)] if (heavy and tier == "quick") else [(1, 2)]
        else:
            sizes = [(1, 1)] if (heavy and tier == "quick") else [(2, 1)]
        if fam == "Default" and skind == "enum":
            sizes = [(2, 1)] if tier == "quick" else [(3, 1)]
        for nv, nf in sizes:
            def overrides(ex, fn, fname=fname):
                ov = {}
                if fname.endswith("{closure#0}"):
                    ov[1] = mir_engine.closure_env(fn)
                return ov

            def pre_fn(ex, spec=spec, nv=nv, nf=nf):
                label, fname, fam, trait, skind, roots = spec
                shape = c04.Shape(ex, skind, roots, nv, nf)
                pre = list(shape.pre())
                if fam == "Op":
                    pre.append(ex.ivar("disc(kind)", 0, 9) == {"binary-op": 0, "assign-op": 1, "unary-op": 2}[label])
                if "hattrs" in roots:
                    pre.append(ex.ivar("disc(%s.items.{%s})" % (roots["hattrs"], c04.KIND_KEYS[fam] % {"t": trait}), 0, 1) == 0)
                return pre
            runs.append(dict(label="%s[%dx%d]" % (label, nv, nf), fname=fname, overrides=overrides, pre_fn=pre_fn, opaque=c04.OPAQUE, slice_bound=max(nv, nf, 2),
                             ctx=("builder", spec, nv, nf)))
    return runs


def body_runs(eng, tier):
    """the five comparison body builders: one field (all 20 helper atoms free), struct and enum source"""
    runs = []
    for trait in cmpcfg.TRAITS:
        for skind in ("struct", "enum"):
            def pre_fn(ex, skind=skind):
                pre = [ex.ivar("disc(source)", 0, 1) == (0 if skind == "struct" else 1)]
                if skind == "struct":
                    # thorough: two fields with all 40 atoms free (a second variant multiplies the paths beyond the budget: measured 30 000 paths / 300 s)
                    pre.append(ex.ivar("len(source.<Struct>.1)", 0, ex.slice_bound) <= (2 if tier == "thorough" else 1))
                else:
                    pre.append(ex.ivar("len(source.<Enum>.1)", 0, ex.slice_bound) <= 1)
                    for v in range(2):
                        pre.append(ex.ivar("len(source.<Enum>.1.[%d].fields)" % v, 0, ex.slice_bound) <= 1)
                return pre
            from . import c05
            runs.append(dict(label="%s[%s]" % (cmpcfg.BODY_FN[trait], skind), fname=cmpcfg.BODY_FN[trait], pre_fn=pre_fn, opaque=c05.OPAQUE, slice_bound=2,
                             ctx=("body", trait, skind)))
    return runs


BUILDER_FNS = {"build_binary_op", "build_assign_op", "build_unary_op", "build_compare_op_for_struct", "build_compare_op_for_enum", "build_copy_for_struct",
               "build_clone_for_struct", "build_debug_for_struct", "build_default_for_struct", "build_deref_for_struct", "build_copy_for_enum",
               "build_clone_for_enum", "build_debug_for_enum", "build_default_for_enum"}
PARSE_LAYER = {"DeriveEntry::apply_dump", "HelperAttributes::from_attrs", "FieldEntry::from_fields", "VariantEntry::from_variants", "DeriveEntry::from_root",
               "HelperAttributeKinds::extend"}


def dispatcher_runs(eng, tier):
    """the two `*_core` loops with every builder opaque except the Deref builder, whose `unreachable!()` arm and `fields[0]` depend on the dispatch"""
    runs = []
    opaque = (BUILDER_FNS - {"build_deref_for_struct"}) | PARSE_LAYER | c04.OPAQUE
    runs.append(dict(label="build_by_item_struct_core+deref", fname="build_by_item_struct_core", opaque=opaque, slice_bound=3 if tier == "quick" else 4, ctx=("dispatch", "struct")))
    runs.append(dict(label="build_by_item_enum_core", fname="build_by_item_enum_core", opaque=BUILDER_FNS | PARSE_LAYER | c04.OPAQUE, slice_bound=2, ctx=("dispatch", "enum")))
    return runs


# representation invariants of values that come out of syn's parser, stated per function (each is listed in the evidence)
INVARIANTS = {
    "build_ctor_args::{closure#0}": [("disc(f.ident)", 0, 1, 1, "syn: every field of `Fields::Named` has an identifier (the closure only runs over `fields.named`)")],
}


def standalone_runs(eng, ex0, sites, already):
    """every other function with a structural site: all arguments symbolic (no precondition at all)"""
    runs = []
    fns = sorted({s["fn"] for s in sites if s["cls"] == "S" and not s["generated"]} - already)
    for f in fns:
        def overrides(ex, fn):
            ov = {}
            if "{closure" in fn.name and fn.params and "{closure@" in fn.params[0][1]:
                ov[1] = mir_engine.closure_env(fn)
            return ov
        def pre_fn(ex, f=f):
            return [ex.ivar(v, lo, hi) == val for (v, lo, hi, val, _) in INVARIANTS.get(f, [])]
        runs.append(dict(label="standalone:" + f, fname=f, overrides=overrides, pre_fn=pre_fn, opaque=None, slice_bound=2, ctx=("standalone", f), budget=40))
    return runs


# ---------------------------------------------------------------------------------------------
# native side: corpus, totality, determinism
# ---------------------------------------------------------------------------------------------
ODD_ITEMS = [
    # shapes and spellings the suite does not use
    ("attr", "Clone, Debug, PartialEq, Eq, PartialOrd, Ord, Hash", "enum E { A { r#type: u8, r#match: u8 }, B(u8), C }"),
    ("attr", "Clone, Debug, Default, PartialEq, Hash", "struct r#struct { r#fn: u8 }"),
    ("attr", "Clone, Debug, PartialEq, PartialOrd", "enum E<r#type> { r#A(r#type), B { r#in: r#type } }"),
    ("attr", "Add, AddAssign, Neg, Not, Shl, ShrAssign", "struct S { r#type: u8, r#loop: u8 }"),
    ("attr", "Deref, DerefMut", "struct S { r#type: u8 }"),
    ("attr", "Add", "impl ::core::ops::Add<> for T { type Output = T; fn add(self, r: T) -> T { self } }"),
    ("attr", "Sub", "impl std::ops::Sub<> for &T { type Output = T; fn sub(self, r: &T) -> T { T } }"),
    ("attr", "Add", "impl Add<u8, u8> for T { type Output = T; fn add(self, r: u8) -> T { self } }"),
    ("attr", "Add", "impl<'a> Add<&'a T> for &'a T { type Output = T; fn add(self, r: &'a T) -> T { T } }"),
    ("attr", "AddAssign", "impl Add for T { fn add(self, r: T) -> T { self } }"),
    ("attr", "Add", "impl AddAssign for T { fn add_assign(&mut self, r: T) { } }"),
    # operand types that need parentheses behind `&`: bare trait-object / impl-trait types with several bounds, function pointers, unusual but valid type syntax
    ("attr", "Add", "impl Add<dyn Tr + Send> for X { type Output = X; fn add(self, r: dyn Tr + Send) -> X { self } }"),
    ("attr", "Add", "impl Add<u8> for dyn Tr + Send { type Output = u8; fn add(self, r: u8) -> u8 { r } }"),
    ("attr", "Add, AddAssign", "impl<'a> Add<dyn Tr + 'a> for X { type Output = X; fn add(self, r: dyn Tr + 'a) -> X { self } }"),
    ("attr", "Sub", "impl SubAssign<impl A + B> for X { fn sub_assign(&mut self, r: impl A + B) { } }"),
    ("attr", "Add", "impl Add<dyn Tr> for X { type Output = X; fn add(self, r: dyn Tr) -> X { self } }"),
    ("attr", "Add", "impl Add<fn(u8) -> u8> for X { type Output = X; fn add(self, r: fn(u8) -> u8) -> X { self } }"),
    ("attr", "Add", "impl Add<(dyn Tr + Send)> for X { type Output = X; fn add(self, r: (dyn Tr + Send)) -> X { self } }"),
    ("attr", "Add, AddAssign", "impl Add<[u8; 2]> for &(dyn Tr + Send) { type Output = u8; fn add(self, r: [u8; 2]) -> u8 { 0 } }"),
    ("attr", "Mul", "impl Mul<!> for X { type Output = X; fn mul(self, r: !) -> X { self } }"),
    ("attr", "Mul", "impl Mul<_> for X { type Output = X; fn mul(self, r: u8) -> X { self } }"),
    ("attr", "Mul", "impl Mul<m!(u8)> for X { type Output = X; fn mul(self, r: m!(u8)) -> X { self } }"),
    ("attr", "Mul", "impl Mul<*const u8> for X { type Output = X; fn mul(self, r: *const u8) -> X { self } }"),
    ("attr", "Mul", "impl Mul<<u8 as Tr>::Out> for X { type Output = X; fn mul(self, r: <u8 as Tr>::Out) -> X { self } }"),
    ("attr", "Clone, Debug, PartialEq, Hash, Default", "struct S<'a>(u8, &'a (dyn Tr + Send), Box<dyn Tr + Send>, fn(u8) -> u8, [u8; 2], (), !);"),
    ("attr", "Add, Neg, AddAssign", "struct S<T>(T, (T, T), [T; 2], fn() -> T);"),
    ("attr", "Clone, Debug, PartialEq", "struct S<T: ?Sized>(u8, dyn Tr + Send);"),
    ("attr", "Deref, DerefMut", "struct S(dyn Tr + Send);"),
    ("attr", "Deref", "struct S<T>(dyn Tr<T> + Send);"),
    # several per-trait entries on one field / variant, and traits in the root list that have no entry of their own there: which entry a trait sees may not depend on hash order
    ("attr", "Ord, PartialOrd, Eq, PartialEq, Hash, Clone, Debug", "struct H1<T> { #[derive_ex(Eq(bound(T: Eq)), Ord(bound(T: Ord)), Hash(bound(T: core::hash::Hash)), Clone(bound(T: Clone)))] a: T, b: u8 }"),
    ("attr", "PartialEq, Hash, Clone", "struct H4<T> { #[derive_ex(Eq(bound(T: Eq)), Ord(bound(T: Ord)), PartialOrd(bound(T: PartialOrd)), Clone(bound(T: Clone)))] a: T }"),
    ("derive", "", "#[derive_ex(PartialEq, PartialOrd, Hash)] enum H5<T> { #[derive_ex(Eq(bound(T: Eq)), Ord(bound(T: Ord)), PartialOrd(bound(T: Copy)), Hash(bound(T: Sized)))] A(T), #[derive_ex(Ord(bound(T: Ord)), Eq(bound(T: Eq)), PartialOrd(bound(T: Clone)))] B { x: T } }"),
    ("attr", "PartialEq, PartialOrd, Clone, Debug, Default", "enum H2<T> { #[default] #[derive_ex(PartialOrd(bound(T: PartialOrd)), Clone(bound(T: Copy)), Default(bound(T: Default)))] A(#[derive_ex(Debug(bound(T: Sized)), Clone(bound(..)))] T), B }"),
    ("derive", "", "#[derive_ex(Add, Sub, Neg, Not, AddAssign)] struct H3<T>(#[derive_ex(Add(bound(T: Copy)), Neg(bound(T: Clone)), SubAssign(bound(T: Sized)))] T, #[derive_ex(Sub(bound(..)), Not(bound()))] T);"),
    # the same text with another meaning in the next item (a name that is a parameter here and a concrete type there): nothing may be remembered from one expansion to the next
    ("attr", "Clone, Debug, PartialEq", "struct P1<U>(Vec<T>, Option<U>, [u8; N]);"),
    ("attr", "Clone, Debug, PartialEq", "struct P2<T>(Vec<T>, Option<U>, [u8; N]);"),
    ("attr", "Clone, Debug, PartialEq", "struct P3<const N: usize>(Vec<T>, Option<U>, [u8; N]);"),
    ("attr", "Clone, Debug, PartialEq", "enum P4<T, U, const N: usize> { A(Vec<T>), B { x: Option<U>, y: [u8; N] } }"),
    ("attr", "Add, Neg, AddAssign", "struct P5<U>(Wrapping<T>, U);"),
    ("attr", "Add, Neg, AddAssign", "struct P6<T>(Wrapping<T>, U);"),
    ("derive", "", "#[derive_ex(Default, Hash, Ord, PartialOrd, Eq, PartialEq)] struct P7<Item>(Vec<Item>, T);"),
    ("derive", "", "#[derive_ex(Default, Hash, Ord, PartialOrd, Eq, PartialEq)] struct P8<T>(Vec<Item>, T);"),
    ("attr", "DerefMut", "struct S { a: impl A + B }"),
    ("attr", "PartialEq, PartialOrd, Hash", "struct S(u8, #[partial_eq(by = f)] #[partial_ord(by = g)] #[hash(by = h)] dyn Tr + Send);"),
    ("attr", "Ord, PartialOrd, Eq, PartialEq", "struct S(u8, #[ord(by = f)] dyn Tr + Send);"),
    ("attr", "PartialEq", "enum E { A(u8, #[eq(by = f)] dyn Tr + Send) }"),
    ("attr", "Add, AddAssign, Neg", "struct S(dyn Tr + Send);"),
    ("attr", "Add, AddAssign, Neg", "struct S<T>(dyn Tr<T> + Send);"),
    ("attr", "Eq, PartialEq", "struct S<T>(#[eq(key = $.k())] dyn Tr<T> + Send);"),
    ("attr", "Clone, bound(dyn Tr + Send)", "struct S<T>(T);"),
    ("attr", "Clone(bound(&'static (dyn Tr + Send), ..))", "struct S<T>(T);"),
    ("attr", "Add", "impl AddAssign<&U> for T { fn add_assign(&mut self, r: &U) { } }"),
    ("attr", "Add", "impl Assign for T { }"),
    ("attr", "Add", "impl gn for T { }"),
    ("attr", "Add", "impl Sign for T { }"),
    ("attr", "Add", "impl n for T { }"),
    ("attr", "Add", "impl ssign for T { }"),
    ("attr", "Add", "impl AddAssignAssign for T { fn add_assign(&mut self, r: T) { } }"),
    ("attr", "Assign", "impl Add for T { type Output = T; fn add(self, r: T) -> T { self } }"),
    ("attr", "gn, n, Sign, ssign, AssignAssign", "impl Add for T { type Output = T; fn add(self, r: T) -> T { self } }"),
    ("attr", "Assign, gn, A, r#Add, r#AddAssign", "struct S(u8);"),
    ("attr", "Add", "impl ops::Add for T { type Output = T; }"),
    ("attr", "Add", "impl T { fn f() {} }"),
    ("attr", "Add", "impl Add(u8) -> u8 for T { }"),
    ("attr", "Add, Add", "impl Add for T { type Output = T; fn add(self, r: T) -> T { self } }"),
    ("attr", "", "impl Add for T { type Output = T; fn add(self, r: T) -> T { self } }"),
    ("attr", "Frob", "impl Add for T { type Output = T; fn add(self, r: T) -> T { self } }"),
    ("attr", "", "struct S;"),
    ("attr", ",", "struct S;"),
    ("attr", "Clone,", "struct S;"),
    ("attr", "Clone()", "struct S;"),
    ("attr", "Clone(bound())", "struct S<T>(T);"),
    ("attr", "Clone(bound(..))", "struct S<T>(T);"),
    ("attr", "Clone(bound(.., ..))", "struct S<T>(T);"),
    ("attr", "Clone(bound(T))", "struct S<T>(T);"),
    ("attr", "Clone(bound(T: ))", "struct S<T>(T);"),
    ("attr", "Clone(bound(for<'a> &'a T: Clone, [T; 2], fn(T) -> T))", "struct S<T>(T);"),
    ("attr", "Clone(dump, dump)", "struct S;"),
    ("attr", "Clone(frob)", "struct S;"),
    ("attr", "Clone = 1", "struct S;"),
    ("attr", "bound(T: Copy)", "struct S<T>(T);"),
    ("attr", "dump", "struct S;"),
    ("attr", "Clone, Clone", "struct S;"),
    ("attr", "Copy", "struct S;"),
    ("attr", "Deref", "struct S;"),
    ("attr", "Deref", "struct S();"),
    ("attr", "Deref", "struct S {}"),
    ("attr", "DerefMut", "struct S(u8, u8, u8);"),
    ("attr", "Deref, DerefMut", "enum E { A(u8) }"),
    ("attr", "Default", "enum E {}"),
    ("attr", "Default", "enum E { A }"),
    ("attr", "Default", "enum E { A(u8), }"),
    ("attr", "Default", "enum E { #[default] A, B, #[default] C, #[default] D }"),
    ("attr", "Default", "enum E { #[default(1)] A }"),
    ("attr", "Default", "#[default] enum E { A, B }"),
    ("attr", "Default", "#[default(_)] struct S { a: u8 }"),
    ("attr", "Default", "#[default(S { a: 1 }, bound())] struct S { #[default(_)] a: u8 }"),
    ("attr", "Default", "struct S { #[default] a: u8, #[default()] b: u8 }"),
    ("attr", "Default", "struct S { #[default(1, 2)] a: u8 }"),
    ("attr", "Default", "struct S { #[default = 1] a: u8 }"),
    ("attr", "Default", "struct S { #[default(\"x\")] a: String, #[default(b\"x\")] b: Vec<u8>, #[default('c')] c: char, #[default(-1)] d: i8, #[default(1.5)] e: f32, #[default(C)] f: u8, #[default(<u8>::MAX)] g: u8, #[default({ 1 })] h: u8, #[default(|x| x)] i: fn(u8) -> u8 }"),
    ("attr", "Debug", "struct S { #[debug] a: u8 }"),
    ("attr", "Debug", "struct S { #[debug()] a: u8 }"),
    ("attr", "Debug", "struct S { #[debug(ignore, ignore)] a: u8 }"),
    ("attr", "Debug", "struct S { #[debug(transparent = true)] a: u8 }"),
    ("attr", "Debug", "struct S(#[debug(transparent)] u8, #[debug(transparent)] u8, #[debug(transparent)] u8);"),
    ("attr", "Debug", "#[debug(transparent)] struct S(u8);"),
    ("attr", "Debug", "enum E { #[debug(ignore)] A(u8) }"),
    ("attr", "Debug", "struct S<T: ?Sized> { a: u8, b: T }"),
    ("attr", "Ord, PartialOrd, Eq, PartialEq, Hash", "struct S { #[ord] a: u8, #[eq()] b: u8, #[hash(key = )] c: u8 }"),
    ("attr", "Ord, PartialOrd, Eq, PartialEq, Hash", "struct S { #[ord(key = $)] a: u8, #[ord(key = $$)] b: u8, #[ord(key = ($, $))] c: u8, #[ord(key = [$][0])] d: u8, #[ord(key = { $ })] e: u8 }"),
    ("attr", "Ord, PartialOrd, Eq, PartialEq, Hash", "struct S { #[ord(by = )] a: u8 }"),
    ("attr", "Ord, PartialOrd, Eq, PartialEq, Hash", "struct S { #[ord(by = f, by = g)] a: u8 }"),
    ("attr", "Ord, PartialOrd, Eq, PartialEq, Hash", "struct S { #[ord(by = |a, b| a.cmp(b), key = $.0, reverse, ignore)] a: (u8, u8) }"),
    ("attr", "Ord, PartialOrd, Eq, PartialEq, Hash", "#[ord(ignore)] #[hash(reverse)] struct S { a: u8 }"),
    ("attr", "Ord, PartialOrd, Eq, PartialEq, Hash", "enum E { #[eq(key = $)] A(u8), #[partial_ord(by = f)] B }"),
    ("attr", "Ord, PartialOrd, Eq, PartialEq, Hash", "enum E {}"),
    ("attr", "Ord, PartialOrd, Eq, PartialEq, Hash", "enum E { A = 3, B = 1, C }"),
    ("attr", "Ord, PartialOrd, Eq, PartialEq, Hash", "struct S<'a, 'b: 'a, T: 'a + ?Sized, const N: usize = 3> where T: Iterator, [u8; N]: Sized { a: &'a T::Item, b: &'b [u8; N], c: ::std::vec::Vec<T::Item> }"),
    ("attr", "Hash", "struct S { #[hash(reverse)] a: u8 }"),
    ("attr", "PartialOrd", "struct S { #[partial_ord(reverse, reverse)] a: u8 }"),
    ("attr", "Eq", "struct S { #[partial_eq(key = $)] a: f32 }"),
    ("attr", "Clone", "union U { a: u8, b: u16 }"),
    ("attr", "Clone", "fn f() {}"),
    ("attr", "Clone", "trait Tr {}"),
    ("attr", "Clone", "mod m {}"),
    ("attr", "Clone", "type A = u8;"),
    ("attr", "Clone", "const C: u8 = 1;"),
    ("attr", "Clone", "static S: u8 = 1;"),
    ("attr", "Clone", "use std::fmt;"),
    ("attr", "Clone", "macro_rules! m { () => {} }"),
    ("attr", "Clone", "extern crate core;"),
    ("attr", "Clone", "struct S"),
    ("attr", "Clone", "struct"),
    ("attr", "Clone", ""),
    ("attr", "Clone", "struct S; struct T;"),
    ("attr", "Clone", "pub(crate) struct S<>;"),
    ("attr", "Clone", "struct S<T = u8>(T);"),
    ("attr", "Clone, Copy, Debug, Default, PartialEq, Eq, PartialOrd, Ord, Hash", "struct S<const N: usize, const M: bool = true>([u8; N]);"),
    ("attr", "Clone, Copy, Debug, PartialEq, Eq, PartialOrd, Ord, Hash", "enum E<'a, T: ?Sized + 'a, const N: usize> { A(&'a T), B { x: [u8; N] }, C = 7 }"),
    ("attr", "Clone, Debug", "#[derive_ex(Default)] #[derive_ex(PartialEq, dump)] #[derive_ex()] struct S { #[derive_ex(Clone(bound()))] a: u8 }"),
    ("attr", "Clone", "#[derive_ex] struct S;"),
    ("attr", "Clone", "#[derive_ex = 1] struct S;"),
    ("attr", "Clone", "struct S { #[derive_ex] a: u8, #[derive_ex(Frob)] b: u8, #[derive_ex(Clone = 2)] c: u8 }"),
    ("attr", "Neg, Not", "struct S<T>(T, #[derive_ex(Neg(bound(T: Copy)))] T);"),
    ("attr", "Add, Sub, Mul, Div, Rem, BitAnd, BitOr, BitXor, Shl, Shr, AddAssign, SubAssign, MulAssign, DivAssign, RemAssign, BitAndAssign, BitOrAssign, BitXorAssign, ShlAssign, ShrAssign, Neg, Not", "struct S<T: Tr<Self>> where Self: Sized { a: T }"),
    ("derive", "", "struct S;"),
    ("derive", "", "#[derive_ex(Clone, Frob)] struct S;"),
    ("derive", "", "#[derive_ex(Clone)] #[derive_ex(Debug, dump)] enum E { A { r#type: u8 } }"),
    ("derive", "", "#[derive_ex(Deref)] enum E { A }"),
    ("derive", "", "#[derive_ex(Add)] impl Add for T {}"),
    ("derive", "", "#[derive_ex(Clone)] union U { a: u8 }"),
    ("derive", "", "#[derive_ex(Clone)] fn f() {}"),
    ("derive", "", "#[derive_ex(Ord, PartialOrd, Eq, PartialEq, Hash)] struct S { #[ord(key = $.0)] #[hash(ignore)] a: (u8, u8) }"),
    ("derive", "", ""),
    # the type's own where-clause written with and without a trailing comma, next to bound(...) predicates and types at every level
    ("attr", "Clone(bound(T: Clone)), Default", "struct S<T>(T) where T: Default;"),
    ("attr", "Clone(bound(T: Clone, ..)), Default, bound(T)", "struct S<T>(T) where T: Default,;"),
    ("attr", "Debug, bound(T: ::core::fmt::Debug)", "enum E<T> where T: Copy { A(T), #[derive_ex(Debug(bound(T: Clone)))] B { #[debug(bound(T: Sized))] x: T } }"),
    ("attr", "PartialEq, Hash, PartialOrd", "#[eq(bound(T: PartialEq))] #[ord(bound(T: PartialOrd, ..))] #[hash(bound(T))] struct S<'a, T: 'a, const N: usize> where &'a T: Sized, [u8; N]: Default { a: &'a T, b: [u8; N] }"),
    ("derive", "", "#[derive_ex(Clone, Default, bound(T: Clone + Default))] struct S<T> where T: Sized { a: T }"),
    ("attr", "Add, Neg, AddAssign(bound(T: Copy + ::core::ops::AddAssign))", "struct S<T>(T, T) where T: Copy;"),
    ("attr", "Clone, Debug, PartialEq, Hash, dump", "struct Six<A, B, C, D, E, F> { a: A, b: B, c: C, d: D, e: E, f: F, g: Vec<A>, h: Option<B> }"),
    ("attr", "Clone, Default, PartialOrd", "enum Six<A, B, C, D, E, F> { V(A, B, C), W { d: D, e: E, f: F } }"),
    ("derive", "", "#[derive_ex(Clone, Debug, Eq, PartialEq, Ord, PartialOrd)] struct Six<A, B, C, D, E, F>(A, B, C, D, E, F);"),
]


def native_corpus(tier, rnd):
    """inputs for the native totality / determinism sampling: the expansion corpus of the dump check, the odd shapes above and a shape x trait sweep"""
    from . import c19
    reqs = []
    for item, tl, dumped, how in c19.differential_cases(tier, common.seed()):
        for mode in ("attr", "derive"):
            reqs.append(c19.render(item, tl, dumped, how, False, mode))
            reqs.append(c19.render(item, tl, dumped, how, True, mode))
    for item, attr in c19.IMPL_ITEMS:
        reqs += [("attr", attr, item), ("attr", attr + ", dump", item)]
    reqs += ODD_ITEMS
    traits = ["Clone", "Copy", "Debug", "Default", "PartialEq", "Eq", "PartialOrd", "Ord", "Hash", "Add", "AddAssign", "Neg", "Deref", "DerefMut"]
    fts = ["u8", "T", "Option<T>", "&'a T", "[T; N]", "(T, u8)", "::std::vec::Vec<T>", "Box<dyn Fn(T) -> T + 'a>", "PhantomData<T>", "T::Item"]
    for n in range(0, 4):
        for kind in ("named", "tuple"):
            fs = [fts[(n * 3 + i) % len(fts)] for i in range(n)]
            body = ("{ %s }" % ", ".join("f%d: %s" % (i, t) for i, t in enumerate(fs))) if kind == "named" else ("(%s);" % ", ".join(fs))
            st = "struct X<'a, T: Iterator, const N: usize> %s" % body
            en = "enum X<'a, T: Iterator, const N: usize> { A, B %s C %s }" % (body.rstrip(";") + ",", body.rstrip(";"))
            for k in range(3):
                tl = ", ".join(rnd.sample(traits, rnd.randint(1, 5)))
                reqs.append(("attr", tl, st))
                reqs.append(("attr", tl, en))
                reqs.append(("derive", "", "#[derive_ex(%s)] %s" % (tl, st)))
    return reqs


def run_expander_raw(reqs):
    """one fresh expander process (its own hash seeds) -> list of raw JSON lines"""
    exe = common.build_expander()
    data = "".join("%s\x1f%s\x1f%s\x1e" % (m, a, i) for (m, a, i) in reqs if (m + a + i).strip())
    r = subprocess.run([exe], input=data, stdout=subprocess.PIPE, stderr=subprocess.PIPE, text=True)
    if r.returncode != 0:
        raise RuntimeError("expander failed: " + r.stderr[-2000:])
    return [l for l in r.stdout.splitlines() if l.strip()]


def native_part(tier, rnd, out, extra_reqs=()):
    import json
    reqs = [q for q in (list(extra_reqs) + native_corpus(tier, rnd)) if (q[0] + q[1] + q[2]).strip()]
    nproc = 4 if tier == "quick" else 8
    t0 = time.time()
    # the same inputs again in fresh processes - in the same, in the reverse and in a shuffled order: the expansion of an input may not depend on what the process expanded before
    orders = [list(range(len(reqs)))]
    for k in range(1, nproc):
        o = list(range(len(reqs)))
        if k % 3 == 1:
            o.reverse()
        elif k % 3 == 2:
            rnd.shuffle(o)
        orders.append(o)
    runs = []
    for o in orders:
        raw = run_expander_raw([reqs[i] for i in o])
        back = [None] * len(reqs)
        for pos, i in enumerate(o):
            back[i] = raw[pos]
        runs.append(back)
    valid_in = [json.loads(l).get("parse_ok", False) for l in run_expander_raw([("parse", "", q[2] if q[2].strip() else "struct __Empty;") for q in reqs])]
    stats = {"native_inputs": len(reqs), "native_processes": nproc, "native_panics": 0, "native_malformed": 0, "native_silent_failures": 0, "native_nondeterministic": 0}
    first = [json.loads(l) for l in runs[0]]
    found = {}
    for q, res, valid in zip(reqs, first, valid_in):
        if "lex_error" in res:
            continue
        key = None
        if "panic" in res:
            stats["native_panics"] += 1
            key, what = "panic", "expansion panics (%s)" % res["panic"][:120]
        elif not res.get("parse_ok", False) and not valid:
            stats["native_invalid_inputs"] = stats.get("native_invalid_inputs", 0) + 1  # the item is not valid syntax itself (rustc would never hand it to the macro): no verdict on the echo
        elif not res.get("parse_ok", False):
            stats["native_malformed"] += 1
            key, what = "malformed-output", "the output is not a sequence of Rust items (%s): %s" % (res.get("parse_error", "")[:80], res.get("out", "")[:160])
        else:
            msgs = common.compile_errors(res)
            if any(not m.strip() for m in msgs):
                stats["native_silent_failures"] += 1
                key, what = "empty-message", "compile_error! without a message"
        if key:
            found.setdefault(key, []).append((q, what))
    for k in range(1, nproc):
        for i, (a, b) in enumerate(zip(runs[0], runs[k])):
            if a != b:
                stats["native_nondeterministic"] += 1
                found.setdefault("nondeterministic", []).append((reqs[i], "two expansions of the same input differ (process %d expanded the inputs in %s order): %s ... vs ... %s" % (
                    (k, "the same" if orders[k] == orders[0] else "another") + _difference(a, b))))
                if orders[k] != orders[0]:
                    # what each of the two processes had expanded before this input (the replay runs both histories again)
                    CONTEXT[reqs[i]] = ([reqs[j] for j in orders[0][:orders[0].index(i)]], [reqs[j] for j in orders[k][:orders[k].index(i)]])
                break
    stats["native_wall_s"] = round(time.time() - t0, 1)
    return reqs, found, stats


CONTEXT = {}


def _difference(a, b):
    i = 0
    while i < min(len(a), len(b)) and a[i] == b[i]:
        i += 1
    return a[max(0, i - 40):i + 60], b[max(0, i - 40):i + 60]


def write_native_replay(name, req, expect):
    import json
    import shutil
    path = os.path.join(common.VERIF, "replays", PID, name)
    if os.path.exists(path):
        shutil.rmtree(path)
    os.makedirs(path)
    case = {"property": PID, "mode": req[0], "attr": req[1], "item": req[2], "expect": expect}
    if expect == "nondeterministic" and req in CONTEXT:
        case["histories"] = [[list(q) for q in h] for h in CONTEXT[req]]
    json.dump(case, open(os.path.join(path, "case.json"), "w"), indent=1)
    open(os.path.join(path, "run.sh"), "w").write("""#!/bin/sh
# Native replay: expands the input of case.json through the real macro (hook library) in fresh processes. exit 0 = the violation reproduces.
cd "$(dirname "$0")/../../.." && exec python3-vt -m vlib.c16 --replay "replays/%s/%s/case.json"
""" % (PID, name))
    os.chmod(os.path.join(path, "run.sh"), 0o755)
    return path


def replay_main(path):
    import json
    case = json.load(open(path))
    req = (case["mode"], case["attr"], case["item"])
    if case.get("histories"):
        # order dependence: the input at the end of each of the two recorded histories, each in a fresh process
        outs = [run_expander_raw([tuple(q) for q in h] + [req])[-1:] for h in case["histories"]]
    else:
        outs = [run_expander_raw([req]) for _ in range(8 if case["expect"] == "nondeterministic" else 1)]
    res = json.loads(outs[0][0])
    if case["expect"] == "panic":
        ok = "panic" in res
    elif case["expect"] == "malformed-output":
        ok = "panic" not in res and not res.get("parse_ok", False)
    elif case["expect"] == "empty-message":
        ok = any(not m.strip() for m in common.compile_errors(res))
    else:
        ok = len({o[0] for o in outs}) > 1
    print("input: #[derive_ex(%s)] %s  [%s entry]" % (case["attr"], case["item"], case["mode"]))
    print("observed:", json.dumps(res)[:600])
    print("REPRODUCED" if ok else "NOT REPRODUCED")
    return 0 if ok else 1


# ---------------------------------------------------------------------------------------------
# candidate inputs for a feasible panic path (model -> items), confirmed natively
# ---------------------------------------------------------------------------------------------
def candidates_for(info, r, model):
    """concrete inputs that realise (or surround) the configuration of a feasible panic path"""
    ctx = info.ctx or ("?",)
    ex = info.ex
    reqs = []
    if ctx[0] == "builder":
        _, spec, nv, nf = ctx
        label, fname, fam, trait, skind, roots = spec
        try:
            from . import c04_replay
            shape = c04.Shape(ex, skind, roots, nv, nf)
            ref = chain.Ref(ex)
            case = c04_replay.concretize(ex, ref, shape, model, fam, trait)
            if case:
                reqs.append(("attr", case["attr"], case["item"]))
                reqs.append(("attr", case["attr"], re.sub(r"\{ ([^{}]*) \}", lambda m: "(" + re.sub(r"f\d+: ", "", m.group(1)) + ")", case["item"], count=1)))
        except Exception:  # noqa
            pass
    if ctx[0] == "body":
        _, trait, skind = ctx
        try:
            fa = cmpcfg.FieldAtoms(ex, "source.<Struct>.1.[0]" if skind == "struct" else "source.<Enum>.1.[0].fields.[0]")
            attrs = []
            for a in cmpcfg.ATTRS:
                args = []
                for nm, txt in (("ignore", "ignore"), ("reverse", "reverse"), ("by", "by = f"), ("key", "key = $.k()")):
                    if a in ("eq", "partial_eq", "hash") and nm == "reverse":
                        continue
                    if z3.is_true(model.eval(getattr(fa, nm)(a), model_completion=True)):
                        args.append(txt)
                if args:
                    attrs.append("#[%s(%s)]" % (a, ", ".join(args)))
            at = " ".join(attrs)
            reqs.append(("attr", "Ord, PartialOrd, Eq, PartialEq, Hash", "struct X { %s f0: u8 }" % at))
            reqs.append(("attr", "Ord, PartialOrd, Eq, PartialEq, Hash", "enum X { A(%s u8), B { %s f0: u8 }, C }" % (at, at)))
            reqs.append(("attr", trait, "struct X(%s u8);" % at))
        except Exception:  # noqa
            pass
    return reqs


# ---------------------------------------------------------------------------------------------
def run(tier):
    t0 = time.time()
    out = common.Outcome(PID)
    rnd = random.Random(common.seed())
    eng = mir_engine.Engine(opaque_local=set(), trace=set(), overflow_checks=True)
    obl = e3.Obligations(PID)
    ex0 = eng.executor()
    sites, hash_iter, callers = inventory(eng, ex0)
    s_sites = [s for s in sites if s["cls"] == "S" and not s["generated"]]
    t_sites = [s for s in sites if s["cls"] == "T"]
    g_sites = [s for s in sites if s["generated"]]
    log("[C16] inventory: %d structural sites in %d functions, %d token-dependent partial calls, %d in derive-generated code, %d hash-container iterations" % (
        len(s_sites), len({s["fn"] for s in s_sites}), len(t_sites), len(g_sites), len(hash_iter)))

    # ---- context runs ------------------------------------------------------------------------
    infos = []
    specs = builder_runs(eng, tier) + body_runs(eng, tier) + dispatcher_runs(eng, tier)
    for sp in specs:
        info = _do_run(eng, **sp)
        infos.append(info)
        log("[C16] %s: %d paths, %d panic, %d stuck%s, %.1fs" % (info.label, info.paths, len(info.panics), len(info.stuck), " (%s)" % info.error if info.error else "", info.wall))
    ctx_clean_cover = set()
    for i in infos:
        if not i.error and not i.stuck:
            ctx_clean_cover |= i.covered
    # ---- standalone runs for the functions with a structural site that no context run settles --------------
    site_fns = {s["fn"] for s in s_sites}

    def clean(i):
        return not i.error and not i.stuck

    def settled_by_context(fn):
        ctx = [i for i in infos if fn in i.covered]
        if any(str(r.value).endswith(" in " + fn) for i in ctx for r in i.panics):
            return True
        as_entry = [i for i in ctx if i.ex is not None and i.ex.qual.get(eng.find(i.entry).name, i.entry) == fn]
        if as_entry and all(clean(i) for i in as_entry):
            return True
        cs = callers.get(fn, set())
        together = set()
        for i in ctx:
            if clean(i):
                together |= i.covered
        return bool(cs) and all(c in together for c in cs)

    settled = {fn for fn in site_fns if settled_by_context(fn)}
    for sp in standalone_runs(eng, ex0, s_sites, settled):
        info = _do_run(eng, **sp)
        infos.append(info)
        log("[C16] %s: %d paths, %d panic, %d stuck%s, %.1fs" % (info.label, info.paths, len(info.panics), len(info.stuck), " (%s)" % info.error if info.error else "", info.wall))

    # ---- verdict per function with sites -----------------------------------------------------------
    def panics_in(i, fn):
        return [r for r in i.panics if str(r.value).endswith(" in " + fn)]

    verdicts = []
    candidates = []  # (info, path result, fn)
    for fn in sorted(site_fns):
        here = [s for s in s_sites if s["fn"] == fn]
        obl.total += len(here)
        st = next((i for i in infos if i.label == "standalone:" + fn), None)
        ctx = [i for i in infos if not i.label.startswith("standalone:") and fn in i.covered]
        as_entry = [i for i in ctx if i.ex is not None and i.ex.qual.get(eng.find(i.entry).name, i.entry) == fn]
        bad = [(i, r) for i in ctx for r in panics_in(i, fn)]
        if bad:
            for i, r in bad[:3]:
                candidates.append((i, r, fn))
            verdicts.append((fn, len(here), "REACHABLE in %s: %s" % (bad[0][0].label, bad[0][1].value)))
            continue
        if st is not None and clean(st) and not st.panics:
            verdicts.append((fn, len(here), "unreachable for every argument value (standalone run, %d paths)" % st.paths))
            obl.discharged += len(here)
            continue
        if as_entry and all(clean(i) for i in as_entry):
            verdicts.append((fn, len(here), "unreachable for every argument value within the bounds of %s" % ", ".join(i.label for i in as_entry[:3])))
            obl.discharged += len(here)
            continue
        cs = callers.get(fn, set())
        clean_ctx = [i for i in ctx if clean(i)]
        together = set()
        for i in clean_ctx:
            together |= i.covered
        uncovered = sorted(c for c in cs if c not in together)
        if clean_ctx and cs and not uncovered:
            verdicts.append((fn, len(here), "unreachable in every calling context (runs: %s; callers: %s)" % (", ".join(i.label for i in clean_ctx[:4]), ", ".join(sorted(cs)))))
            obl.discharged += len(here)
            continue
        if st is not None and st.panics and not ctx:
            # reachable for some argument values and no context run goes through it: a candidate, confirmed or not by the native battery
            for r in st.panics[:2]:
                candidates.append((st, r, fn))
        why = (st.error if (st is not None and st.error) else ("reachable for some argument values when run on its own" if st is not None and st.panics else "standalone run stuck" if st is not None and st.stuck else "no standalone run"))
        if uncovered:
            why += "; callers not covered together with it by a context run: %s" % ", ".join(uncovered[:4])
        elif not clean_ctx:
            why += "; no clean context run goes through it"
        verdicts.append((fn, len(here), "NOT ESTABLISHED: " + why))
        out.inconclusive.append("fn=%s reason=panic site not shown unreachable (%s)" % (fn, why[:220]))
    # the solver's own verdicts on "can this site panic here?" are the discharged queries
    n_unsat = sum(1 for i in infos for (_, v) in i.checks if v == "unsat")
    n_sat = sum(1 for i in infos for (_, v) in i.checks if v == "sat")
    for i in infos:
        obl.functions[i.label] = {"paths": i.paths, "stuck": len(i.stuck), "panic": len(i.panics)}
        if i.ex is not None:
            obl.solver_time += 0.0
        for r in getattr(i, "results", [])[:400]:
            if len(r.pc) >= 1:
                obl.nontrivial_paths.add((i.label, tuple(c.get_id() if z3.is_expr(c) else c for c in r.pc)))
    # coverage of the context runs: their path conditions cover the pre-constrained configuration space
    for i in infos:
        if i.error or i.stuck or i.label.startswith("standalone:"):
            continue
        e3.coverage_check(i.ex, obl, i.label, [r for r in i.results], pre=getattr(i, "pre", []))
    for lab, m_, inf_ in list(obl.failed):
        if lab.startswith("coverage:"):
            out.inconclusive.append("path conditions of %s do not cover its configuration space" % lab)
    obl.failed = []

    # ---- native: totality / determinism sampling, and confirmation of feasible panic paths ----------------
    extra = []
    cand_reqs = {}
    for (i, r, fn) in candidates:
        s = z3.Solver()
        for d in i.ex.domains:
            s.add(d)
        for c in r.pc:
            s.add(c)
        if s.check() != z3.sat:
            continue
        m = s.model()
        rq = candidates_for(i, r, m)
        cand_reqs[(i.label, fn, str(r.value))] = (rq, [str(c) for c in r.pc][-8:])
        extra += rq
    reqs, found, nstats = native_part(tier, rnd, out, extra_reqs=extra)
    n = 0
    for key, lst in found.items():
        seen = set()
        for (q, what) in lst:
            role = "%s|%s" % (key, re.sub(r"\d+", "N", what)[:70])
            if role in seen:
                continue
            seen.add(role)
            n += 1
            path = write_native_replay("native%02d" % n, q, key)
            out.violation(role, path, "%s on #[derive_ex(%s)] %s [%s entry]" % (what, q[1], " ".join(q[2].split())[:300], q[0]))
            if len(seen) >= 3:
                break
    if candidates and not found.get("panic"):
        for (lab, fn, val), (rq, pc) in list(cand_reqs.items())[:4]:
            out.inconclusive.append("fn=%s reason=a path into the panic site `%s` is feasible in %s under %s, but no input of the native battery makes the real macro panic" % (fn, val, lab, pc[-3:]))
    if hash_iter and not found.get("nondeterministic"):
        out.inconclusive.append("fn=%s reason=iterates over a hash container (%s); no difference between %d processes on the corpus" % (hash_iter[0][0], hash_iter[0][1], nstats["native_processes"]))
    elif hash_iter:
        pass
    obl.samples.append({"sites": [{"fn": f, "sites": k, "verdict": v} for f, k, v in verdicts][:40]})
    obl.samples.append({"panic_queries": {"unsat (site cannot panic on this path)": n_unsat, "sat (a panic path exists; see candidates)": n_sat}})
    obl.total += n_unsat + n_sat
    obl.discharged += n_unsat
    if tier == "thorough":
        e3.cross_check_solvers(obl, out)
    extra_ev = dict(nstats)
    extra_ev.update({
        "structural_sites": len(s_sites), "structural_site_functions": len(site_fns), "token_dependent_partial_calls": len(t_sites),
        "token_dependent_partial_call_names": sorted({s["what"] for s in t_sites})[:20],
        "sites_in_derive_generated_code": len(g_sites), "hash_container_iterations": ["%s: %s" % h for h in hash_iter][:10],
        "site_verdicts": [{"fn": f, "sites": k, "verdict": v} for f, k, v in verdicts],
        "panic_feasibility_queries": {"unsat": n_unsat, "sat": n_sat},
        "native_sampling_note": "the native part is sampling (fresh expander processes, different hash seeds, the corpus in the same / reverse / shuffled order): no panic, output parses as items, compile_error! carries a message, byte-identical output of every input across processes and orders",
    })
    return e3.finish(
        PID, tier, t0, eng, obl, out, extra=extra_ev,
        rule="a case is (panic site found in the MIR of the current tree, run): the site - an `unreachable!()`, an `assert` (index bounds), a call of unwrap / expect / Index - must be "
             "unreachable on every feasible path, either for all argument values of its function or in every calling context; each `can this site panic here` question is one z3 query; "
             "non-trivial = a path with at least one decision on a symbolic atom",
        bounds="<=2 variants x <=2 fields (Default on enums: <=2, thorough 3 variants; Deref: 0..3, thorough 4 fields); one field (thorough: two fields of a struct) with all 20 comparison atoms free for the body builders; "
               "inline depth<=14, <=14 visits per block, 40 s per standalone run",
        outside="syn's / structmeta's parsers and every partial call that depends on token text (parse_quote!, Ident::new, format_ident!, TokenStream::from_str; listed in the evidence), "
                "termination, well-formedness of printed tokens and determinism: sampled natively only; sites inside code generated by #[derive(StructMeta)] / #[derive(Parse)]",
        assumptions=["representation invariants of real call histories: an operator closure's captured `kind` is the matching variant; the type-level HelperAttributes.items map is empty",
                     "calls the executor does not look into return without panicking (their own panic sites are separate obligations when they are crate functions)"],
        validated=nstats["native_inputs"])


if __name__ == "__main__":
    import sys
    if len(sys.argv) >= 3 and sys.argv[1] == "--replay":
        sys.exit(replay_main(sys.argv[2]))
    sys.exit(run(sys.argv[1] if len(sys.argv) > 1 else "quick"))
