"""C04, end to end through rustc (E1 programs whose observations are compile-time constants; see c03_inst.py for the mechanism).

The E3 part of C04 starts from parsed `Bounds` objects; what a written `bound(...)` turns into (`Bound::parse`, `Bounds::from`: type form -> `T: Trait`, predicate as it is,
`..` -> keep going) and what the where-clause finally says are outside it. These programs close that end: a type X with `bound(...)` written at a sampled subset of the nine
documented places (each with its own marker predicates on the parameters of the fields that place governs, with or without `..`, or in type form), and a twin Rf whose impl is written by hand with the where-clause
that the documented resolution gives (Appendix A.7: type-level 1,2,3 -> variant 4,5,6 -> field 7,8,9 -> the field type, a level is consulted iff every level before it said
`..`). `X<P, Q>: Trait == Rf<P, Q>: Trait` for P, Q from {every marker, every marker but one, the std traits without markers, nothing}. A marker trait has the std traits as supertraits, so
that an explicit bound that stops the resolution still lets the generated body type-check (which bounds suffice is the user's business and not part of the property). Verdicts: rustc's trait solver.
"""
import itertools

from . import e1, kani_runner
from .c03_inst import PATH, STUB

PID = "C04"
# helper attributes that carry a bound(..) for the trait, most specific first (levels 1, 4, 7 are these, in this order); Clone / Copy have none
HELPERS = {"Debug": ["debug"], "Default": ["default"], "PartialEq": ["partial_eq", "eq", "partial_ord", "ord"], "Hash": ["hash", "eq", "ord"], "Clone": [], "Copy": [],
           "PartialOrd": ["partial_ord", "ord"]}
DERIVE = {}
FORMS = ["pred", "pred..", "type", "type..", "..", "..pred", "pred..type"]  # `..` may stand anywhere in the list, predicates and types may be mixed


def kinds_of(trait):
    return ["helper:" + h for h in HELPERS[trait]] + ["this", "common"]


class Level:
    def __init__(self, key, form, marker):
        self.key, self.form, self.marker = key, form, marker

    def params(self):
        """a level speaks about the parameters of the fields it governs only: a stop at variant A / field f0 must leave the bounds of the other variant / field alone"""
        place = self.key[0]
        if place == "type":
            return ["T", "U"]
        return ["T"] if place[1] == 0 else ["U"]

    def text(self, trait):
        m = ", ".join("%s: Mk%d" % (p, self.marker) for p in self.params())
        t = ", ".join(self.params())
        ps = self.params()
        mixed = ", ".join(["%s: Mk%d" % (ps[0], self.marker), ".."] + ps[1:] + (["%s: Mk%d" % (ps[0], self.marker)] if len(ps) == 1 else []))
        return {"pred": m, "pred..": m + ", ..", "type": t, "type..": t + ", ..", "..": "..", "empty": "", "..pred": ".., " + m, "pred..type": mixed}[self.form]

    def preds(self, trait):
        if self.form == "pred..type":
            ps = self.params()
            return ["%s: Mk%d" % (ps[0], self.marker)] + ["%s: %s" % (p, PATH[trait]) for p in ps[1:]]
        if self.form.startswith("pred") or self.form == "..pred":
            return ["%s: Mk%d" % (p, self.marker) for p in self.params()]
        if self.form.startswith("type"):
            return ["%s: %s" % (p, PATH[trait]) for p in self.params()]
        return []

    def dots(self):
        return ".." in self.form


def attr_lines(trait, levels, place):
    """attribute lines for one placement (type / variant v / field f): one derive_ex attribute carrying the per-trait and the shared level, then the helper levels"""
    p, s = (levels.get((place, k)) for k in ("this", "common"))
    out = []
    if p or s or place == "type":
        first = trait if trait not in DERIVE else DERIVE[trait].split(", ")[-1]
        inner = first + ("(bound(%s))" % p.text(trait) if p else "")
        if trait in DERIVE and place == "type":
            inner = ", ".join(DERIVE[trait].split(", ")[:-1]) + ", " + inner
        if s:
            inner += ", bound(%s)" % s.text(trait)
        out.append("#[derive_ex(%s)]" % inner)
    for name in HELPERS[trait]:
        h = levels.get((place, "helper:" + name))
        if h:
            out.append("#[%s(%sbound(%s))]" % (name, "_, " if name == "default" else "", h.text(trait)))
    return out


def resolve(trait, levels, kind, fields, default_variant=None):
    """documented resolution -> list of where predicates"""
    preds, u = [], True
    ks = kinds_of(trait)
    for k in ks:
        L = levels.get(("type", k))
        if u and L:
            preds += L.preds(trait)
            u = L.dots()
    variants = sorted(set(v for v, _, _ in fields)) if kind == "enum" else [None]
    for v in variants:
        if kind == "enum" and trait == "Default" and v != default_variant:
            continue
        uv = u
        if kind == "enum":
            for k in ks:
                L = levels.get((("variant", v), k))
                if uv and L:
                    preds += L.preds(trait)
                    uv = L.dots()
        for fv, fi, ft in fields:
            if fv != v:
                continue
            uf = uv
            for k in ks:
                L = levels.get((("field", fi), k))
                if uf and L:
                    preds += L.preds(trait)
                    uf = L.dots()
            if uf and ("T" in ft.replace("Option", "") or "U" in ft):
                preds.append("%s: %s" % (ft, PATH[trait]))
    return preds


def build(name, trait, kind, levels, entry="attr"):
    fields = [(0, 0, "T"), (1, 1, "Option<U>")] if kind == "enum" else [(None, 0, "T"), (None, 1, "Option<U>")]
    default_variant = 1 if (kind == "enum" and trait == "Default") else None
    desc = "bound-resolution trait=%s kind=%s levels=%s" % (trait, kind, " ".join("%s/%s=%s" % (p if isinstance(p, str) else "%s%d" % p, k, L.form) for (p, k), L in sorted(levels.items(), key=str)))
    src = "#![allow(dead_code, unconditional_recursion, unreachable_code, clippy::all)]\n" + e1.HEADER.format(pid=PID, name=name, desc=desc)
    tl = attr_lines(trait, levels, "type")
    if entry == "derive":
        tl = ["#[derive(Ex)]"] + tl
    fa = [attr_lines(trait, levels, ("field", i)) for i in (0, 1)]
    # a place without per-trait / shared level needs no derive_ex attribute there
    fa = [[l for l in ls] for ls in fa]
    if kind == "struct":
        body = "{ %s pub f0: T, %s pub f1: Option<U> }" % (" ".join(fa[0]), " ".join(fa[1]))
        plain = "{ pub f0: T, pub f1: Option<U> }"
        src += "%s\npub struct X<T, U> %s\n\npub struct Rf<T, U> %s\n" % ("\n".join(tl), body, plain)
    else:
        va = [attr_lines(trait, levels, ("variant", v)) for v in (0, 1)]
        dm = "#[default] " if (trait == "Default" and not levels.get((("variant", 1), "helper:default"))) else ""
        body = "{ %s A(%s T), %s%s B { %s f1: Option<U> }, C }" % (" ".join(va[0]), " ".join(fa[0]), dm, " ".join(va[1]), " ".join(fa[1]))
        plain = "{ A(T), B { f1: Option<U> }, C }"
        src += "%s\npub enum X<T, U> %s\n\npub enum Rf<T, U> %s\n" % ("\n".join(tl), body, plain)
    if trait in ("Copy", "PartialOrd"):
        # the supertrait is written by hand for both, with the weakest where-clause the field types allow
        sup = {"Copy": "Clone", "PartialOrd": "PartialEq"}[trait]
        for n in ("X", "Rf"):
            src += "impl<T, U> %s for %s<T, U> where T: %s, Option<U>: %s { %s }\n" % (sup, n, sup, sup, STUB[sup])
    wp = resolve(trait, levels, kind, fields, default_variant)
    src += "impl<T, U> %s for Rf<T, U>%s { %s }\n\n" % (PATH[trait], (" where " + ", ".join(wp)) if wp else "", STUB[trait])
    markers = sorted(L.marker for L in levels.values() if L.form.startswith("pred"))
    insts = [("PMall", "PMall"), ("PStd", "PStd"), ("PNone", "PMall"), ("PMall", "PNone"), ("PStd", "PMall"), ("PMall", "PStd")]
    insts += [("PMx%d" % m, "PMall") for m in markers] + [("PMall", "PMx%d" % m) for m in markers]
    b, k = [], 0
    for p, q in insts:
        b.append("    const A%d: bool = <Is%s<X<%s, %s>>>::V; const B%d: bool = <Is%s<Rf<%s, %s>>>::V;" % (k, trait, p, q, k, trait, p, q))
        b.append('    assert!(A%d == B%d, "applies-differs-T=%s-U=%s");' % (k, k, p, q))
        k += 1
    src += "pub fn check<S: Src>(_s: &mut S) {\n%s\n}\n\n" % "\n".join(b) + e1.harness()
    sig = "bound|%s|%s|%s" % (trait, kind, ";".join("%s/%s=%s" % (p, kk, L.form) for (p, kk), L in sorted(levels.items(), key=str)))
    return kani_runner.Program(name, src, sig, desc, nontrivial=bool(levels))


def places(trait, kind):
    ks = kinds_of(trait)
    ps = [("type", k) for k in ks]
    if kind == "enum":
        vs = (1,) if trait == "Default" else (0, 1)
        ps += [(("variant", v), k) for v in vs for k in ks]
    fs = (1,) if (kind == "enum" and trait == "Default") else (0, 1)
    ps += [(("field", f), k) for f in fs for k in ks]
    return ps


def programs(tier, rnd, start=0):
    progs, seen = [], set()

    def add(trait, kind, cfg, entry="attr"):
        levels = {}
        for m, (place, form) in enumerate(cfg):
            levels[place] = Level(place, form, m)
        key = (trait, kind, tuple(sorted((str(p), L.form) for p, L in levels.items())), entry)
        if key in seen:
            return
        seen.add(key)
        progs.append(build("r%05d" % (start + len(progs)), trait, kind, levels, entry))

    for trait in ("Clone", "Copy", "Debug", "Default", "PartialEq", "PartialOrd", "Hash"):
        for kind in ("struct", "enum"):
            ps = places(trait, kind)
            add(trait, kind, [])
            # every place alone, in every form (thorough) / a seeded form (quick)
            for p in ps:
                for f in (FORMS if tier == "thorough" else [rnd.choice(["pred", "type"]), rnd.choice(["pred..", "type..", ".."]), rnd.choice(["..pred", "pred..type"])]):
                    add(trait, kind, [(p, f)])
            # pairs: a higher place with and without `..` over a lower one
            pairs = list(itertools.combinations(ps, 2))
            rnd.shuffle(pairs)
            for a, b in pairs[:(len(pairs) if tier == "thorough" else 6)]:
                add(trait, kind, [(a, "pred"), (b, "pred..")])
                add(trait, kind, [(a, "pred.."), (b, "pred")])
                if set(Level(b, "empty", 0).params()) <= set(Level(a, "pred", 0).params()):
                    add(trait, kind, [(a, "pred.."), (b, "empty")])  # an empty bound() stops the resolution and keeps what was collected
            # random fuller configurations
            for _ in range(40 if tier == "thorough" else 5):
                k = rnd.randrange(3, min(len(ps), 7) + 1)
                chosen = rnd.sample(ps, k)
                add(trait, kind, [(p, rnd.choice(FORMS)) for p in chosen], entry="derive" if rnd.random() < 0.25 else "attr")
    return progs
