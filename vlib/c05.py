"""C05 — documented misuse of comparison attributes is rejected, valid use is accepted (E3: MIR paths + z3)."""
import random
import time

import z3

from . import common, e3
from .common import log
from . import probes
from .mir import engine as mir_engine, exec as mx, cmpcfg
from .mir.cmpcfg import FieldAtoms, TRAITS, ATTRS, BODY_FN

PID = "C05"
OPAQUE = {"ItemSourceKind::this_of", "ItemSourceKind::self_of", "ItemSourceKind::other_of", "Template::apply", "replace_tokens", "ref_elem", "FieldEntry::make_ident",
          "FieldEntry::member", "FieldEntry::span", "VariantEntry::make_pat", "VariantEntry::make_pat_with_self_path", "VariantEntry::make_pat_wildcard",
          "build_to_index_fn", "DeriveItemKind::to_path", "CompareOp::to_path", "build_ctor_args"}
TRACE = {"bad_attr", "bad_attr_1", "HelperAttributes::verify", "HelperAttributesForCompareOp::verify", "HelperAttributeForCompareOp::verify",
         "HelperAttributes::from_attrs", "DeriveEntry::apply_dump"}


def is_err(r):
    v = r.value
    return isinstance(v, mx.Agg) and v.name == "Result" and v.variant == "Err"


def struct_item(field_attrs, entry_traits):
    fs = []
    for i, at in enumerate(field_attrs):
        fs.append("    %s\n    f%d: u8," % (" ".join(at), i))
    return "struct X {\n%s\n}" % "\n".join(fs)


def enum_item(variants):
    vs = []
    for vi, fields in enumerate(variants):
        fs = ", ".join("%s f%d: u8" % (" ".join(at), i) for i, at in enumerate(fields))
        vs.append("    V%d { %s }," % (vi, fs))
    return "enum X {\n%s\n}" % "\n".join(vs)


def restrict(fa, keep_attrs):
    """pre-constraints: only the attributes in keep_attrs may carry arguments on this field"""
    cs = []
    for a in ATTRS:
        if a not in keep_attrs:
            cs += [z3.Not(fa.ignore(a)), z3.Not(fa.reverse(a)), z3.Not(fa.by(a)), z3.Not(fa.key(a))]
    return cs


def run_body(eng, obl, out, trait, source_kind, nfields, nvariants=1, keep=None, label=""):
    """execute build_<trait>_body and discharge: Err <=> some existing field is rejected by the reference rule"""
    ex = eng.executor(slice_bound=max(nfields, nvariants))
    fn = eng.find(BODY_FN[trait])
    args = eng.args_for(fn)
    use_bounds = ex.bvar("use_bounds")
    src_disc = ex.ivar("disc(source)", 0, 1)
    pre = [z3.Not(use_bounds), src_disc == (0 if source_kind == "struct" else 1)]
    if source_kind == "struct":
        lenf = ex.ivar("len(source.<Struct>.1)", 0, ex.slice_bound)
        pre.append(lenf <= nfields)
        fields = [(FieldAtoms(ex, "source.<Struct>.1.[%d]" % i), lenf > i) for i in range(nfields)]
    else:
        lenv = ex.ivar("len(source.<Enum>.1)", 0, ex.slice_bound)
        pre.append(lenv <= nvariants)
        fields = []
        for v in range(nvariants):
            lf = ex.ivar("len(source.<Enum>.1.[%d].fields)" % v, 0, ex.slice_bound)
            pre.append(lf <= nfields)
            for i in range(nfields):
                fields.append((FieldAtoms(ex, "source.<Enum>.1.[%d].fields.[%d]" % (v, i)), z3.And(lenv > v, lf > i)))
    if keep:
        for (fa, _), k in zip(fields, keep):
            pre += restrict(fa, k)
    t0 = time.time()
    results = ex.run(fn, args, pre=pre)
    fname = "%s[%s %dx%d%s]" % (BODY_FN[trait], source_kind, nvariants, nfields, label)
    stuck = obl.note_paths(fname, results, ex)
    for r in stuck[:3]:
        out.inconclusive.append("fn=%s reason=%s" % (fname, r.value))
    reject = z3.Or([z3.And(exists, fa.rejects(trait)) for fa, exists in fields])
    for r in results:
        if r.kind == "stuck":
            continue
        if r.kind == "panic":
            m = obl.check_unsat(ex, "%s:no-panic" % fname, list(r.pc), info=("panic", r.value))
            continue
        want_not = reject if not is_err(r) else z3.Not(reject)
        m = obl.check_unsat(ex, "%s:reject-iff-rule" % fname, list(r.pc) + [want_not], info=(trait, source_kind, fields, is_err(r)), keep_smt=True)
    e3.coverage_check(ex, obl, fname, [r for r in results if r.kind != "stuck"], pre=pre) if not stuck else None
    if len(obl.samples) < 4 and results:
        r = results[len(results) // 2]
        obl.samples.append({"function": fname, "path_condition": [str(c) for c in r.pc][:12], "result": "Err" if is_err(r) else "Ok",
                            "obligation": "path_condition AND (is_err XOR reference_reject) is UNSAT"})
    log("[C05] %s: %d paths in %.1fs" % (fname, len(results), time.time() - t0))
    return ex, fields


def replay_failures(obl, out):
    """turn SAT models into concrete items and confirm them through the real macro"""
    seen = set()
    for label, model, info in obl.failed:
        if not info or info[0] == "panic":
            out.broken.append("reachable panic / unexplained failure in %s: %s" % (label, info))
            continue
        if info[0] == "parse":
            # a fact about the macro's own code (which parse result lands in which slot): confirmed by the native placement matrix, else not established
            probes.structural(out, "parse-wiring|" + label.split(":")[-1][:60], "%s: %s" % (label, info[1]), "C05.parse")
            continue
        if info[0] == "verify":
            _, tgt, d, err = info
            t = model.eval(tgt, model_completion=True).as_long()
            args = []
            for nm, txt in (("ignore.span", "ignore"), ("reverse.span", "reverse"), ("by", "by = f"), ("key", "key = $.k()")):
                if z3.is_true(model.eval(d(nm), model_completion=True)):
                    args.append(txt)
            attr = "#[ord(%s)]" % ", ".join(args) if args else "#[ord]"
            item = {0: "%s struct X { f0: u8 }" % attr, 1: "enum X { %s V0 { f0: u8 }, V1 }" % attr, 2: "struct X { %s f0: u8 }" % attr}[t]
            ref = t != 2 and bool(args)
            # on a field the arguments are subject to the per-trait rules; only derive Ord there so that `ord(..)` alone is always acceptable
            case = {"property": PID, "kind": "reject", "trait": "placement:" + ["Type", "Variant", "Field"][t], "mode": "attr", "attr": "Ord, PartialOrd, Eq, PartialEq, Hash" if t != 2 else "Ord",
                    "item": item, "expected_reject": ref,
                    "explain": "HelperAttributeForCompareOp::verify returns %s for target %s with arguments %s" % ("Err" if err else "Ok", ["Type", "Variant", "Field"][t], args)}
            if t == 2 and ("by = f" in args or "key = $.k()" in args or "ignore" in args or "reverse" in args):
                pass
        else:
            trait, kind, fields, err = info
            attrs = []
            for fa, exists in fields:
                if z3.is_true(model.eval(exists, model_completion=True)):
                    attrs.append((fa.base, fa.attrs_from_model(model, with_bounds=False)))
            if kind == "struct":
                item = struct_item([a for _, a in attrs], [trait])
            else:
                byv = {}
                for base, a in attrs:
                    v = int(base.split("<Enum>.1.[")[1].split("]")[0])
                    byv.setdefault(v, []).append(a)
                item = enum_item([byv.get(v, []) for v in range(max(byv) + 1)] if byv else [[]])
            # the reference verdict for this concrete configuration
            ref = any(z3.is_true(model.eval(z3.And(exists, fa.rejects(trait)), model_completion=True)) for fa, exists in fields)
            case = {"property": PID, "kind": "reject_trait", "trait": trait, "mode": "attr", "attr": ", ".join(TRAITS), "item": item, "expected_reject": ref,
                    "explain": "the MIR path %s returns %s for this configuration, the documented rule says %s" % (label, "Err" if err else "Ok", "reject" if ref else "accept")}
        key = "%s|%s" % (case.get("trait"), common.norm(case["item"]))
        if key in seen:
            continue
        seen.add(key)
        from . import replay_e3
        obs = replay_e3.observe(case)
        path = e3.write_replay(PID, "case%03d" % len(seen), case)
        if replay_e3.disagrees(case, obs):
            rej = case["trait"] in obs["rejected_traits"] if case["kind"] == "reject_trait" else obs["rejected"]
            out.violation("%s|%s" % (case["trait"], common.norm(case["item"])[:120]), path,
                          "macro %s %s but the documented rule says %s: #[derive_ex(%s)] %s" % (
                              "rejects" if rej else "accepts", case["trait"], "reject" if case["expected_reject"] else "accept", case["attr"], " ".join(case["item"].split())))
        else:
            e3.not_reproduced(out, model, "(encoder and real macro disagree) for %s: %s" % (label, " ".join(case["item"].split())[:200]))
        if len(seen) >= 8:
            break


def check_verify(eng, obl, out):
    """placement: ignore/reverse/by/key on a type or a variant is rejected, on a field accepted"""
    ex = eng.executor()
    fn = eng.find("HelperAttributeForCompareOp::verify")
    res = ex.run(fn, eng.args_for(fn))
    obl.note_paths("HelperAttributeForCompareOp::verify", res, ex)
    tgt = ex.ivar("disc(target)", 0, 2)  # Type, Variant, Field
    d = lambda s: ex.ivar("disc(self.%s)" % s, 0, 1) == 1
    anyarg = z3.Or(d("ignore.span"), d("reverse.span"), d("by"), d("key"))
    want = z3.And(tgt != 2, anyarg)
    for r in res:
        if r.kind != "return":
            out.inconclusive.append("verify: %s %s" % (r.kind, r.value))
            continue
        obl.check_unsat(ex, "verify:placement", list(r.pc) + [want if not is_err(r) else z3.Not(want)], info=("verify", tgt, d, is_err(r)), keep_smt=True)
    e3.coverage_check(ex, obl, "HelperAttributeForCompareOp::verify", res)
    # all five attributes are verified, with the same target
    ex2 = eng.executor(opaque_local=OPAQUE | {"HelperAttributeForCompareOp::verify"}, trace={"HelperAttributeForCompareOp::verify"})
    fn2 = eng.find("HelperAttributesForCompareOp::verify")
    res2 = ex2.run(fn2, eng.args_for(fn2))
    obl.note_paths("HelperAttributesForCompareOp::verify", res2, ex2)
    full = [r for r in res2 if r.kind == "return" and not is_err(r)]
    ok = bool(full)
    for r in full:
        seen = sorted(e[1][0] for e in r.events)
        if seen != sorted("sym:self.%s" % a for a in ATTRS) or any(e[1][1] != "sym:target" for e in r.events):
            ok = False
    obl.total += 1
    if ok:
        obl.discharged += 1
    else:
        probes.structural(out, "verify-wiring", "HelperAttributesForCompareOp::verify does not verify all five helper attributes against the given target", 'C05.placement')
    # the three call sites pass the right target
    for site, want_t in (("FieldEntry::new", "Field"), ("VariantEntry::new", "Variant"), ("build_by_item_struct_core", "Type"), ("build_by_item_enum_core", "Type")):
        ex3 = eng.executor(opaque_local={"HelperAttributes::from_attrs", "FieldEntry::from_fields", "VariantEntry::from_variants", "DeriveEntry::from_root",
                                         "HelperAttributeKinds::extend", "build_binary_op", "build_assign_op", "build_unary_op", "build_compare_op_for_struct",
                                         "build_compare_op_for_enum", "build_copy_for_struct", "build_clone_for_struct", "build_debug_for_struct",
                                         "build_default_for_struct", "build_deref_for_struct", "build_copy_for_enum", "build_clone_for_enum", "build_debug_for_enum",
                                         "build_default_for_enum", "DeriveEntry::apply_dump"}, trace={"HelperAttributes::from_attrs"})
        fn3 = eng.find(site)
        res3 = ex3.run(fn3, eng.args_for(fn3))
        obl.note_paths(site, res3, ex3)
        obl.total += 1
        evs = [e for r in res3 for e in r.events]
        if evs and all(("AttributeTarget::%s" % want_t) in e[1][1] for e in evs):
            obl.discharged += 1
        else:
            probes.structural(out, "target-wiring|" + site, "%s does not parse helper attributes with AttributeTarget::%s (events %s)" % (site, want_t, evs[:2]), 'C05.placement')
    # HelperAttributes::from_attrs verifies before returning Ok
    ex4 = eng.executor(opaque_local={"HelperAttributes::verify", "HelperAttributesForCompareOp::from_attrs", "HelperAttributeForDebug::from_attrs",
                                     "HelperAttributeForDefault::from_attrs", "DeriveEntry::from_args_list", "parse_derive_ex_attrs"}, trace={"HelperAttributes::verify"})
    fn4 = eng.find("HelperAttributes::from_attrs")
    res4 = ex4.run(fn4, eng.args_for(fn4))
    obl.note_paths("HelperAttributes::from_attrs", res4, ex4)
    obl.total += 1
    oks = [r for r in res4 if r.kind == "return" and not is_err(r)]
    if oks and all(any(e[0] == "HelperAttributes::verify" and e[1][1] == "sym:target" for e in r.events) for r in oks):
        obl.discharged += 1
    else:
        probes.structural(out, "from_attrs-verify", "HelperAttributes::from_attrs can return Ok without verifying the placement of the attributes", 'C05.placement')


def check_parse_wiring(eng, obl, out):
    """what the body builders see is what was written: (O1) HelperAttributesForCompareOp::from_attrs fills the slot of attribute X with the parse result for X, and does so
    iff `kinds.is_match_cmp_attr(X)` (an uninterpreted predicate here; what it answers is C14's subject); (O2) HelperAttributeForCompareOp::from_attrs copies every argument
    of the parsed attribute into the entry (ignore, reverse, by, key, bound) - the result of `parse_single` is a symbolic input; (O3) the attribute name looked up for X is X's own."""
    slots = eng.ti.structs.get("HelperAttributesForCompareOp") or list(ATTRS)
    variant = {"ord": "Ord", "partial_ord": "PartialOrd", "eq": "Eq", "partial_eq": "PartialEq", "hash": "Hash"}
    pure = "HelperAttributeKinds::is_match_cmp_attr"
    inner = "HelperAttributeForCompareOp::from_attrs"
    ex = eng.executor(opaque_local={pure, inner}, trace={inner})
    ex.pure_fns = {pure}
    fn = eng.find("HelperAttributesForCompareOp::from_attrs")
    res = ex.run(fn, eng.args_for(fn))
    tag = "HelperAttributesForCompareOp::from_attrs"
    obl.note_paths(tag, res, ex)
    m = {a: ex.bvar("pure:%s(sym:kinds,agg:CompareOp::%s())" % (pure, variant[a])) for a in slots if a in variant}
    bad_shape = None
    for r in res:
        if r.kind != "return":
            out.inconclusive.append("fn=%s reason=%s %s" % (tag, r.kind, r.value))
            continue
        if is_err(r):
            # an error can only come from parsing an attribute that is recognised
            src = ex.summ(mx.State(), r.value)
            conj = [m[a] for a in m if "%s(sym:attrs,agg:CompareOp::%s())" % (inner, variant[a]) in src] or [z3.BoolVal(False)]
            obl.check_unsat(ex, tag + ":error-of-a-recognised-attribute", list(r.pc) + [z3.Not(z3.Or(conj))], info=("parse", src[:200]))
            continue
        v = r.value.fields[0] if isinstance(r.value, mx.Agg) and r.value.fields else None
        if not (isinstance(v, mx.Agg) and len(v.fields) == len(slots)):
            bad_shape = "result is not a HelperAttributesForCompareOp aggregate"
            continue
        conj, what = [], []
        for a, fv in zip(slots, v.fields):
            sm = ex.summ(mx.State(), fv)
            own = "ok-of(%s(sym:attrs,agg:CompareOp::%s()))" % (inner, variant[a]) in sm and sm.count(inner) == 1
            dflt = inner not in sm
            conj.append(m[a] if own else (z3.Not(m[a]) if dflt else z3.BoolVal(False)))
            what.append((a, "own parse result" if own else ("default" if dflt else sm[:80])))
        obl.check_unsat(ex, tag + ":slot-is-own-parse-result-iff-recognised", list(r.pc) + [z3.Not(z3.And(conj))], info=("parse", what), keep_smt=True)
    if bad_shape:
        out.inconclusive.append("fn=%s reason=%s" % (tag, bad_shape))
    else:
        e3.coverage_check(ex, obl, tag, res)
    # (O2)
    ex2 = eng.executor(opaque_local={"parse_single", "Bounds::from", "From::Bounds::from", "Template::new", "CompareOp::to_str_snake_case"}, trace={"parse_single"})
    ex2.sym_returns = {"parse_single": "parsed"}
    fn2 = eng.find(inner)
    res2 = ex2.run(fn2, eng.args_for(fn2))
    obl.note_paths(inner, res2, ex2)
    names = eng.ti.structs.get("HelperAttributeForCompareOp") or ["ignore", "reverse", "by", "key", "bounds"]
    for r in res2:
        if r.kind != "return":
            out.inconclusive.append("fn=%s reason=%s %s" % (inner, r.kind, r.value))
            continue
        if not any(e[0] == "parse_single" and e[1][1] == "opaque:CompareOp::to_str_snake_case(sym:op)" for e in r.events):
            obl.check_unsat(ex2, inner + ":parses-the-attribute-of-its-own-name", list(r.pc), info=("parse", "parse_single is not called with op.to_str_snake_case(): %s" % (r.events[:2],)))
            continue
        if is_err(r):
            obl.check_unsat(ex2, inner + ":error-iff-parse-error", list(r.pc) + [ex2.ivar("disc(parsed)", 0, 1) == 0], info=("parse", "Err although the attribute parsed"))
            continue
        v = r.value.fields[0] if isinstance(r.value, mx.Agg) and r.value.fields else None
        if not (isinstance(v, mx.Agg) and len(v.fields) == len(names)):
            out.inconclusive.append("fn=%s reason=result is not a HelperAttributeForCompareOp aggregate" % inner)
            continue
        f = dict(zip(names, (ex2.summ(mx.State(), x) for x in v.fields)))
        some = ex2.ivar("disc(parsed.<Ok>.0)", 0, 1) == 1
        base = r"sym:parsed\.<Ok>\.0\.<Some>\.0(\.0)?\."
        import re as _re
        dby = ex2.ivar("disc(parsed.<Ok>.0.<Some>.0.0.by)", 0, 1) == 1
        dkey = ex2.ivar("disc(parsed.<Ok>.0.<Some>.0.0.key)", 0, 1) == 1
        copied = [
            z3.BoolVal(_re.fullmatch(base + "ignore", f.get("ignore", "")) is not None),
            z3.BoolVal(_re.fullmatch(base + "reverse", f.get("reverse", "")) is not None),
            dby if _re.fullmatch(r"agg:Option::Some\(" + base + r"by\.<Some>\.0\.value\)", f.get("by", "")) else (z3.Not(dby) if f.get("by") == "agg:Option::None()" else z3.BoolVal(False)),
            dkey if _re.fullmatch(r"agg:Option::Some\(opaque:Template::new\(" + base + r"key\.<Some>\.0\.value\)\)", f.get("key", "")) else (z3.Not(dkey) if f.get("key") == "agg:Option::None()" else z3.BoolVal(False)),
            z3.BoolVal(_re.fullmatch(r"opaque:(From::)?Bounds::from\(" + base + r"bound\)", f.get("bounds", "")) is not None),
        ]
        is_default = "parsed" not in "".join(f.values())
        want = z3.If(some, z3.And(copied), z3.BoolVal(is_default))
        obl.check_unsat(ex2, inner + ":entry-is-the-parsed-attribute", list(r.pc) + [z3.Not(want)], info=("parse", {k: x[:90] for k, x in f.items()}), keep_smt=True)
    e3.coverage_check(ex2, obl, inner, res2)
    # (O3) the name table
    fn3 = eng.find("CompareOp::to_str_snake_case")
    for a, vn in variant.items():
        r3 = eng.executor().run(fn3, [mx.Agg("adt", "CompareOp", vn, [])])
        obl.total += 1
        got = [r.value.extra for r in r3 if r.kind == "return" and isinstance(r.value, mx.Agg) and r.value.kind == "str"]
        if len(r3) == 1 and got == [a]:
            obl.discharged += 1
        else:
            obl.failed.append(("CompareOp::to_str_snake_case(%s)" % vn, None, ("parse", "CompareOp::%s is looked up under the attribute name %s, not `%s`" % (vn, got, a))))


def placement_matrix(out):
    """the written attribute reaches the verdict: the complete placement matrix and the per-owner recognition of every helper attribute, through the real macro (native; the
    E3 obligations start from parsed entries, this is the link between the written attribute and the parsed entry). A disagreement is a verdict of the macro's own diagnostics."""
    n = 0
    for case in probes.PROBES["C05.parse"]:
        from . import replay_e3
        obs = replay_e3.observe(case)
        n += 1
        if replay_e3.disagrees(case, obs):
            c = dict(case, property=PID, explain="placement matrix: documented verdict %s, the macro says %s" % ("rejected" if case.get("expected_reject") else "accepted", obs.get("errors")))
            path = e3.write_replay(PID, "placement-%02d" % n, c)
            out.violation("placement|%s|%s" % (case["attr"][:40], common.norm(case["item"])[:70]), path,
                          "verdict from the macro's own diagnostics, not from the solver: #[derive_ex(%s)] %s should be %s; errors: %s" % (
                              case["attr"], case["item"], "rejected (%s)" % case.get("message") if case.get("expected_reject") else "accepted", obs.get("errors")))
            if sum(1 for v in out.violations if v[0].startswith("placement|")) >= 3:
                break
    return n


def check_isolation(eng, obl, out):
    """an error in one trait's builder does not prevent the other traits from being generated"""
    ex = eng.executor()
    fn = eng.find("DeriveEntry::apply_dump")
    res = ex.run(fn, eng.args_for(fn))
    obl.note_paths("DeriveEntry::apply_dump", res, ex)
    obl.total += 1
    if res and all(r.kind == "return" for r in res):
        obl.discharged += 1
    else:
        probes.structural(out, "apply_dump", "DeriveEntry::apply_dump can panic / diverge: %s" % [(r.kind, r.value) for r in res if r.kind != "return"][:2], 'C05.isolation')
    builders = {"build_binary_op", "build_assign_op", "build_unary_op", "build_compare_op_for_struct", "build_compare_op_for_enum", "build_copy_for_struct",
                "build_clone_for_struct", "build_debug_for_struct", "build_default_for_struct", "build_deref_for_struct", "build_copy_for_enum",
                "build_clone_for_enum", "build_debug_for_enum", "build_default_for_enum"}
    for core in ("build_by_item_struct_core", "build_by_item_enum_core"):
        ex2 = eng.executor(opaque_local=builders | {"DeriveEntry::apply_dump", "HelperAttributes::from_attrs", "FieldEntry::from_fields", "VariantEntry::from_variants",
                                                     "DeriveEntry::from_root", "HelperAttributeKinds::extend"}, trace=builders | {"DeriveEntry::apply_dump"}, slice_bound=2)
        fn2 = eng.find(core)
        res2 = ex2.run(fn2, eng.args_for(fn2))
        obl.note_paths(core, res2, ex2)
        obl.total += 1
        good = True
        n_loops = 0
        for r in res2:
            if r.kind != "return":
                continue
            evs = r.events
            # builder and apply_dump strictly alternate, one pair per entry; the loop never exits early on a builder error
            for i in range(0, len(evs) - 1, 2):
                if evs[i][0] not in builders or evs[i + 1][0] != "DeriveEntry::apply_dump":
                    good = False
            if len(evs) % 2 == 1 and not (evs and evs[-1][0] not in builders and False):
                # odd length is only fine for the `derive for enum is not supported` bail-out, which has no builder event
                good = good and evs[-1][0] not in builders
            n_loops = max(n_loops, len(evs) // 2)
        if good and n_loops >= 2:
            obl.discharged += 1
        else:
            probes.structural(out, "isolation|" + core, "%s does not route every builder result through apply_dump (per-entry error isolation)" % core, 'C05.isolation')


def validate_encoder(eng, n, rnd, out):
    """Serval-style: sampled concrete configurations through both the real macro and the path summaries"""
    cfgs = []
    opts = {"ord": ["ignore", "reverse", "by", "key"], "partial_ord": ["ignore", "reverse", "by", "key"], "eq": ["ignore", "by", "key"],
            "partial_eq": ["ignore", "by", "key"], "hash": ["ignore", "by", "key"]}
    for _ in range(n):
        cfg = {}
        for a in ATTRS:
            if rnd.random() < 0.45:
                k = rnd.choice(opts[a])
                cfg[a] = {k}
                if k in ("by", "key") and a in ("ord", "partial_ord") and rnd.random() < 0.3:
                    cfg[a].add("reverse")
        cfgs.append((rnd.choice(TRAITS), cfg))
    reqs = [("attr", ", ".join(TRAITS), struct_item([cmpcfg.concrete_attrs(cfg)], [t])) for t, cfg in cfgs]
    res = common.expand_many(reqs)
    agree = 0
    cache = {}
    import re
    for (t, cfg), r in zip(cfgs, res):
        msgs = common.compile_errors(r)
        named_reject = any(re.search(r"default implementation of `%s`|`#\[derive_ex\(%s\)\]` is specified" % (t, t), m) for m in msgs)
        # whether the trait is refused is read from the output itself (no impl of it is generated, an error takes its place); which trait the message *names* is compared with that
        impl_traits = {re.sub(r"<.*$", "", common.norm(it.get("trait", ""))).rsplit("::", 1)[-1] for it in r.get("items", []) if it.get("kind") == "impl"}
        native_reject = bool(msgs) and t not in impl_traits
        if native_reject != named_reject and not r.get("panic"):
            case = {"property": PID, "kind": "reject_trait", "mode": "attr", "attr": ", ".join(TRAITS), "item": struct_item([cmpcfg.concrete_attrs(cfg)], [t]), "trait": t, "expected_reject": native_reject,
                    "explain": "the impl of %s is %s, the error messages %s it: %s" % (t, "replaced by an error" if native_reject else "generated", "do not name" if native_reject else "name", [m[:120] for m in msgs])}
            path = e3.write_replay(PID, "message-%s-%d" % (t, len(out.violations)), case)
            out.violation("message-names-another-trait|%s|%s" % (t, sorted(cfg)), path,
                          "verdict from the macro's own diagnostics, not from the solver: %s is %s but the error messages %s: %s for %s" % (
                              t, "refused (no impl generated)" if native_reject else "generated", "name other traits only" if native_reject else "say that it is refused",
                              [m[:100] for m in msgs][:2], struct_item([cmpcfg.concrete_attrs(cfg)], [t])))
            if sum(1 for v in out.violations if v[0].startswith("message-names")) >= 3:
                break
            continue
        if t not in cache:
            ex = eng.executor(slice_bound=1)
            fn = eng.find(BODY_FN[t])
            pre = [z3.Not(ex.bvar("use_bounds")), ex.ivar("disc(source)", 0, 1) == 0, ex.ivar("len(source.<Struct>.1)", 0, 1) == 1]
            cache[t] = (ex, ex.run(fn, eng.args_for(fn), pre=pre))
        ex, paths = cache[t]
        fa = FieldAtoms(ex, "source.<Struct>.1.[0]")
        asg = cmpcfg.assignment(fa, cfg)
        s = z3.Solver()
        for d in ex.domains:
            s.add(d)
        for c in asg:
            s.add(c)
        preds, opaque = set(), False
        for p in paths:
            if p.kind != "return":
                continue
            s.push()
            for c in p.pc:
                s.add(c)
            if s.check() == z3.sat:
                preds.add(is_err(p))
                names = set()
                for c in p.pc:
                    if z3.is_expr(c):
                        ex._vars_of(c, names)
                opaque = opaque or any(n.startswith(("disc-opaque", "opaque-", "ret(", "havoc-", "len-opaque")) for n in names)
            s.pop()
        if preds == {native_reject}:
            agree += 1
        elif not preds or len(preds) == 2 or opaque:
            # no path of the encoding covers the configuration (stuck paths), or the encoding over-approximates a call it does not look into: nothing to validate against
            msg = "encoder validation skipped for trait %s config %s: the encoding has %s for it" % (t, cfg, "no path" if not preds else "paths with both outcomes / opaque results")
            if msg not in out.inconclusive:
                out.inconclusive.append(msg)
        else:
            out.broken.append("encoder validation: trait %s config %s: real macro %s, MIR path summary %s" % (t, cfg, "rejects" if native_reject else "accepts", sorted(preds)))
    return agree


def safe_body(eng, obl, out, *a, **kw):
    try:
        return run_body(eng, obl, out, *a, **kw)
    except mx.Inconclusive as e:
        out.inconclusive.append("fn=%s reason=%s" % (BODY_FN.get(a[0], a[0]), e))


def run(tier):
    t0 = time.time()
    out = common.Outcome(PID)
    rnd = random.Random(common.seed())
    eng = mir_engine.Engine(opaque_local=OPAQUE, trace=TRACE)
    obl = e3.Obligations(PID)
    try:
        for t in TRAITS:
            safe_body(eng, obl, out, t, "struct", 1)
            safe_body(eng, obl, out, t, "enum", 1, 1)
        # two fields / two variants: each field's free atoms restricted to one helper attribute (order, early exit, independence)
        pairs = [("ord", "partial_ord"), ("eq", "ord"), ("partial_eq", "hash"), ("partial_ord", "eq"), ("hash", "ord")]
        if tier != "thorough":
            pairs = [pairs[common.seed() % len(pairs)], pairs[(common.seed() + 2) % len(pairs)]]
        for a, b in pairs:
            for t in TRAITS:
                safe_body(eng, obl, out, t, "struct", 2, keep=[{a}, {b}], label=" %s/%s" % (a, b))
                if tier == "thorough":
                    safe_body(eng, obl, out, t, "enum", 1, 2, keep=[{a}, {b}], label=" %s/%s" % (a, b))
        e3.safe_part(out, check_verify, eng, obl, out)
        e3.safe_part(out, check_isolation, eng, obl, out)
        e3.safe_part(out, check_parse_wiring, eng, obl, out)
        placed = e3.safe_part(out, placement_matrix, out) or 0
        validated = e3.safe_part(out, validate_encoder, eng, 120 if tier == "thorough" else 40, rnd, out) or 0
        replay_failures(obl, out)
        if tier == "thorough":
            e3.cross_check_solvers(obl, out)
    except mx.Inconclusive as e:
        out.inconclusive.append("fn=? reason=%s" % e)
        validated = 0
    return e3.finish(
        PID, tier, t0, eng, obl, out,
        rule="every feasible MIR path of build_{ord,partial_ord,eq,partial_eq,hash}_body (and of the verify / apply_dump kernels) is one case; its path condition over the "
             "attribute-presence atoms (5 attributes x ignore/reverse/by/key per field, field/variant counts) is conjoined with the negated reference rule and must be UNSAT; "
             "non-trivial = a path with at least one decision on a configuration atom",
        bounds="K<=2 fields / <=2 variants; one field with all 20 atoms free (struct and enum-variant field), two fields with the free atoms of each restricted to one helper attribute; "
               "use_bounds=false (bound(..) plays no part in acceptance); inline depth<=14, <=14 visits per block",
        outside="structmeta's own token parsing (`parse_single` is a symbolic input of the parse-wiring obligations: which parse result lands in which slot, and that every argument is "
                "copied into the entry, is decided; that structmeta reads the tokens as written is observed natively on the complete placement matrix, 120 expansions); interactions needing >=3 fields; "
                "the wording of rustc diagnostics (which trait an error message names is compared natively with the trait whose impl is missing)",
        validated=validated + (placed if 'placed' in dir() else 0))
