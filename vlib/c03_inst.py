"""C03, instantiation clause (E1 programs whose observations are compile-time constants).

"The derived impl applies to an instantiation exactly when the type's own declared bounds hold and every used field whose type mentions a parameter implements
the trait" is a statement about rustc's trait solver. It is observed without compile errors: `<IsClone<X<P, Q>>>::V` (vlib/support.rs) is a constant that is true
iff `X<P, Q>: Clone`. Every program derives one trait family on a generic type X through the real macro, writes the *documented* impl by hand on a twin R with the
same fields (where-clause = one predicate `FieldTy: Trait`, in the reference form the operator needs, per used field that mentions a type or const parameter), and
asserts that X and R implement the trait for exactly the same instantiations of the parameters by probe types. The verdict is rustc's (the constants are folded
before Kani sees them); Kani only confirms them and provides the uniform harness, vacuity and replay machinery. A program that does not compile is reported as a
rustc verdict as in every E1 check ("never omitting a bound the generated body needs").
"""
import itertools
import re

from . import e1, kani_runner
from .mir import cmpcfg

PID = "C03"

FT_ALL = ["T", "Option<T>", "std::boxed::Box<T>", "std::vec::Vec<T>", "core::marker::PhantomData<T>", "&'a T", "(T, U)", "[T; N]", "fn(T) -> U", "*const T", "u8",
          "<T as HasOut>::Out", "[u8; N]", "Option<(U, &'a u8)>", "T::Out", "Option<T::Out>", "::std::vec::Vec<T>", "::core::option::Option<(u8, U)>", "Option<std::boxed::Box<Self>>"]
FT_OPS = ["T", "u8", "(T, U)", "core::marker::PhantomData<T>", "<T as HasOut>::Out", "U", "T::Out"]

STUB = {
    "Clone": "fn clone(&self) -> Self { loop {} }",
    "Copy": "",
    "Debug": "fn fmt(&self, _f: &mut core::fmt::Formatter<'_>) -> core::fmt::Result { loop {} }",
    "Default": "fn default() -> Self { loop {} }",
    "PartialEq": "fn eq(&self, _o: &Self) -> bool { loop {} }",
    "Eq": "",
    "PartialOrd": "fn partial_cmp(&self, _o: &Self) -> Option<core::cmp::Ordering> { loop {} }",
    "Ord": "fn cmp(&self, _o: &Self) -> core::cmp::Ordering { loop {} }",
    "Hash": "fn hash<HH: core::hash::Hasher>(&self, _s: &mut HH) { loop {} }",
}
PATH = {"Clone": "Clone", "Copy": "Copy", "Debug": "core::fmt::Debug", "Default": "Default", "PartialEq": "PartialEq", "Eq": "Eq", "PartialOrd": "PartialOrd", "Ord": "Ord",
        "Hash": "core::hash::Hash"}
FAMILY = {  # probed trait -> traits derived together (supertraits first)
    "Clone": ["Clone"], "Copy": ["Clone", "Copy"], "Debug": ["Debug"], "Default": ["Default"], "PartialEq": ["PartialEq"], "Eq": ["PartialEq", "Eq"],
    "PartialOrd": ["PartialEq", "PartialOrd"], "Ord": ["PartialEq", "Eq", "PartialOrd", "Ord"], "Hash": ["Hash"],
    "Add": ["Add"], "AddAssign": ["AddAssign"], "Neg": ["Neg"],
}
PROBES = {"Add": ["IsAddVV", "IsAddVR", "IsAddRV", "IsAddRR"], "AddAssign": ["IsAddAssignV", "IsAddAssignR"], "Neg": ["IsNegV", "IsNegR"]}
ONLY = {"Clone": ["PClone"], "Copy": ["PCopy", "PClone"], "Debug": ["PDebug"], "Default": ["PDefault"], "PartialEq": ["PPartialEq"], "Eq": ["PEq", "PPartialEq"],
        "PartialOrd": ["PPartialOrd", "PPartialEq"], "Ord": ["POrd", "PPartialOrd"], "Hash": ["PHash"], "Add": ["PAddVV", "PAddRR", "PAddTied"], "AddAssign": ["PAddAssignV", "PAddAssignR"],
        "Neg": ["PNegV", "PNegR"]}
CMP = ("PartialEq", "Eq", "PartialOrd", "Ord", "Hash")


def mentions(ft, what):
    if what == "'a":
        return "'a" in ft
    return re.search(r"(?<![\w:])%s(?![\w])" % what, ft) is not None


def mentions_param(ft):
    return any(mentions(ft, p) for p in ("T", "U", "N"))


class Shape:
    """fields: list of (type, attrs, used_by: set of traits or '*'); enum: list of variants (name, kind, [field idx])"""

    def __init__(self, label, fields, variants=None, default_variant=None):
        self.label, self.fields, self.variants, self.default_variant = label, fields, variants, default_variant

    def generics(self):
        ps = []
        if any(mentions(f[0], "'a") for f in self.fields):
            ps.append(("'a", "'a", "'static"))
        if any(mentions(f[0], "T") for f in self.fields):
            ps.append(("T", "T: HasOut" if any("HasOut" in f[0] or "T::Out" in f[0] for f in self.fields) else "T", None))
        if any(mentions(f[0], "U") for f in self.fields):
            ps.append(("U", "U", None))
        if any(mentions(f[0], "N") for f in self.fields):
            ps.append(("N", "const N: usize", "3"))
        return ps

    def body(self, with_attrs):
        fs = ["%spub f%d: %s" % ((" ".join(a) + " ") if (with_attrs and a) else "", i, t) for i, (t, a, _) in enumerate(self.fields)]
        if not self.variants:
            return "struct", "{ %s }" % ", ".join(fs)
        vs = []
        for vi, (vn, kind, idxs) in enumerate(self.variants):
            mark = "#[default] " if (with_attrs and self.default_variant == vi) else ""
            fl = ["%s%s%s" % ((" ".join(self.fields[i][1]) + " ") if (with_attrs and self.fields[i][1]) else "", ("f%d: " % i) if kind == "named" else "", self.fields[i][0]) for i in idxs]
            vs.append(mark + vn + ({"unit": "", "tuple": "(%s)" % ", ".join(fl), "named": "{ %s }" % ", ".join(fl)}[kind]))
        return "enum", "{ %s }" % ", ".join(vs)


def used_fields(shape, trait):
    out = []
    for i, (t, attrs, rule) in enumerate(shape.fields):
        if rule.get(trait, True):
            out.append(i)
    return out


def where_preds(shape, trait, form=None):
    ps = []
    for i in used_fields(shape, trait):
        ft = shape.fields[i][0]
        if not mentions_param(ft):
            continue
        if trait in PATH:
            ps.append("%s: %s" % (ft, PATH[trait]))
        elif trait == "Add":
            l, r = form
            ps.append("%s%s: core::ops::Add<%s%s, Output = %s>" % ("for<'__q> " if (l or r) else "", ("&'__q " if l else "") + ft, "&'__q " if r else "", ft, ft))
        elif trait == "AddAssign":
            ps.append("%s%s: core::ops::AddAssign<%s%s>" % ("for<'__q> " if form else "", ft, "&'__q " if form else "", ft))
        elif trait == "Neg":
            ps.append("%s%s%s: core::ops::Neg<Output = %s>" % ("for<'__q> " if form else "", "&'__q " if form else "", ft, ft))
    return ps


def manual_impls(shape, trait, name="Rf"):
    gs = shape.generics()
    decl = ", ".join(g[1] for g in gs)
    use = ", ".join(g[0] for g in gs)
    ty = "%s<%s>" % (name, use) if gs else name
    out = []
    wh = lambda ps: (" where " + ", ".join(ps)) if ps else ""
    if trait in PATH:
        for t in FAMILY[trait]:
            out.append("impl<%s> %s for %s%s { %s }" % (decl, PATH[t], ty, wh(where_preds(shape, t)), STUB[t]))
    elif trait == "Add":
        for l, r in ((False, False), (False, True), (True, False), (True, True)):
            d2 = ", ".join((["'__s"] if (l or r) else []) + ([decl] if decl else []))
            lt = ("&'__s " if l else "") + ty
            rt = ("&'__s " if r else "") + ty
            out.append("impl<%s> core::ops::Add<%s> for %s%s { type Output = %s; fn add(self, _r: %s) -> %s { loop {} } }" % (d2, rt, lt, wh(where_preds(shape, "Add", (l, r))), ty, rt, ty))
    elif trait == "AddAssign":
        for r in (False, True):
            d2 = ", ".join((["'__s"] if r else []) + ([decl] if decl else []))
            rt = ("&'__s " if r else "") + ty
            out.append("impl<%s> core::ops::AddAssign<%s> for %s%s { fn add_assign(&mut self, _r: %s) { loop {} } }" % (d2, rt, ty, wh(where_preds(shape, "AddAssign", r)), rt))
    elif trait == "Neg":
        for l in (False, True):
            d2 = ", ".join((["'__s"] if l else []) + ([decl] if decl else []))
            lt = ("&'__s " if l else "") + ty
            out.append("impl<%s> core::ops::Neg for %s%s { type Output = %s; fn neg(self) -> %s { loop {} } }" % (d2, lt, wh(where_preds(shape, "Neg", l)), ty, ty))
    return "\n".join(out)


def build(name, shape, trait, entry, co=()):
    """co: traits requested alongside (the bounds of `trait` do not depend on them)"""
    gs = shape.generics()
    decl = ", ".join(g[1] for g in gs)
    kw, body = shape.body(True)
    _, body_plain = shape.body(False)
    la = ", ".join(list(co) + FAMILY[trait])
    pre = ["#[derive_ex(%s)]" % la] if entry == "attr" else ["#[derive(Ex)]", "#[derive_ex(%s)]" % la]
    desc = "instantiation trait=%s shape=%s entry=%s%s" % (trait, shape.label, entry, (" co-derived=" + "+".join(co)) if co else "")
    src = "#![allow(dead_code, unconditional_recursion, unreachable_code, clippy::all)]\n" + e1.HEADER.format(pid=PID, name=name, desc=desc)
    g = "<%s>" % decl if decl else ""
    src += "%s\npub %s X%s %s\n\n" % ("\n".join(pre), kw, g, body)
    src += "// the documented impl, written by hand on a twin\npub %s Rf%s %s\n%s\n\n" % (kw, g, body_plain, manual_impls(shape, trait))
    tparams = [p[0] for p in gs if p[2] is None]
    cands = ["PAll", "PNone"] + ONLY[trait]
    insts = list(itertools.product(cands, repeat=len(tparams))) or [()]
    probes = PROBES.get(trait) or ["Is" + trait]
    b = []
    k = 0
    trues = []
    for inst in insts:
        args, it = [], iter(inst)
        for p in gs:
            args.append(p[2] if p[2] is not None else next(it))
        a = "<%s>" % ", ".join(args) if args else ""
        for pr in probes:
            b.append("    const A%d: bool = <%s<X%s>>::V; const B%d: bool = <%s<Rf%s>>::V;" % (k, pr, a, k, pr, a))
            b.append('    assert!(A%d == B%d, "applies-differs-%s-%s");' % (k, k, pr, "-".join(inst) or "none"))
            trues.append("B%d" % k)
            k += 1
    src += "pub fn check<S: Src>(_s: &mut S) {\n%s\n}\n\n" % "\n".join(b) + e1.harness()
    return kani_runner.Program(name, src, "inst|%s|%s|%s%s" % (trait, shape.label, entry, ("|co:" + "+".join(co)) if co else ""), desc, nontrivial=bool(tparams))


def shapes_for(trait, tier, rnd):
    out = []
    fts = FT_OPS if trait in PROBES else FT_ALL
    if trait == "Neg":
        fts = [f.replace("u8", "i8") for f in fts]
    if trait == "Default":
        fts = [f for f in fts if f not in ("&'a T", "*const T", "fn(T) -> U", "Option<(U, &'a u8)>")]  # no Default for these at all: the impl exists for no instantiation, both sides
        fts += ["&'a T"]  # one of them is kept: X must then implement Default for no instantiation
    if trait == "Copy":
        fts = [f for f in fts if "Box" not in f and "Vec" not in f] + ["std::boxed::Box<T>"]
    for ft in fts:
        out.append(Shape("1[%s]" % ft, [(ft, [], {})]))
    pairs = [("T", "Option<U>"), ("core::marker::PhantomData<T>", "U"), ("u8", "(T, U)"), ("[T; N]", "&'a U")] if trait not in PROBES else [("T", "U"), ("i8", "(T, U)"), ("core::marker::PhantomData<T>", "U")]
    if trait == "Default":
        pairs = [("T", "Option<U>"), ("core::marker::PhantomData<T>", "U"), ("u8", "(T, U)")]
    if trait == "Copy":
        pairs = [("T", "Option<U>"), ("core::marker::PhantomData<T>", "U"), ("u8", "(T, U)"), ("[T; N]", "&'a U")]
    for a, b in pairs:
        out.append(Shape("2[%s|%s]" % (a, b), [(a, [], {}), (b, [], {})]))
    if trait not in PROBES and trait != "Copy":
        # a recursive type that names itself through `Self`: that field mentions no parameter and contributes no bound
        out.append(Shape("2[T|Option<Box<Self>>]", [("T", [], {}), ("Option<std::boxed::Box<Self>>", [], {})]))
    # fields the derived code does not use contribute no bound
    if trait == "Debug":
        out.append(Shape("debug-ignore-first", [("T", ["#[debug(ignore)]"], {"Debug": False}), ("Option<U>", [], {})]))
        out.append(Shape("debug-ignore-last", [("Option<T>", [], {}), ("U", ["#[debug(ignore)]"], {"Debug": False})]))
        out.append(Shape("debug-transparent", [("T", [], {"Debug": False}), ("Option<U>", ["#[debug(transparent)]"], {})]))
        # the same inside enum variants (each variant has its own field loop in the builder)
        out.append(Shape("debug-enum-ignore", [("T", ["#[debug(ignore)]"], {"Debug": False}), ("u8", [], {}), ("Option<U>", [], {})], variants=[("A", "tuple", [0, 1]), ("B", "named", [2]), ("C", "unit", [])]))
        out.append(Shape("debug-enum-transparent", [("T", [], {"Debug": False}), ("Option<U>", ["#[debug(transparent)]"], {}), ("U", [], {})], variants=[("A", "named", [0, 1]), ("B", "tuple", [2])]))
    if trait == "Default":
        out.append(Shape("default-value-first", [("Option<T>", ["#[default(None)]"], {"Default": False}), ("U", [], {})]))
        out.append(Shape("default-value-last", [("T", [], {}), ("std::vec::Vec<U>", ["#[default(std::vec::Vec::new())]"], {"Default": False})]))
        # the explicit value is of a bare parameter type: a bound on it would be visible for every instantiation that lacks Default
        out.append(Shape("default-value-param-last", [("T", [], {}), ("U", ["#[default(crate::support::mk_any())]"], {"Default": False})]))
        out.append(Shape("default-value-param-first", [("T", ["#[default(crate::support::mk_any())]"], {"Default": False}), ("U", [], {})]))
        out.append(Shape("default-value-param-middle", [("Option<T>", [], {}), ("U", ["#[default(crate::support::mk_any())]"], {"Default": False}), ("u8", [], {})]))
        out.append(Shape("default-enum-value-param", [("T", [], {}), ("U", ["#[default(crate::support::mk_any())]"], {"Default": False})], variants=[("A", "named", [0, 1]), ("C", "unit", [])], default_variant=0))
        out.append(Shape("default-enum-first", [("T", [], {}), ("U", [], {"Default": False})], variants=[("A", "tuple", [0]), ("B", "named", [1]), ("C", "unit", [])], default_variant=0))
        out.append(Shape("default-enum-middle", [("T", [], {"Default": False}), ("Option<U>", [], {})], variants=[("A", "tuple", [0]), ("B", "named", [1]), ("C", "unit", [])], default_variant=1))
        out.append(Shape("default-enum-unit", [("T", [], {"Default": False}), ("U", [], {"Default": False})], variants=[("A", "tuple", [0]), ("B", "named", [1]), ("C", "unit", [])], default_variant=2))
    if trait in CMP:
        fam = FAMILY[trait]
        ign = lambda t, a: a in cmpcfg.IGNORE_SRC[t]
        rej = lambda t, a: (not ign(t, a)) and ((t in ("Ord", "PartialOrd", "Eq") and a in ("ord", "partial_ord", "eq", "partial_eq")) or (t == "Hash" and a in ("partial_eq", "partial_ord")))
        for a in cmpcfg.ATTRS:
            if any(rej(t, a) for t in fam) or not any(ign(t, a) for t in fam):
                continue  # refused by the macro (A.4) / no effect on this family
            rule = {t: not ign(t, a) for t in fam}
            ia = "#[%s(ignore)]" % a
            out.append(Shape("cmp-ignore-%s-first" % a, [("T", [ia], rule), ("Option<U>", [], {})]))
            out.append(Shape("cmp-ignore-%s-last" % a, [("Option<T>", [], {}), ("U", [ia], rule)]))
            out.append(Shape("cmp-enum-ignore-%s" % a, [("T", [ia], rule), ("Option<U>", [], {}), ("u8", [], {})], variants=[("A", "tuple", [0, 1]), ("B", "named", [2]), ("C", "unit", [])]))
        for a in cmpcfg.ATTRS:
            if not all(a in cmpcfg.PREC[t] for t in fam):
                continue  # a key that does not reach every derived trait of the family leaves one of them without comparator: refused (A.4)
            ka = "#[%s(key = { let _ = &$; 0u8 })]" % a
            rule = {t: False for t in fam}
            out.append(Shape("cmp-key-%s-first" % a, [("T", [ka], rule), ("U", [], {})]))
            out.append(Shape("cmp-key-%s-last" % a, [("Option<T>", [], {}), ("U", [ka], rule)]))
    if trait in ("Clone", "Debug", "PartialEq", "Hash", "PartialOrd"):
        out.append(Shape("enum-mixed", [("T", [], {}), ("Option<U>", [], {}), ("u8", [], {})], variants=[("A", "tuple", [0]), ("B", "named", [1, 2]), ("C", "unit", [])]))
        out.append(Shape("enum-phantom", [("core::marker::PhantomData<T>", [], {}), ("U", [], {})], variants=[("A", "tuple", [0]), ("B", "tuple", [1])]))
    if tier == "quick":
        singles = [s for s in out if s.label.startswith("1[")]
        keep = [s for s in out if not s.label.startswith("1[")] + rnd.sample(singles, 5) + [s for s in singles if s.label == "1[::std::vec::Vec<T>]"]
        return keep
    return out


def programs(tier, rnd, start=0):
    progs = []
    for trait in FAMILY:
        for sh in shapes_for(trait, tier, rnd):
            entry = "derive" if (len(progs) % 7 == 3) else "attr"
            progs.append(build("q%05d" % (start + len(progs)), sh, trait, entry))
    # the same with other traits requested alongside: Copy / Clone next to the operators, Clone / Debug next to the comparisons (two shapes each)
    for trait, co in (("Neg", ["Clone", "Copy"]), ("Add", ["Clone", "Copy"]), ("AddAssign", ["Clone", "Copy"]), ("PartialEq", ["Clone", "Debug"]), ("Hash", ["Clone", "Default"]),
                      ("Clone", ["Debug", "Default"]), ("Debug", ["Clone", "PartialEq"])):
        for sh in shapes_for(trait, tier, rnd)[:2]:
            if all(t not in sh.label for t in ("&'a", "*const", "fn(", "dyn")) or "Copy" not in co:
                progs.append(build("q%05d" % (start + len(progs)), sh, trait, "attr", co=co))
    # the probes themselves: each answers true on a type that implements the trait and false on one that does not
    b = []
    for pr, yes in (("IsClone", "PClone"), ("IsCopy", "PCopy"), ("IsDebug", "PDebug"), ("IsDefault", "PDefault"), ("IsPartialEq", "PPartialEq"), ("IsEq", "PEq"),
                    ("IsPartialOrd", "PPartialOrd"), ("IsOrd", "POrd"), ("IsHash", "PHash"), ("IsAddVV", "PAddVV"), ("IsAddRR", "PAddRR"), ("IsNegV", "PNegV"), ("IsNegR", "PNegR"),
                    ("IsAddAssignV", "PAddAssignV"), ("IsAddAssignR", "PAddAssignR"), ("IsAddVR", "PAll"), ("IsAddRV", "PAll"), ("IsAddRR", "PAddTied")):
        b.append('    assert!(<%s<%s>>::V && !<%s<PNone>>::V, "probe-%s");' % (pr, yes, pr, pr))
    b.append('    assert!(!<IsAddRR<PAddVV>>::V && !<IsAddVV<PAddRR>>::V && !<IsCopy<PClone>>::V && !<IsOrd<PPartialOrd>>::V, "probe-forms");')
    name = "q%05d" % (start + len(progs))
    src = e1.HEADER.format(pid=PID, name=name, desc="probe sanity") + "pub fn check<S: Src>(_s: &mut S) {\n%s\n}\n\n" % "\n".join(b) + e1.harness()
    progs.append(kani_runner.Program(name, src, "inst|probes", "probe sanity", nontrivial=True))
    return progs
