"""C12 — without helper attributes derive_ex is a drop-in for the standard derives (E1, behavioural clause).

Each program carries the same type twice: `T` with #[derive_ex(..)] and `twin::T` with #[derive(..)]; Kani decides for all values that
Clone, Default, ==, partial_cmp, cmp agree, that == implies equal Hash feeds, and (in the `debug` flavour) that `{:?}` prints the same bytes.
That a shape compiles at all is rustc's verdict: such failures are reported as `verdict from rustc`.
"""
import random
import time

from . import common, e1, kani_runner

PID = "C12"
ALL = ["Clone", "Debug", "Default", "PartialEq", "Eq", "PartialOrd", "Ord", "Hash"]
POOL = ["u8", "i8", "bool", "u16", "F"]


class Sh:
    def __init__(self, sid, kind, variants, generics_decl="", generics_use="", where="", attrs=(), default_variant=None, traits=None, name="T"):
        self.sid, self.kind, self.variants = sid, kind, variants  # variant: (name, vkind, [(fname, ty)])
        self.gd, self.gu, self.where, self.attrs = generics_decl, generics_use, where, list(attrs)
        self.default_variant, self.traits, self.name = default_variant, traits or list(ALL), name

    def body(self, std):
        out = []
        for vi, (vn, vk, fs) in enumerate(self.variants):
            if vk == "unit":
                b = ""
            elif vk == "named":
                b = " { %s }" % ", ".join("pub %s: %s" % (n, t) for n, t in fs)
            else:
                b = "(%s)" % ", ".join("pub %s" % t for _, t in fs)
            out.append((vn, vk, b))
        if self.kind == "struct":
            vn, vk, b = out[0]
            if vk == "named":
                return "pub struct %s%s%s%s" % (self.name, self.gd, (" " + self.where) if self.where else "", b)
            return "pub struct %s%s%s%s;" % (self.name, self.gd, b, (" " + self.where) if self.where else "")
        vs = []
        for vi, (vn, vk, b) in enumerate(out):
            mark = "#[default] " if (self.default_variant == vi and self.with_default) else ""
            vs.append("    %s%s%s," % (mark, vn, b.replace("pub ", "")))
        return "pub enum %s%s%s {\n%s\n}" % (self.name, self.gd, (" " + self.where) if self.where else "", "\n".join(vs))

    def item(self, std, traits):
        self.with_default = "Default" in traits
        head = "".join(a + "\n" for a in self.attrs)
        d = "#[derive(%s)]" % ", ".join(traits) if std else "#[derive_ex(%s)]" % ", ".join(traits)
        return head + d + "\n" + self.body(std)

    def ctor(self, vi, vals, path):
        vn, vk, fs = self.variants[vi]
        p = path if self.kind == "struct" else "%s::%s" % (path, vn)
        if vk == "unit":
            return p
        if vk == "named":
            return "%s { %s }" % (p, ", ".join("%s: %s" % (n, v) for (n, _), v in zip(fs, vals)))
        return "%s(%s)" % (p, ", ".join(vals))

    def pat(self, vi, prefix, path):
        vn, vk, fs = self.variants[vi]
        return self.ctor(vi, ["%s%d" % (prefix, i) for i in range(len(fs))], path)


def gen_val(ty):
    return {"u8": "s.u8()", "i8": "s.i8()", "bool": "s.bool()", "u16": "s.u16()", "F": "F(s.u8())", "Po": "Po(s.u8())", "Wo": "Wo(s.u8())", "&'static u8": "&REFS[s.below(2) as usize]",
            "[u8; 2]": "[s.u8(), s.u8()]", "core::marker::PhantomData<u16>": "core::marker::PhantomData", "(u8, i8)": "(s.u8(), s.i8())",
            "(F, F)": "(F(s.u8()), F(s.u8()))", "f32": "(if s.bool() { f32::NAN } else { s.u8() as f32 })", "A::Out": "PAll(s.u8())"}.get(ty) or \
        {"A": "Gen::gen(s)", "&'a u8": "&REFS[s.below(2) as usize]", "&'a A": "&REFS[s.below(2) as usize]", "[u8; N]": "[s.u8(), s.u8()]", "core::marker::PhantomData<A>": "core::marker::PhantomData"}[ty]


def debug_variant(sh):
    """for the Debug flavour integer fields are replaced by F (integer formatting is expensive under CBMC and not derive_ex's code)"""
    import copy
    m = {"u8": "F", "i8": "F", "u16": "F", "bool": "F", "(u8, i8)": "(F, F)", "F": "F", "A": "A", "core::marker::PhantomData<A>": "core::marker::PhantomData<A>"}
    vs = []
    for vn, vk, fs in sh.variants:
        nf = []
        for n, t in fs:
            if t not in m:
                return None
            nf.append((n, m[t]))
        vs.append((vn, vk, nf))
    d = copy.copy(sh)
    d.variants = vs
    d.gu = sh.gu.replace("u8", "F")
    return d


def build(name, sh, flavour):
    traits = [t for t in sh.traits if (t != "Debug" or flavour == "debug")]
    if flavour == "debug":
        traits = ["Debug"]
        sh = debug_variant(sh)
        if sh is None:
            return None
    desc = "shape=%s traits=%s flavour=%s" % (sh.sid, "+".join(traits), flavour)
    src = e1.HEADER.format(pid=PID, name=name, desc=desc)
    src += "static REFS: [u8; 2] = [3, 200];\n"
    src += sh.item(False, traits) + "\n\npub mod twin {\n    use crate::support::*;\n    %s\n}\n\n" % sh.item(True, traits).replace("\n", "\n    ")
    tu = sh.name + sh.gu
    nv = len(sh.variants)
    arms_mk, arms_tw = [], []
    for vi, (vn, vk, fs) in enumerate(sh.variants):
        arms_mk.append("        %d => %s," % (vi, sh.ctor(vi, [gen_val(t) for _, t in fs], sh.name)))
        copy = ["*a%d" % i if "PhantomData" not in t else "core::marker::PhantomData" for i, (_, t) in enumerate(fs)]
        arms_tw.append("        %s => %s," % (sh.pat(vi, "a", sh.name), sh.ctor(vi, copy, "twin::" + sh.name)))
    if nv == 0:
        src += "pub fn mk<S: Src>(s: &mut S) -> %s { loop { vassume(false); } }\n" % tu
        src += "pub fn tw(x: &%s) -> twin::%s { match *x {} }\n" % (tu, tu)
    else:
        src += "pub fn mk<S: Src>(s: &mut S) -> %s {\n    match s.below(%d) {\n%s\n        _ => loop { vassume(false); },\n    }\n}\n" % (tu, nv, "\n".join(arms_mk))
        src += "/// the same value as the std-derived twin type\npub fn tw(x: &%s) -> twin::%s {\n    match x {\n%s\n    }\n}\n" % (tu, tu, "\n".join(arms_tw))
    b = ["    let x = mk(s);", "    let y = mk(s);", "    let (tx, ty) = (tw(&x), tw(&y));"]
    if flavour == "debug":
        b += ["    use core::fmt::Write;", "    let mut s1 = Sink::new();", "    let mut s2 = Sink::new();", '    let _ = write!(s1, "{:?}", x);', '    let _ = write!(s2, "{:?}", tx);',
              '    assert!(!s1.overflow && s2.len > 0, "harness-sink-capacity");', '    assert!(s1.same(&s2), "debug-output");']
    else:
        if "PartialEq" in traits:
            b += ['    cover!(x == y, "equal-pair");', '    assert!((x == y) == (tx == ty), "eq-like-std");', '    assert!((x != y) == (tx != ty), "ne-like-std");',
                  # the same object on both sides (a non-reflexive field such as NaN must stay unequal to itself, as with the std derive)
                  '    assert!((x == x) == (tx == tx), "eq-self-like-std");']
        floats = [n for v in sh.variants for n, t in v[2] if t == "f32"]
        if floats:
            # values with a NaN are not `==` to their own copy: compare copies field by field, floats by their bits
            others = [n for v in sh.variants for n, t in v[2] if t != "f32"]
            src += "fn same(p: &twin::%s, q: &twin::%s) -> bool { %s }\n" % (tu, tu, " && ".join(["p.%s.to_bits() == q.%s.to_bits()" % (n, n) for n in floats] + ["p.%s == q.%s" % (n, n) for n in others]))
        eqv = (lambda l, r: "same(&%s, &%s)" % (l, r)) if floats else (lambda l, r: "%s == %s" % (l, r))
        if "Clone" in traits and "PartialEq" in traits:
            b += ['    assert!(%s, "clone-like-std");' % eqv("tw(&x.clone())", "tx.clone()"), "    let mut z = mk(s);", "    z.clone_from(&x);", '    assert!(%s, "clone_from-like-std");' % eqv("tw(&z)", "tx")]
        if "Default" in traits and "PartialEq" in traits:
            b += ['    assert!(%s, "default-like-std");' % eqv("tw(&<%s as Default>::default())" % tu, "<twin::%s as Default>::default()" % tu)]
        if "PartialOrd" in traits:
            b += ['    assert!(x.partial_cmp(&y) == tx.partial_cmp(&ty), "partial_cmp-like-std");', '    assert!((x < y) == (tx < ty) && (x >= y) == (tx >= ty), "lt-ge-like-std");']
        if "Ord" in traits:
            b += ['    assert!(x.cmp(&y) == tx.cmp(&ty), "cmp-like-std");']
        if "Hash" in traits and "PartialEq" in traits:
            b += ["    let mut hx = Rec::new();", "    Hash::hash(&x, &mut hx);", "    let mut hy = Rec::new();", "    Hash::hash(&y, &mut hy);",
                  '    if x == y { assert!(hx.same(&hy), "eq-implies-equal-hash"); }']
    if nv == 0:
        # no values exist: the program only has to compile (rustc's verdict); keep the derived methods instantiated
        b = ["    let _ = s.u8();"]
        src += "pub fn instantiate(x: &%s, y: &%s) -> (bool, Option<Ordering>, Ordering) {\n    let c = x.clone();\n    let mut h = Rec::new();\n    Hash::hash(&c, &mut h);\n    (x == y, x.partial_cmp(y), x.cmp(y))\n}\n" % (tu, tu)
    src += "pub fn check<S: Src>(s: &mut S) {\n%s\n}\n\n" % "\n".join(b) + e1.harness(unwind=66 if flavour == "debug" else 18)
    return kani_runner.Program(name, src, "%s|%s" % (sh.sid, flavour), desc, nontrivial=nv >= 2 or any(len(v[2]) >= 2 for v in sh.variants))


def build_unsized(name, kind, flavour):
    """a struct whose last field is unsized (generic `A: ?Sized` instantiated with a slice through an unsizing coercion): the standard derives accept it for
    Debug and the comparison / Hash traits (Clone and Default need Sized)"""
    traits = ["Debug"] if flavour == "debug" else ["PartialEq", "Eq", "PartialOrd", "Ord", "Hash"]
    ety = "F" if flavour == "debug" else "u8"
    gen = "F(s.u8())" if flavour == "debug" else "s.u8()"
    body = "{ pub a: %s, pub b: A }" % ety if kind == "named" else "(pub %s, pub A);" % ety
    mk = (lambda p: "%s { a: %s, b: [%s, %s] }" % (p, gen, gen, gen)) if kind == "named" else (lambda p: "%s(%s, [%s, %s])" % (p, gen, gen, gen))
    cp = (lambda p, v: "%s { a: %s.a, b: %s.b }" % (p, v, v)) if kind == "named" else (lambda p, v: "%s(%s.0, %s.1)" % (p, v, v))
    desc = "shape=unsized-tail-%s traits=%s flavour=%s" % (kind, "+".join(traits), flavour)
    src = e1.HEADER.format(pid=PID, name=name, desc=desc)
    src += "#[derive_ex(%s)]\npub struct T<A: ?Sized> %s\n\npub mod twin {\n    use crate::support::*;\n    #[derive(%s)]\n    pub struct T<A: ?Sized> %s\n}\n\n" % (
        ", ".join(traits), body, ", ".join(traits), body)
    b = ["    let (x0, y0) = (%s, %s);" % (mk("T"), mk("T")), "    let (tx0, ty0) = (%s, %s);" % (cp("twin::T", "x0"), cp("twin::T", "y0")),
         "    // unsizing coercions: the values compared below have an unsized last field", "    let (x, y): (&T<[%s]>, &T<[%s]>) = (&x0, &y0);" % (ety, ety),
         "    let (tx, ty): (&twin::T<[%s]>, &twin::T<[%s]>) = (&tx0, &ty0);" % (ety, ety)]
    if flavour == "debug":
        b += ["    use core::fmt::Write;", "    let mut s1 = Sink::new();", "    let mut s2 = Sink::new();", '    let _ = write!(s1, "{:?}", x);', '    let _ = write!(s2, "{:?}", tx);',
              "    let _ = (y, ty);", '    assert!(!s1.overflow && s2.len > 0, "harness-sink-capacity");', '    assert!(s1.same(&s2), "debug-output");']
    else:
        b += ['    cover!(x == y, "equal-pair");', '    assert!((x == y) == (tx == ty), "eq-like-std");', '    assert!(x.partial_cmp(y) == tx.partial_cmp(ty), "partial_cmp-like-std");',
              '    assert!(x.cmp(y) == tx.cmp(ty), "cmp-like-std");', "    let mut hx = Rec::new();", "    Hash::hash(x, &mut hx);", "    let mut ht = Rec::new();", "    Hash::hash(tx, &mut ht);",
              '    assert!(hx.same(&ht), "hash-feed-like-std");']
    src += "pub fn check<S: Src>(s: &mut S) {\n%s\n}\n\n" % "\n".join(b) + e1.harness(unwind=66 if flavour == "debug" else 18)
    return kani_runner.Program(name, src, "unsized-tail-%s|%s" % (kind, flavour), desc, nontrivial=True)


def shapes(tier, rnd):
    out = []
    S = lambda sid, vk, fs, **kw: Sh(sid, "struct", [(None, vk, fs)], **kw)
    out.append(S("unit", "unit", []))
    out.append(S("empty-braces", "named", []))
    out.append(S("empty-parens", "tuple", []))
    for n in (1, 2, 3, 4):
        tys = [POOL[(i + n) % 4] for i in range(n)]
        out.append(S("tuple%d" % n, "tuple", [(None, t) for t in tys]))
        out.append(S("named%d" % n, "named", [(("w", "c", "x", "a", "m", "b")[i], t) for i, t in enumerate(tys)]))
    out.append(S("named-tuplefield", "named", [("a", "(u8, i8)"), ("b", "bool")]))
    out.append(S("partial-only", "named", [("a", "Po"), ("b", "u8")], traits=["Clone", "PartialEq", "PartialOrd"]))
    out.append(S("float-field", "named", [("a", "f32"), ("b", "u8")], traits=["Clone", "PartialEq", "PartialOrd", "Default"]))
    # (a field whose PartialOrd is not `Some(Ord::cmp)` with Ord derived alongside is C01's shape s_wo: against the std-derived twin Kani reported a difference
    #  that does not reproduce natively - the twin's own derive is not this check's subject - so the comparison is made against the documented rule there)
    # an incomparable later field must not override the order decided by an earlier one
    out.append(S("float-last", "named", [("a", "u8"), ("b", "f32"), ("c", "Po")], traits=["Clone", "PartialEq", "PartialOrd"]))
    out.append(S("assoc-type-shorthand", "named", [("a", "A::Out"), ("b", "u8")], generics_decl="<A: HasOut>", generics_use="<PAll>"))
    out.append(S("raw-ident-fields", "named", [("r#type", "u8"), ("r#match", "i8")]))
    out.append(S("raw-ident-type", "tuple", [(None, "u8")], name="r#struct"))
    out.append(S("repr-c", "named", [("a", "u8"), ("b", "u16")], attrs=["#[repr(C)]", "/// documented"]))
    out.append(S("non-exhaustive", "named", [("a", "u8")], attrs=["#[non_exhaustive]"]))
    out.append(S("lifetime", "named", [("r", "&'a u8"), ("b", "u8")], generics_decl="<'a>", generics_use="<'static>", traits=[t for t in ALL if t != "Default"]))
    out.append(S("type-param", "named", [("a", "A"), ("p", "core::marker::PhantomData<A>")], generics_decl="<A>", generics_use="<u8>"))
    out.append(S("ref-to-type-param", "named", [("r", "&'a A"), ("b", "u8")], generics_decl="<'a, A>", generics_use="<'static, u8>", traits=[t for t in ALL if t != "Default"]))
    out.append(S("type-param-default-where", "tuple", [(None, "A"), (None, "u8")], generics_decl="<A: Copy = u8>", generics_use="<u8>", where="where A: PartialEq"))
    nodef = [t for t in ALL if t != "Default"]  # `[u8; N]: Default` does not hold for a generic N (the std derive fails in the same way)
    out.append(S("const-param", "named", [("arr", "[u8; N]"), ("b", "bool")], generics_decl="<const N: usize>", generics_use="<2>", traits=nodef))
    out.append(S("const-param-default", "tuple", [(None, "[u8; N]")], generics_decl="<const N: usize = 2>", generics_use="<2>", traits=nodef))
    kinds = [("unit", []), ("tuple", [(None, "u8")]), ("tuple", [(None, "i8"), (None, "bool")]), ("named", [("a", "u8")]), ("named", [("a", "u16"), ("b", "i8")])]
    E = lambda sid, vs, **kw: Sh(sid, "enum", vs, **kw)
    out.append(E("enum-empty", [], traits=["Clone", "Debug", "PartialEq", "Eq", "PartialOrd", "Ord", "Hash"]))
    out.append(E("enum-one-unit", [("A", "unit", [])], default_variant=0))
    out.append(E("enum-units3", [("A", "unit", []), ("B", "unit", []), ("C", "unit", [])], default_variant=1))
    out.append(E("enum-mixed", [("A", "unit", []), ("B", "tuple", [(None, "u8"), (None, "i8")]), ("C", "named", [("a", "u8"), ("b", "bool")])], default_variant=0))
    out.append(E("enum-raw-variant", [("r#Box", "tuple", [(None, "u8")]), ("r#Vec", "unit", [])], default_variant=1))
    out.append(E("enum-generic", [("A", "tuple", [(None, "A")]), ("B", "named", [("a", "A"), ("b", "u8")]), ("U", "unit", [])], generics_decl="<A>", generics_use="<u8>", default_variant=2))
    n = 40 if tier == "thorough" else 6
    for k in range(n):
        nv = rnd.randrange(1, 6)
        vs = []
        for i in range(nv):
            vk, fs = rnd.choice(kinds)
            vs.append(("V%d" % i, vk, fs))
        units = [i for i, v in enumerate(vs) if v[1] == "unit"]
        out.append(E("enum-rand-" + "-".join("%s%d" % (v[1][0], len(v[2])) for v in vs), vs, default_variant=units[0] if units else None,
                     traits=ALL if units else [t for t in ALL if t != "Default"]))
    return out


def run(tier):
    t0 = time.time()
    rnd = random.Random(common.seed())
    progs, seen = [], set()
    shs = shapes(tier, rnd)
    debug_ids = {"unit", "named2", "tuple2", "enum-mixed", "raw-ident-fields", "enum-raw-variant", "raw-ident-type", "type-param"} if tier != "thorough" else None
    for sh in shs:
        for flavour in ("values", "debug"):
            if flavour == "debug" and ("Debug" not in sh.traits or (debug_ids is not None and sh.sid not in debug_ids)):
                continue
            if flavour == "debug" and sh.sid == "enum-empty":
                continue
            p = build("p%05d" % len(progs), sh, flavour)
            if p is None or p.sig in seen:
                continue
            seen.add(p.sig)
            progs.append(p)
    for kind in ("named", "tuple"):
        for flavour in ("values", "debug"):
            progs.append(build_unsized("p%05d" % len(progs), kind, flavour))
    return e1.finish(
        PID, tier, progs, t0,
        rule="one Kani harness per (type shape, flavour): the type is written twice, derive_ex and std derive; all field values and variant selectors of two (three) values symbolic; "
             "Clone/clone_from/Default/==/!=/partial_cmp/</>=/cmp must agree with the twin for all values, == must imply equal Hash feeds, and in the debug flavour `{:?}` must print the same bytes",
        bounds="unit/tuple/named structs with 0..4 fields, enums with 0..5 variants of mixed kinds, lifetime / type / const parameters with defaults and where-clauses (instantiated concretely), "
               "an unsized last field (`A: ?Sized` instantiated with a slice) for Debug and the comparison / Hash traits, raw identifiers for fields, variants and the type, "
               "repr(C) / non_exhaustive / doc attributes; field types u8,i8,bool,u16,(u8,i8),Po,F,&'a u8,[u8;N],PhantomData",
        outside="`the program compiles` is rustc's verdict (reported, not solver-decided); unsized last fields other than a slice behind a generic parameter (`str`, `dyn Trait`); explicit discriminants; `{:#?}`; recursive types",
        functions=["every method of the Clone, Default, PartialEq, PartialOrd, Ord, Hash, Debug impls generated by derive_ex"],
        harness_timeout="900s", batch=80)
