"""C01 — derived ==, partial_cmp, cmp follow the documented lexicographic rule (engine E1)."""
import itertools
import random
import time

from . import common, kani_runner, gen_cmp, e3_extras
from .common import log
from .gen_cmp import Field, TypeSpec, Variant, entry_attrs, place, candidate_desc, pos_class, accepted, sig_of

PID = "C01"
ORD_TRAITS = ["Ord", "PartialOrd", "Eq", "PartialEq"]
ORD_TRAITS_ALL = ["Ord", "PartialOrd", "Eq", "PartialEq"]

HEADER = """// {pid} program {name}: {desc}
use crate::support::*;
use core::cmp::Ordering;
use core::hash::{{Hash, Hasher}};
#[allow(unused_imports)]
use derive_ex::{{derive_ex, Ex}};

"""


def effective(t, trait):
    return any((not gen_cmp.ignored(f, trait)) and "PhantomData" not in f.ty for _, f in t.all_fields())


def build_program(name, t, traits, entry, desc, sig, pid=PID):
    src = HEADER.format(pid=pid, name=name, desc=desc)
    src += t.item_text(entry_attrs(entry, traits)) + "\n\n"
    src += gen_cmp.manual_impls(t, traits) + "\n\n"
    need = set(traits)
    if "Ord" in need:
        need |= {"PartialOrd", "PartialEq"}
    if "PartialOrd" in need or "Eq" in need:
        need |= {"PartialEq"}
    src += gen_cmp.oracle_fns(t, traits=tuple(x for x in ("PartialEq", "PartialOrd", "Ord") if x in need)) + "\n"
    src += t.mk_fn() + "\n"
    multi = t.kind == "enum" and len(t.variants) >= 2
    body = ["    let x = mk(s);", "    let y = mk(s);"]
    if "PartialEq" in traits:
        body.append("    let r_eq = ref_eq(&x, &y);")
        body.append('    cover!(r_eq, "eq-true");')
        if multi or effective(t, "PartialEq"):
            body.append('    cover!(!r_eq, "eq-false");')
        body.append('    assert!((x == y) == r_eq, "eq");')
        # the very same object on both sides: a field that is not equal to itself keeps the value unequal to itself
        body.append('    assert!((x == x) == ref_eq(&x, &x), "eq-same-object");')
        body.append('    assert!((x != y) == !r_eq, "ne");')
    if "PartialOrd" in traits:
        body.append("    let r_pc = ref_pcmp(&x, &y);")
        body.append('    cover!(r_pc == Some(Ordering::Equal), "pcmp-equal");')
        if multi or effective(t, "PartialOrd"):
            body.append('    cover!(r_pc == Some(Ordering::Less), "pcmp-less");')
            body.append('    cover!(r_pc == Some(Ordering::Greater), "pcmp-greater");')
        body.append('    assert!(x.partial_cmp(&y) == r_pc, "partial_cmp");')
        body.append('    assert!(x.partial_cmp(&x) == ref_pcmp(&x, &x), "partial_cmp-same-object");')
    if "Ord" in traits:
        body.append("    let r_c = ref_cmp(&x, &y);")
        body.append('    cover!(r_c == Ordering::Equal, "cmp-equal");')
        if multi or effective(t, "Ord"):
            body.append('    cover!(r_c == Ordering::Less, "cmp-less");')
            body.append('    cover!(r_c == Ordering::Greater, "cmp-greater");')
        body.append('    assert!(x.cmp(&y) == r_c, "cmp");')
    src += "pub fn check<S: Src>(s: &mut S) {\n%s\n}\n\n" % "\n".join(body)
    src += "#[cfg(kani)]\n#[kani::proof]\npub fn h() {\n    check(&mut KaniSrc)\n}\n"
    nontrivial = sum(len(v.fields) for v in t.variants) >= 2 or any(f.attrs for _, f in t.all_fields())
    return kani_runner.Program(name, src, sig, desc, nontrivial)


def all_candidates():
    """the bounded grammar of C01 (thorough tier enumerates it completely)"""
    shapes = ["s_named3", "s_named1", "s_tuple2", "s_named4", "s_gen", "e_mixed", "e_two", "e_single", "e_gen"]
    subsets = []
    for k in range(1, 5):
        for c in itertools.combinations(ORD_TRAITS, k):
            subsets.append(list(c))
    single = [(a, o) for a in ["ord", "partial_ord", "eq", "partial_eq"] for o in gen_cmp.attr_options(a)]
    out = []
    # no attributes: every shape (incl. unit-like ones), every subset, both entries
    for sh in shapes + ["s_unit", "e_units3", "s_po", "s_nr", "e_nr", "e_data_unit", "e_disc3", "e_disc_data"]:
        for ts in subsets:
            if sh in ("s_po", "s_nr", "e_nr") and ({"Eq", "Ord"} & set(ts)):
                continue
            for en in ("attr", "derive"):
                out.append((sh, [], ts, en))
    # one attributed field at every position
    for sh in shapes:
        t = gen_cmp.shapes()[sh]()
        n = len(list(t.all_fields()))
        for idx in range(n):
            for (a, o) in single:
                for ts in subsets:
                    for en in ("attr", "derive"):
                        out.append((sh, [(idx, a, o)], ts, en))
    # two attributes of different kinds on one field (precedence)
    for sh, idx in (("s_named3", 1), ("e_mixed", 2)):
        for (a1, o1), (a2, o2) in itertools.combinations(single, 2):
            if a1 == a2:
                continue
            for ts in subsets:
                for en in ("attr", "derive"):
                    out.append((sh, [(idx, a1, o1), (idx, a2, o2)], ts, en))
    # partially ordered field type with partial_ord attributes
    for (a, o) in single:
        if a in ("partial_ord", "partial_eq"):
            for ts in (["PartialOrd", "PartialEq"], ["PartialEq"]):
                out.append(("s_po", [(0, a, o)], ts, "attr"))
    # two attributed fields: every pair of single placements on the first and the last field of two shapes
    for sh, i, j in (("s_named3", 0, 2), ("e_mixed", 2, 3)):
        for (a1, o1) in single:
            for (a2, o2) in single:
                out.append((sh, [(i, a1, o1), (j, a2, o2)], ORD_TRAITS_ALL, "attr"))
    return out


def core_candidates():
    out = []
    all4 = ["Ord", "PartialOrd", "Eq", "PartialEq"]
    for sh in ["s_named3", "s_named1", "s_tuple2", "s_named4", "s_gen", "e_mixed", "e_two", "e_single", "e_gen", "s_unit", "e_units3", "e_data_unit", "e_disc3", "e_disc_data"]:
        out.append((sh, [], all4, "attr"))
        out.append((sh, [], ["PartialEq", "PartialOrd"], "derive"))
    out.append(("s_po", [], ["PartialOrd", "PartialEq"], "attr"))
    out.append(("s_wo", [], ["Ord", "PartialOrd", "Eq", "PartialEq"], "attr"))
    out.append(("s_wo", [], ["Ord", "PartialOrd", "Eq", "PartialEq"], "derive"))
    for sh in ("s_nr", "e_nr"):
        out.append((sh, [], ["PartialOrd", "PartialEq"], "attr"))
        out.append((sh, [], ["PartialEq"], "derive"))
    single = [(a, o) for a in ["ord", "partial_ord", "eq", "partial_eq"] for o in gen_cmp.attr_options(a)]
    for sh, idx in (("s_named3", 1), ("e_mixed", 2), ("s_named3", 0)):
        for (a, o) in single:
            out.append((sh, [(idx, a, o)], all4, "attr"))
    # the attribute is documented to affect traits that are derived without their usual companions
    for ts in (["PartialOrd", "PartialEq"], ["PartialEq"], ["PartialEq", "Eq"]):
        for o in (("key",), ("by",), ("ignore",), ("reverse", "key")):
            for en in ("attr", "derive"):
                out.append(("s_named3", [(1, "ord", o)], ts, en))
                out.append(("e_mixed", [(2, "ord", o)], ts, en))
    for o in (("key",), ("ignore",)):
        for en in ("attr", "derive"):
            out.append(("s_named3", [(1, "eq", o)], ["PartialEq"], en))
            out.append(("s_named3", [(1, "partial_ord", o)], ["PartialEq"], en))
    # precedence pairs
    pairs = [(("partial_eq", ("key",)), ("eq", ("key",))), (("eq", ("key",)), ("partial_ord", ("key",))),
             (("partial_ord", ("key",)), ("ord", ("key",))), (("partial_eq", ("by",)), ("ord", ("key",))),
             (("partial_ord", ("by",)), ("ord", ("by",))), (("partial_ord", ("reverse", "key")), ("ord", ("key",))),
             (("eq", ("by",)), ("ord", ("reverse", "by"))), (("partial_eq", ("key",)), ("partial_ord", ("key",))),
             (("partial_ord", ("key",)), ("ord", ("reverse", "key"))), (("eq", ("key",)), ("ord", ("by",)))]
    for (a1, o1), (a2, o2) in pairs:
        for sh, idx in (("s_named3", 1), ("e_mixed", 2)):
            out.append((sh, [(idx, a1, o1), (idx, a2, o2)], all4, "attr"))
            out.append((sh, [(idx, a1, o1), (idx, a2, o2)], ["PartialOrd", "PartialEq"], "derive"))
    for (a, o) in single:
        if a in ("partial_ord", "partial_eq"):
            out.append(("s_po", [(0, a, o)], ["PartialOrd", "PartialEq"], "attr"))
    # two attributed fields (tie-breaking after a custom comparator, independence of the per-field decisions)
    two = [((0, "ord", ("key",)), (2, "ord", ("reverse",))), ((0, "ord", ("ignore",)), (2, "partial_ord", ("by",))), ((1, "eq", ("key",)), (2, "ord", ("reverse", "key"))),
           ((0, "partial_eq", ("by",)), (1, "ord", ("by",))), ((0, "ord", ("reverse", "by")), (1, "ord", ("ignore",))), ((1, "partial_ord", ("reverse",)), (2, "partial_ord", ("key",)))]
    for a, b in two:
        out.append(("s_named3", [a, b], all4, "attr"))
        out.append(("s_named3", [a, b], ["PartialOrd", "PartialEq"], "derive"))
    for a, b in two[:3]:
        out.append(("e_mixed", [(a[0] + 1, a[1], a[2]), (b[0] + 1, b[1], b[2])], all4, "attr"))
    # the `$` placeholder at top level, inside (), {} and [] groups, and used twice
    for ks in range(1, len(gen_cmp.KEY_STYLES)):
        for sh, idx in (("s_named3", 1), ("e_mixed", 2), ("s_tuple2", 0), ("e_mixed", 3)):
            out.append((sh, [(idx, "ord", ("key",), ks)], all4, "attr"))
        out.append(("s_named3", [(0, "partial_ord", ("reverse", "key"), ks), (0, "eq", ("key",), ks)], ["PartialOrd", "PartialEq"], "derive"))
    return out


def run(tier):
    t0 = time.time()
    out = common.Outcome(PID)
    rnd = random.Random(common.seed())
    if tier == "thorough":
        cands = all_candidates()
    else:
        cands = core_candidates()
        pool = all_candidates()
        sample = rnd.sample(pool, 160)
        for c in sample:
            # vary the spelling of key expressions in the sampled part
            pl = [tuple(p) + ((rnd.randrange(len(gen_cmp.KEY_STYLES)),) if "key" in p[2] else ()) for p in c[1]]
            cands.append((c[0], pl, c[2], c[3]))
        # seeded multi-field placements: two single placements of the same shape on different fields
        singles = [c for c in pool if len(c[1]) == 1]
        for _ in range(40):
            a, b = rnd.choice(singles), rnd.choice(singles)
            if a[0] == b[0] and a[1][0][0] != b[1][0][0]:
                cands.append((a[0], [a[1][0], b[1][0]], a[2], a[3]))
    # dedupe
    seen, uniq = set(), []
    for c in cands:
        k = candidate_desc(*c)
        if k not in seen:
            seen.add(k)
            uniq.append(c)
    mism = []
    acc, rejected, leftover = accepted(uniq, mism)
    log("[C01] %d candidates, %d accepted by the macro, %d rejected, %d with unconsumed helper attribute" % (
        len(uniq), len(acc), rejected, leftover))
    programs = []
    for i, (cand, t) in enumerate(acc):
        programs.append(build_program("p%05d" % i, t, cand[2], cand[3], candidate_desc(*cand), sig_of(cand)))
    gen_cmp.report_mismatches(PID, mism, out)
    e3x = e3_extras.summary(e3_extras.safe(e3_extras.c01_selection, out))
    stats = run_batches(programs)
    counts = kani_runner.triage(PID, programs, out)
    wall = time.time() - t0
    ok = [p for p in programs if p.result and p.result.status == "success"]
    samples = [{"program": p.desc, "source": p.src} for p in ok[:1]] + [{"program": p.desc} for p in ok[1:6]]
    cov = {
        "evaluations": len(programs),
        "distinct_nontrivial": len({p.sig for p in ok if p.nontrivial}),
        "rule": "one Kani harness per generated program (type shape x helper-attribute placement x derived subset x entry point); "
                "each harness decides the assertions for ALL pairs of values of the type; a program is non-trivial if it has >= 2 fields "
                "or a helper attribute, and distinct by its role signature (shape|placement class|traits|entry)",
        "samples": samples,
        "exhaustive": tier == "thorough",
        "harnesses": len(programs),
        "harness_results": counts,
        "candidates": len(uniq), "rejected_by_macro": rejected, "unconsumed_helper_attribute": leftover,
        "functions_encoded": ["PartialEq::eq / ne", "PartialOrd::partial_cmp", "Ord::cmp generated by derive_ex for each program"],
        "bounds": "grammar: shapes %s; <=4 fields, <=3 variants; one attributed field (every position), two attributes of different kinds on one field, or two attributed fields; "
                  "field types u8,i8,bool,u16,Po,generic A:=u8; no loops in harnesses (unwinding assertions on)" % sorted(gen_cmp.shapes()),
        "outside_bounds": "more than two attributed fields (two: a fixed set + seeded pairs in quick, all pairs on first/last field of two shapes in thorough); `by` on a field of generic type (rustc rejects the nested fn, C20); field types outside the pool",
        "solver": "CBMC 6.11.0 via Kani 0.68.0 (cadical)", "solver_time_s": round(stats["solver_time_s"], 2),
        "kani_wall_s": round(stats["kani_wall_s"], 2), "queries_discharged": counts.get("success", 0),
    }
    cov.update(e3x)
    common.write_evidence(PID, tier, cov, ASSUMPTIONS, wall, len(out.violations))
    return out.finish()


ASSUMPTIONS = [
    "rustc MIR -> Kani goto translation and CBMC are sound",
    "the reference oracle generated from doc/derive_ex.md (DESIGN.md Appendix A) is the documented rule",
    "acceptance of a placement is read from the real macro (native in-process expansion); the refused set is checked by C05",
    "stubs: none; assumptions: variant selector < number of variants",
]


def run_batches(programs, batch=400):
    stats = {"solver_time_s": 0.0, "kani_wall_s": 0.0, "build_rounds": 0}
    for i in range(0, len(programs), batch):
        chunk = programs[i:i + batch]
        s = kani_runner.run_kani(chunk)
        for k in stats:
            stats[k] += s[k]
        log("[E1] batch %d..%d done in %.1fs" % (i, i + len(chunk), s["kani_wall_s"]))
    return stats
