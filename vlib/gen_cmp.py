"""Program model + reference oracles for the comparison family (C01, C02, C06, C12, C13, C15).

The oracle is written from doc/derive_ex.md (DESIGN.md Appendix A), never from the macro's code.
"""
import itertools
import random

from . import common as _common

CMP_ATTRS = ["ord", "partial_ord", "eq", "partial_eq", "hash"]
KEY_N = {"ord": 1, "partial_ord": 2, "eq": 3, "partial_eq": 4, "hash": 5}
TRAITS = ["Ord", "PartialOrd", "Eq", "PartialEq", "Hash"]

# doc table: which helper attribute affects which trait (A.1)
AFFECTS = {
    "ord": {"Ord", "PartialOrd", "Eq", "PartialEq", "Hash"},
    "partial_ord": {"PartialOrd", "PartialEq"},
    "eq": {"Eq", "PartialEq", "Hash"},
    "partial_eq": {"Eq", "PartialEq"},
    "hash": {"Hash"},
}
# comparator precedence (A.2): most specific first
PREC = {
    "PartialEq": ["partial_eq", "eq", "partial_ord", "ord"],
    "PartialOrd": ["partial_ord", "ord"],
    "Ord": ["ord"],
    "Eq": ["eq", "ord"],
    "Hash": ["hash", "eq", "ord"],
}
# ignore (A.3)
IGNORE_SRC = {
    "Ord": ["ord"],
    "PartialOrd": ["partial_ord", "ord"],
    "Eq": ["eq", "ord"],
    "PartialEq": ["partial_eq", "eq", "partial_ord", "ord"],
    "Hash": ["hash", "eq", "ord"],
}


# the same key written with `$` at top level, inside (), {} and [] groups, and twice
KEY_STYLES = ["kk::<%(n)d, _>(&$)", "$.p() >> %(n)d", "(kk::<%(n)d, _>(&$), kk::<%(n)d, _>(&$)).1", "{ let t = &$; kk::<%(n)d, _>(t) }",
              "[kk::<%(n)d, _>(&$), 0][0]", "kk::<%(n)d, _>(&$) | ($.p() >> %(n)d)"]


class Field:
    def __init__(self, name, ty, attrs=None, vis=""):
        self.name = name  # None for tuple fields
        self.ty = ty
        self.attrs = attrs or {}  # attr name -> set of {'ignore','reverse','key','by'}
        self.extra_attrs = []  # raw attribute strings (e.g. bound(..))
        self.consistent = False  # C02: every key/by callback expresses one and the same key (N = 1, total)
        self.key_style = 0  # how the key expression uses the `$` placeholder (all styles compute kk::<N>(field))

    def has(self, attr, arg):
        return arg in self.attrs.get(attr, ())

    def attr_text(self, conc_ty):
        out = []
        for a in CMP_ATTRS:
            if a in self.attrs:
                args = []
                s = self.attrs[a]
                n = 1 if self.consistent else KEY_N[a]
                if "ignore" in s:
                    args.append("ignore")
                if "reverse" in s:
                    args.append("reverse")
                if "key" in s:
                    args.append("key = " + KEY_STYLES[self.key_style % len(KEY_STYLES)] % {"n": n})
                if "by" in s:
                    fn = {"ord": "by_ord", "partial_ord": "by_po_total" if self.consistent else "by_po", "eq": "by_eq", "partial_eq": "by_eq",
                          "hash": "by_hash"}[a]
                    if a == "hash":
                        args.append("by = by_hash::<%d, %s, _>" % (n, conc_ty))
                    else:
                        args.append("by = %s::<%d, %s>" % (fn, n, conc_ty))
                out.append("#[%s(%s)]" % (a, ", ".join(args)))
        return out + self.extra_attrs


class Variant:
    def __init__(self, name, kind, fields):
        self.name = name
        self.kind = kind  # unit | tuple | named
        self.fields = fields
        self.extra_attrs = []
        self.disc = None  # explicit discriminant (`A = 3`); the documented order is the declaration position all the same


class TypeSpec:
    def __init__(self, kind, variants, generics=None, name="T", shape=""):
        self.kind = kind  # struct | enum
        self.variants = variants  # for struct: one Variant holding the fields
        self.generics = generics or []  # list of (param, concrete type)
        self.name = name
        self.shape = shape
        self.extra_attrs = []

    # ---- rendering -------------------------------------------------------------------------
    def conc(self, ty):
        for g, c in self.generics:
            g = g.split(":")[0].strip()
            ty = ty.replace("<%s>" % g, "<%s>" % c) if ty != g else c
        return ty

    def ty_use(self):
        if self.generics:
            return "%s<%s>" % (self.name, ", ".join(c for _, c in self.generics))
        return self.name

    def decl_generics(self):
        if self.generics:
            return "<%s>" % ", ".join(g for g, _ in self.generics)
        return ""

    def fields_text(self, v, indent="    "):
        if v.kind == "unit":
            return ""
        parts = []
        for f in v.fields:
            at = " ".join(f.attr_text(self.conc(f.ty)))
            if v.kind == "named":
                parts.append("%s%s %s: %s," % (indent, at, f.name, f.ty))
            else:
                parts.append("%s%s %s," % (indent, at, f.ty))
        if v.kind == "named":
            return " {\n" + "\n".join(parts) + "\n" + indent[:-4] + "}"
        return "(\n" + "\n".join(parts) + "\n" + indent[:-4] + ")"

    def item_text(self, pre_attrs=()):
        """the item as the user writes it (without derive_ex list attributes unless given in pre_attrs)"""
        head = "".join(a + "\n" for a in list(pre_attrs) + self.extra_attrs)
        if self.kind == "struct":
            v = self.variants[0]
            body = self.fields_text(v)
            semi = ";" if v.kind in ("unit", "tuple") else ""
            return "%spub struct %s%s%s%s" % (head, self.name, self.decl_generics(), body, semi)
        vs = []
        for v in self.variants:
            at = "".join("    %s\n" % a for a in v.extra_attrs)
            vs.append("%s    %s%s%s," % (at, v.name, self.fields_text(v, indent="        "), " = %s" % v.disc if v.disc is not None else ""))
        return "%spub enum %s%s {\n%s\n}" % (head, self.name, self.decl_generics(), "\n".join(vs))

    def all_fields(self):
        for v in self.variants:
            for f in v.fields:
                yield v, f

    # ---- value construction ----------------------------------------------------------------
    def mk_fn(self):
        tu = self.ty_use()
        if self.kind == "struct":
            v = self.variants[0]
            return "pub fn mk<S: Src>(s: &mut S) -> %s {\n    %s\n}\n" % (tu, self.ctor(v, self.name))
        arms = []
        for i, v in enumerate(self.variants):
            arms.append("        %d => %s," % (i, self.ctor(v, "%s::%s" % (self.name, v.name))))
        if not self.variants:
            return "pub fn mk<S: Src>(s: &mut S) -> %s { loop { vassume(false); } }\n" % tu
        return "pub fn mk<S: Src>(s: &mut S) -> %s {\n    match s.below(%d) {\n%s\n        _ => loop { vassume(false); },\n    }\n}\n" % (
            tu, len(self.variants), "\n".join(arms))

    def ctor(self, v, path):
        if v.kind == "unit":
            return path
        if v.kind == "named":
            return "%s { %s }" % (path, ", ".join("%s: Gen::gen(s)" % f.name for f in v.fields))
        return "%s(%s)" % (path, ", ".join("Gen::gen(s)" for f in v.fields))

    def pat(self, v, prefix):
        path = self.name if self.kind == "struct" else "%s::%s" % (self.name, v.name)
        if v.kind == "unit":
            return path
        names = ["%s%d" % (prefix, i) for i in range(len(v.fields))]
        if v.kind == "named":
            return "%s { %s }" % (path, ", ".join("%s: %s" % (f.name, n) for f, n in zip(v.fields, names)))
        return "%s(%s)" % (path, ", ".join(names))

    def idx_fn(self):
        tu = self.ty_use()
        if self.kind == "struct" or not self.variants:
            return "fn vidx(_x: &%s) -> usize { 0 }\n" % tu
        arms = []
        for i, v in enumerate(self.variants):
            w = {"unit": "", "tuple": "(..)", "named": " { .. }"}[v.kind]
            arms.append("        %s::%s%s => %d," % (self.name, v.name, w, i))
        return "fn vidx(x: &%s) -> usize {\n    match x {\n%s\n    }\n}\n" % (tu, "\n".join(arms))


# ---------------------------------------------------------------------------------------------
# reference semantics (Appendix A)
# ---------------------------------------------------------------------------------------------
def ignored(f, trait):
    return any(f.has(a, "ignore") for a in IGNORE_SRC[trait])


def comparator(f, trait):
    """-> (attr, 'by'|'key') or None for the field's own impl"""
    for a in PREC[trait]:
        if trait == "Hash" and a != "hash":
            if f.has(a, "key"):
                return (a, "key")
            continue
        if f.has(a, "by"):
            return (a, "by")
        if f.has(a, "key"):
            return (a, "key")
    return None


def reversed_(f, trait):
    if trait == "PartialOrd":
        return f.has("partial_ord", "reverse") or f.has("ord", "reverse")
    if trait == "Ord":
        return f.has("ord", "reverse")
    return False


def ref_rejects(f, trait):
    """A.4: should deriving `trait` be rejected because of this field's attributes?"""
    if ignored(f, trait):
        return False
    if trait in ("Ord", "PartialOrd", "Eq"):
        if any(f.has(a, "ignore") for a in ["ord", "partial_ord", "eq", "partial_eq"]):
            return True
    if trait == "Hash":
        if f.has("partial_eq", "ignore") or f.has("partial_ord", "ignore"):
            return True
    if comparator(f, trait) is None:
        if any(f.has(a, "by") or f.has(a, "key") for a in CMP_ATTRS):
            return True
    if trait == "Ord" and f.has("partial_ord", "reverse"):
        return True
    return False


def field_expr(f, trait, xa, xb, cty):
    """Rust expression of the reference comparison of one field for `trait`"""
    c = comparator(f, trait)
    if trait == "PartialEq":
        if c is None:
            e = "(%s == %s)" % (xa, xb)
        else:
            a, how = c
            n = KEY_N[a]
            if how == "key":
                e = "(kk::<%d, _>(&%s) == kk::<%d, _>(&%s))" % (n, xa, n, xb)
            elif a in ("partial_eq", "eq"):
                e = "by_eq::<%d, %s>(&%s, &%s)" % (n, cty, xa, xb)
            elif a == "partial_ord":
                e = "(by_po::<%d, %s>(&%s, &%s) == Some(Ordering::Equal))" % (n, cty, xa, xb)
            else:
                e = "(by_ord::<%d, %s>(&%s, &%s) == Ordering::Equal)" % (n, cty, xa, xb)
        return e
    if trait == "PartialOrd":
        if c is None:
            e = "PartialOrd::partial_cmp(&%s, &%s)" % (xa, xb)
        else:
            a, how = c
            n = KEY_N[a]
            if how == "key":
                e = "PartialOrd::partial_cmp(&kk::<%d, _>(&%s), &kk::<%d, _>(&%s))" % (n, xa, n, xb)
            elif a == "partial_ord":
                e = "by_po::<%d, %s>(&%s, &%s)" % (n, cty, xa, xb)
            else:
                e = "Some(by_ord::<%d, %s>(&%s, &%s))" % (n, cty, xa, xb)
        if reversed_(f, trait):
            e = "(%s).map(Ordering::reverse)" % e
        return e
    if trait == "Ord":
        if c is None:
            e = "Ord::cmp(&%s, &%s)" % (xa, xb)
        else:
            a, how = c
            n = KEY_N[a]
            if how == "key":
                e = "Ord::cmp(&kk::<%d, _>(&%s), &kk::<%d, _>(&%s))" % (n, xa, n, xb)
            else:
                e = "by_ord::<%d, %s>(&%s, &%s)" % (n, cty, xa, xb)
        if reversed_(f, trait):
            e = "(%s).reverse()" % e
        return e
    raise ValueError(trait)


def hash_stmt(f, xa, cty):
    c = comparator(f, "Hash")
    if c is None:
        return "Hash::hash(&%s, h);" % xa
    a, how = c
    n = KEY_N[a]
    if how == "by":
        return "by_hash::<%d, %s, _>(&%s, h);" % (n, cty, xa)
    return "Hash::hash(&kk::<%d, _>(&%s), h);" % (n, xa)


def oracle_fns(t, traits=("PartialEq", "PartialOrd", "Ord", "Hash")):
    """Rust source of ref_eq / ref_pcmp / ref_cmp / ref_hash for TypeSpec t."""
    tu = t.ty_use()
    out = [t.idx_fn()]

    def per_variant(trait, v):
        lines = []
        for i, f in enumerate(v.fields):
            if ignored(f, trait):
                continue
            e = field_expr(f, trait, "(*a%d)" % i, "(*b%d)" % i, t.conc(f.ty))
            if trait == "PartialEq":
                lines.append("            if !%s { return false; }" % e)
            elif trait == "PartialOrd":
                lines.append("            let c = %s; if c != Some(Ordering::Equal) { return c; }" % e)
            else:
                lines.append("            let c = %s; if c != Ordering::Equal { return c; }" % e)
        return "\n".join(lines)

    sig = {"PartialEq": ("ref_eq", "bool", "true", "false"),
           "PartialOrd": ("ref_pcmp", "Option<Ordering>", "Some(Ordering::Equal)", "Some(vidx(x).cmp(&vidx(y)))"),
           "Ord": ("ref_cmp", "Ordering", "Ordering::Equal", "vidx(x).cmp(&vidx(y))")}
    for trait in ("PartialEq", "PartialOrd", "Ord"):
        if trait not in traits:
            continue
        name, ret, same, diff = sig[trait]
        arms = []
        for v in t.variants:
            arms.append("        (%s, %s) => {\n%s\n            %s\n        }" % (t.pat(v, "a"), t.pat(v, "b"), per_variant(trait, v), same))
        if t.kind == "enum":
            arms.append("        _ => %s," % diff)
        if not t.variants:
            body = "    match *x {}"
        else:
            body = "    match (x, y) {\n%s\n    }" % "\n".join(arms)
        out.append("#[allow(unreachable_code)]\npub fn %s(x: &%s, y: &%s) -> %s {\n%s\n}\n" % (name, tu, tu, ret, body))
    if "Hash" in traits:
        arms = []
        for v in t.variants:
            st = []
            for i, f in enumerate(v.fields):
                if ignored(f, "Hash"):
                    continue
                st.append("            " + hash_stmt(f, "(*a%d)" % i, t.conc(f.ty)))
            arms.append("        %s => {\n%s\n        }" % (t.pat(v, "a"), "\n".join(st)))
        body = "    match x {\n%s\n    }" % "\n".join(arms) if t.variants else "    match *x {}"
        out.append("/// reference feed of the fields (the variant discriminant prefix is handled by the caller)\npub fn ref_hash_fields<H: Hasher>(x: &%s, h: &mut H) {\n%s\n}\n" % (tu, body))
    return "\n".join(out)


# ---------------------------------------------------------------------------------------------
# shapes
# ---------------------------------------------------------------------------------------------
def S(kind, fields, shape, generics=None):
    return TypeSpec("struct", [Variant(None, kind, fields)], generics, shape=shape)


def shapes():
    """name -> constructor of a fresh TypeSpec (fresh because attrs get mutated)"""
    F = Field
    d = {
        # field and variant names are deliberately not in alphabetical order where several exist: declaration order is what the documentation orders by
        "s_named3": lambda: S("named", [F("z", "u8"), F("a", "i8"), F("m", "u8")], "s_named3"),
        "s_named1": lambda: S("named", [F("a", "u8")], "s_named1"),
        "s_named4": lambda: S("named", [F("a", "bool"), F("b", "u8"), F("c", "i8"), F("d", "u8")], "s_named4"),
        "s_tuple2": lambda: S("tuple", [F(None, "u8"), F(None, "u16")], "s_tuple2"),
        "s_unit": lambda: S("unit", [], "s_unit"),
        "s_gen": lambda: S("named", [F("a", "A"), F("b", "u8"), F("p", "core::marker::PhantomData<A>")], "s_gen", [("A: P", "u8")]),
        "e_mixed": lambda: TypeSpec("enum", [Variant("A", "unit", []), Variant("B", "tuple", [F(None, "u8"), F(None, "i8")]),
                                             Variant("C", "named", [F("y", "u8"), F("x", "u8")])], shape="e_mixed"),
        "e_data_unit": lambda: TypeSpec("enum", [Variant("Q", "tuple", [F(None, "u8")]), Variant("D", "unit", []), Variant("Z", "named", [F("a", "u8")]), Variant("A", "unit", [])],
                                         shape="e_data_unit"),
        "e_units3": lambda: TypeSpec("enum", [Variant("A", "unit", []), Variant("B", "unit", []), Variant("C", "unit", [])], shape="e_units3"),
        "e_two": lambda: TypeSpec("enum", [Variant("A", "tuple", [F(None, "u8"), F(None, "u8")]),
                                           Variant("B", "tuple", [F(None, "u8"), F(None, "u8")])], shape="e_two"),
        "e_single": lambda: TypeSpec("enum", [Variant("Only", "named", [F("b", "u8"), F("a", "i8")])], shape="e_single"),
        "e_gen": lambda: TypeSpec("enum", [Variant("A", "tuple", [F(None, "A")]), Variant("B", "named", [F("a", "A"), F("b", "u8")])],
                                  [("A: P", "u8")], shape="e_gen"),
        "s_po": lambda: S("named", [F("a", "Po"), F("b", "u8")], "s_po"),
        "s_wo": lambda: S("named", [F("a", "Wo"), F("b", "u8")], "s_wo"),
        "s_nr": lambda: S("named", [F("a", "u8"), F("b", "Nr"), F("c", "u8")], "s_nr"),
        "e_nr": lambda: TypeSpec("enum", [Variant("A", "tuple", [F(None, "Nr")]), Variant("B", "unit", [])], shape="e_nr"),
        # an explicit type-level bound() that stops the bound resolution (nothing is needed for these concrete fields): must not change what is hashed
        "s_hashbound": lambda: _with_attrs(S("named", [F("a", "u8"), F("b", "i8"), F("c", "u8")], "s_hashbound"), ["#[hash(bound())]"]),
        "e_hashbound": lambda: _with_attrs(TypeSpec("enum", [Variant("A", "unit", []), Variant("B", "tuple", [F(None, "u8"), F(None, "i8")])], shape="e_hashbound"), ["#[hash(bound())]"]),
        # field types that merely mention PhantomData / are zero-sized markers next to real data (no attribute is put on them: they have no key)
        "s_marker": lambda: S("named", [F("a", "u8"), F("m", "(u8, core::marker::PhantomData<u16>)"), F("o", "Option<core::marker::PhantomData<u8>>"), F("b", "u8")], "s_marker"),
        # explicit discriminants that disagree with the declaration order (the documentation orders by position)
        "e_disc3": lambda: _with_disc(TypeSpec("enum", [Variant("A", "unit", []), Variant("B", "unit", []), Variant("C", "unit", []), Variant("D", "unit", [])], shape="e_disc3"),
                                      [2, None, 0, None]),
        "e_disc_data": lambda: _with_disc(TypeSpec("enum", [Variant("A", "tuple", [F(None, "u8")]), Variant("B", "unit", []), Variant("C", "named", [F("a", "u8"), F("b", "i8")])],
                                                   shape="e_disc_data"), [1, None, 0], repr_="#[repr(u8)]"),
    }
    return d


def _with_attrs(t, attrs):
    t.extra_attrs += attrs
    return t


def _with_disc(t, discs, repr_=None):
    for v, d in zip(t.variants, discs):
        v.disc = d
    if repr_:
        t.extra_attrs.append(repr_)
    return t


def attr_options(attr):
    if attr in ("ord", "partial_ord"):
        return [("ignore",), ("reverse",), ("key",), ("by",), ("reverse", "key"), ("reverse", "by")]
    return [("ignore",), ("key",), ("by",)]


def supertrait_closed(ts):
    ts = set(ts)
    if "Ord" in ts and not {"Eq", "PartialOrd"} <= ts:
        return False
    if "PartialOrd" in ts and "PartialEq" not in ts:
        return False
    if "Eq" in ts and "PartialEq" not in ts:
        return False
    return True


def manual_impls(t, derived):
    """hand-written impls (from the oracle) of the supertraits that are not derived"""
    tu = t.ty_use()
    g = ""
    out = []
    need = set()
    if "Ord" in derived:
        need |= {"Eq", "PartialOrd", "PartialEq"}
    if "PartialOrd" in derived or "Eq" in derived:
        need |= {"PartialEq"}
    need -= set(derived)
    if "PartialEq" in need:
        out.append("impl PartialEq for %s { fn eq(&self, o: &Self) -> bool { ref_eq(self, o) } }" % tu)
    if "Eq" in need:
        out.append("impl Eq for %s {}" % tu)
    if "PartialOrd" in need:
        out.append("impl PartialOrd for %s { fn partial_cmp(&self, o: &Self) -> Option<Ordering> { ref_pcmp(self, o) } }" % tu)
    return "\n".join(out)


# ---------------------------------------------------------------------------------------------
# candidate handling shared by the comparison-family checks
# ---------------------------------------------------------------------------------------------
def entry_attrs(entry, traits):
    lst = ", ".join(traits)
    if entry == "attr":
        return ["#[derive_ex(%s)]" % lst]
    return ["#[derive(Ex)]", "#[derive_ex(%s)]" % lst]


def place(shape_name, placements, traits=None):
    """placements: list of (field index over all fields, attr, args tuple). Returns TypeSpec or None"""
    t = shapes()[shape_name]()
    fields = [f for _, f in t.all_fields()]
    if t.generics and traits is not None and not supertrait_closed(traits):
        return None  # hand-written supertrait impls are only written for concrete types
    for pl in placements:
        idx, attr, args = pl[0], pl[1], pl[2]
        if idx >= len(fields):
            return None
        f = fields[idx]
        if len(pl) > 3:
            f.key_style = pl[3]
        if "PhantomData" in f.ty:
            return None
        if "by" in args and any(g.split(":")[0].strip() == f.ty for g, _ in t.generics):
            return None  # `by` on a field of generic type: rustc rejects the nested fn (property C20, not claimed)
        f.attrs.setdefault(attr, set()).update(args)
    return t


def candidate_desc(shape, placements, traits, entry):
    pl = ";".join("%s(%s)@%d%s" % (p[1], "+".join(p[2]), p[0], (" keystyle=%d" % p[3]) if len(p) > 3 and p[3] else "") for p in placements) or "-"
    return "shape=%s attrs=%s traits=%s entry=%s" % (shape, pl, "+".join(traits), entry)


def pos_class(shape, idx):
    t = shapes()[shape]()
    n = len(list(t.all_fields()))
    return "first" if idx == 0 else ("last" if idx == n - 1 else "middle")


def doc_verdict(t, traits, entry="attr"):
    """what the documentation says about this placement: -> ('accept' | 'reject' | 'unrecognised', detail)"""
    derived = set(traits)
    stray = [a for _, f in t.all_fields() for a in f.attrs if not (AFFECTS[a] & derived)]
    if stray and entry == "attr":
        return ("unrecognised", stray[0])  # the attribute belongs to no derived trait: not a helper attribute of this derive (rustc: unknown attribute)
    for tr in traits:
        for _, f in t.all_fields():
            # under #[derive(Ex)] an attribute that belongs to no derived trait is inert
            g = Field(f.name, f.ty, {a: v for a, v in f.attrs.items() if AFFECTS[a] & derived})
            if ref_rejects(g, tr):
                return ("reject", tr)
    return ("accept", None)


def accepted(cands, mismatches=None):
    """ask the real macro (R) which candidates it accepts; -> list of (cand, TypeSpec). Disagreements with the documented
    verdict (Appendix A.1 / A.4) are appended to `mismatches` as (cand, item text, attr text, doc verdict, what the macro did)."""
    reqs, specs = [], []
    for (sh, pl, ts, en) in cands:
        t = place(sh, pl, ts)
        if t is None:
            continue
        if en == "attr":
            reqs.append(("attr", ", ".join(ts), t.item_text()))
        else:
            reqs.append(("derive", "", t.item_text(["#[derive_ex(%s)]" % ", ".join(ts)])))
        specs.append(((sh, pl, ts, en), t))
    res = _common.expand_many(reqs)
    out, rejected, leftover = [], 0, 0
    for ((cand, t), r), rq in zip(zip(specs, res), reqs):
        doc = doc_verdict(t, cand[2], cand[3])
        did = "accept"
        if "panic" in r or not r.get("parse_ok") or _common.compile_errors(r):
            did = "reject"
        elif cand[3] == "attr":
            item0 = r["items"][0].get("text", "") if r["items"] else ""
            if any(("# [%s" % a) in item0 or ("#[%s" % a) in item0 for a in CMP_ATTRS):
                did = "unrecognised"  # helper attribute not consumed: rustc would reject the program ("cannot find attribute")
        if mismatches is not None:
            expect = doc[0]
            if did != expect and not (did == "reject" and expect == "unrecognised"):
                mismatches.append((cand, rq, doc, did, (_common.compile_errors(r) or [""])[0][:200]))
        if did == "reject":
            rejected += 1
        elif did == "unrecognised":
            leftover += 1
        else:
            out.append((cand, t))
    return out, rejected, leftover


def report_mismatches(pid, mismatches, outcome, limit=6):
    """a placement the documentation allows but the macro refuses (or the reverse) silently changes which programs the solver sees: report it"""
    from . import e3, replay_e3
    seen = set()
    for cand, rq, doc, did, msg in mismatches:
        key = "acceptance|%s|doc=%s|macro=%s" % (sig_of(cand), doc[0], did)
        if key in seen or len(seen) >= limit:
            continue
        seen.add(key)
        case = {"property": pid, "kind": "reject", "mode": rq[0], "attr": rq[1], "item": rq[2], "expected_reject": doc[0] == "reject",
                "explain": "documentation verdict %s, macro %s (%s); verdict from the macro's own diagnostics, not from the solver" % (doc, did, msg)}
        obs = replay_e3.observe(case)
        path = e3.write_replay(pid, "acceptance%02d" % len(seen), case)
        if did == "unrecognised" or doc[0] == "unrecognised" or replay_e3.disagrees(case, obs):
            outcome.violation(key, path, "the macro %ss a placement for which the documentation says %s: %s %s | %s" % (
                did, doc[0], rq[1], " ".join(rq[2].split())[:300], msg))


def sig_of(cand):
    sh, pl, ts, en = cand
    p = ";".join("%s(%s)@%s%s" % (x[1], "+".join(x[2]), pos_class(sh, x[0]), (" ks%d" % x[3]) if len(x) > 3 and x[3] else "") for x in pl) or "-"
    return "%s|%s|%s|%s" % (sh, p, "+".join(ts), en)


