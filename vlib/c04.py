"""C04 — explicit bound(...) follows the documented nine-level priority (E3: MIR paths + z3).

Every builder is executed symbolically with `WhereClauseBuilder::push_bounds` / `push_bounds_for_field` as observation events; per
path one solver obligation states that the visited levels are exactly those of the documented resolution (vlib/mir/chain.py).
The same machinery, restricted to the field-type events, serves C03.
"""
import random
import re
import time

import z3

from . import common, e3
from .common import log
from . import probes
from .mir import engine as mir_engine, exec as mx, chain, cmpcfg
from .mir.cmpcfg import FieldAtoms, TRAITS, ATTRS

PID = "C04"
OPAQUE = {"ItemSourceKind::this_of", "ItemSourceKind::self_of", "ItemSourceKind::other_of", "Template::apply", "replace_tokens", "ref_elem", "FieldEntry::make_ident",
          "FieldEntry::member", "FieldEntry::span", "VariantEntry::make_pat", "VariantEntry::make_pat_with_self_path", "VariantEntry::make_pat_wildcard",
          "build_to_index_fn", "DeriveItemKind::to_path", "CompareOp::to_path", "build_ctor_args", "with_ref", "member", "expand_self",
          "WhereClauseBuilder::new", "WhereClauseBuilder::build", "GenericParamSet::contains_in_type",
          "ItemSource::generics", "ItemSource::ident"}
TRACE = {"WhereClauseBuilder::push_bounds", "WhereClauseBuilder::push_bounds_for_field"}
T = chain.T


def is_err(r):
    v = r.value
    return isinstance(v, mx.Agg) and v.name == "Result" and v.variant == "Err"


KIND_KEYS = {"Clone": "agg:DeriveItemKind::Clone()", "Copy": "agg:DeriveItemKind::Copy()", "Debug": "agg:DeriveItemKind::Debug()",
             "Default": "agg:DeriveItemKind::Default()", "Op": "sym:kind", "Deref": "sym:e.kind",
             "CompareOp": "agg:DeriveItemKind::CompareOp(agg:CompareOp::%(t)s())"}


def kind_key_of(ex, default):
    for name in ex.vars:
        m = re.search(r"\.items\.\{(.*?)\}\)$", name)
        if m:
            return m.group(1)
    return default


class Shape:
    def __init__(self, ex, kind, roots, nv, nf):
        self.ex, self.kind, self.roots, self.nv, self.nf = ex, kind, roots, nv, nf

    def lenvar(self, path):
        return self.ex.ivar("len(%s)" % path, 0, self.ex.slice_bound)

    def fields(self):
        """-> list of (variant index or None, variant base, field base, exists-condition)"""
        out = []
        if self.kind == "struct":
            lf = self.lenvar(self.roots["fields"])
            for i in range(self.nf):
                out.append((None, None, "%s.[%d]" % (self.roots["fields"], i), lf > i))
        else:
            lv = self.lenvar(self.roots["variants"])
            for v in range(self.nv):
                vb = "%s.[%d]" % (self.roots["variants"], v)
                lf = self.lenvar(vb + ".fields")
                for i in range(self.nf):
                    out.append((v, vb, "%s.fields.[%d]" % (vb, i), z3.And(lv > v, lf > i)))
        return out

    def variants(self):
        lv = self.lenvar(self.roots["variants"])
        return [(v, "%s.[%d]" % (self.roots["variants"], v), lv > v) for v in range(self.nv)]

    def pre(self):
        cs = []
        if self.kind == "struct":
            cs.append(self.lenvar(self.roots["fields"]) <= self.nf)
        else:
            cs.append(self.lenvar(self.roots["variants"]) <= self.nv)
            for v, vb, _ in self.variants():
                cs.append(self.lenvar(vb + ".fields") <= self.nf)
        return cs


def reference(ex, fam, trait, shape, kind_key, variant_level=True):
    """the documented resolution for one builder and one shape"""
    R = chain.Ref(ex)
    u = T()
    roots = shape.roots
    if fam in ("CompareOp", "Debug", "Default"):
        u = R.helper_chain(roots["hattrs"], fam, trait, u)
    u = R.entry_chain(roots["e"], u)
    if fam == "Deref":
        return R
    gate = T()
    if fam == "Default":
        d = roots["hattrs"] + ".default"
        gate = z3.Not(z3.And(R.present(d), R.present(d + ".<Some>.0.value")))
    tcount = None
    fields = shape.fields()
    if fam == "Debug":
        # transparent: only that field is used; otherwise every non-ignored field
        pass
    per_variant_u = {}
    if shape.kind == "enum" and fam == "Default":
        # only the selected variant is visited: the one carrying #[default], or the only variant of a single-variant enum
        vs = shape.variants()
        lv = shape.lenvar(roots["variants"])
        pres = [z3.And(ev, R.present(vb + ".hattrs.default")) for _, vb, ev in vs]
        count = z3.Sum([z3.If(p, 1, 0) for p in pres])
        for (v, vb, ev), p in zip(vs, pres):
            sel = z3.And(gate, z3.Or(z3.And(count == 1, p), z3.And(count == 0, lv == 1, v == 0) if v == 0 else z3.BoolVal(False)))
            uv = R.helper_chain(vb + ".hattrs", fam, trait, u, alive=sel)
            uv = R.items_chain(vb + ".hattrs", kind_key, uv, alive=sel)
            has_value = z3.And(R.present(vb + ".hattrs.default"), R.present(vb + ".hattrs.default.<Some>.0.value"))
            for (fv, fvb, fb, ex_) in fields:
                if fv != v:
                    continue
                emit_field(R, ex, fam, trait, fb, kind_key, uv, z3.And(ex_, sel, z3.Not(has_value)), T(), [])
        return R
    if shape.kind == "enum":
        for v, vb, ev in shape.variants():
            uv = u
            if fam in ("CompareOp", "Debug"):
                uv = R.helper_chain(vb + ".hattrs", fam, trait, uv, alive=ev)
            if fam != "Default" and variant_level:
                uv = R.items_chain(vb + ".hattrs", kind_key, uv, alive=ev)
            per_variant_u[v] = uv
            for (fv, fvb, fb, ex_) in fields:
                if fv != v:
                    continue
                emit_field(R, ex, fam, trait, fb, kind_key, uv, ex_, gate, [(b, e2) for (w, _, b, e2) in fields if w == v])
    else:
        for (fv, fvb, fb, ex_) in fields:
            emit_field(R, ex, fam, trait, fb, kind_key, u, ex_, gate, [(b, e2) for (_, _, b, e2) in fields])
    return R


def emit_field(R, ex, fam, trait, fb, kind_key, u, exists, gate, siblings):
    if fam == "CompareOp":
        R.cmp_field(fb, trait, kind_key, u, exists)
        return
    a = z3.And(exists, gate)
    used = T()
    if fam == "Debug":
        tr = lambda b: ex.ivar("disc(%s.hattrs.debug.transparent.span)" % b, 0, 1) == 1
        ig = ex.ivar("disc(%s.hattrs.debug.ignore.span)" % fb, 0, 1) == 1
        any_t = z3.Or([z3.And(e2, tr(b)) for b, e2 in siblings])
        # visited iff it is the transparent field, or there is no transparent field and it is not ignored
        a = z3.And(a, z3.Or(tr(fb), z3.And(z3.Not(any_t), z3.Not(ig))))
    if fam == "Default":
        d = fb + ".hattrs.default"
        used = z3.Not(z3.And(R.present(d), R.present(d + ".<Some>.0.value")))
    R.plain_field(fb, fam, kind_key, u, a, used=used, with_helper=fam in ("Debug", "Default"))


BUILDERS = [
    # (label, function, family, trait, shape kind, roots, extra pre / arg overrides)
    ("clone-struct", "build_clone_for_struct", "Clone", None, "struct", {"e": "e", "fields": "fields"}),
    ("clone-enum", "build_clone_for_enum", "Clone", None, "enum", {"e": "e", "variants": "variants"}),
    ("copy-struct", "build_copy_for_struct", "Copy", None, "struct", {"e": "e", "fields": "fields"}),
    ("copy-enum", "build_copy_for_enum", "Copy", None, "enum", {"e": "e", "variants": "variants"}),
    ("debug-struct", "build_debug_for_struct", "Debug", None, "struct", {"e": "e", "hattrs": "hattrs", "fields": "fields"}),
    ("debug-enum", "build_debug_for_enum", "Debug", None, "enum", {"e": "e", "hattrs": "hattrs", "variants": "variants"}),
    ("default-struct", "build_default_for_struct", "Default", None, "struct", {"e": "e", "hattrs": "hattrs", "fields": "fields"}),
    ("default-enum", "build_default_for_enum", "Default", None, "enum", {"e": "e", "hattrs": "hattrs", "variants": "variants"}),
    ("deref", "build_deref_for_struct", "Deref", None, "struct", {"e": "e", "fields": "fields"}),
    ("binary-op", "build_binary_op::{closure#0}", "Op", None, "struct", {"e": "e", "fields": "fields"}),
    ("assign-op", "build_assign_op::{closure#0}", "Op", None, "struct", {"e": "e", "fields": "fields"}),
    ("unary-op", "build_unary_op::{closure#0}", "Op", None, "struct", {"e": "e", "fields": "fields"}),
]
for _t in TRAITS:
    BUILDERS.append(("cmp-%s-struct" % _t, "build_compare_op", "CompareOp", _t, "struct", {"e": "e", "hattrs": "hattrs", "fields": "source.<Struct>.1"}))
    BUILDERS.append(("cmp-%s-enum" % _t, "build_compare_op", "CompareOp", _t, "enum", {"e": "e", "hattrs": "hattrs", "variants": "source.<Enum>.1"}))


def run_builder(eng, obl, out, spec, nv, nf, free_attrs=None, pid=PID, only_field_events=False, quiet_fields=False):
    label, fname, fam, trait, skind, roots = spec
    ex = eng.executor(slice_bound=max(nv, nf))
    fn = eng.find(fname)
    overrides = {}
    pre = []
    if fname.endswith("{closure#0}"):
        overrides[1] = mir_engine.closure_env(fn)
    if fname == "build_compare_op":
        overrides[1] = mx.Agg("adt", "CompareOp", trait, [])
        pre.append(ex.ivar("disc(source)", 0, 1) == (0 if skind == "struct" else 1))
    if fam == "Deref":
        pre.append(z3.Or(ex.ivar("disc(e.kind)", 0, 9) == 8, ex.ivar("disc(e.kind)", 0, 9) == 9))
    if fam == "Op":
        pre.append(ex.ivar("disc(kind)", 0, 9) == {"binary-op": 0, "assign-op": 1, "unary-op": 2}[label])
    shape = Shape(ex, skind, roots, nv, nf)
    pre += shape.pre()
    if "hattrs" in roots:
        # representation invariant of the type-level HelperAttributes: it is parsed with `kinds.without_derive_ex()`, so its `items` map is empty
        pre.append(ex.ivar("disc(%s.items.{%s})" % (roots["hattrs"], KIND_KEYS[fam] % {"t": trait}), 0, 1) == 0)
    if fam == "CompareOp" and free_attrs is not None:
        # only the listed helper attributes may carry ignore/reverse/by/key; everything about bound(..) stays free
        for (_, _, fb, _) in shape.fields():
            fa = FieldAtoms(ex, fb)
            for a in ATTRS:
                if a not in free_attrs:
                    pre += [z3.Not(fa.ignore(a)), z3.Not(fa.reverse(a)), z3.Not(fa.by(a)), z3.Not(fa.key(a))]
                else:
                    pre += [z3.Not(fa.reverse(a))]
    if quiet_fields:
        # variant scoping runs: the field placement carries no bound(..) of its own (all freedom is on the type and the variants)
        kk0 = KIND_KEYS[fam] % {"t": trait}
        for (_, _, fb, _) in shape.fields():
            pre.append(ex.ivar("disc(%s.hattrs.items.{%s})" % (fb, kk0), 0, 1) == 0)
            if fam == "CompareOp":
                for a in cmpcfg.PREC[trait]:
                    pre.append(ex.bvar("%s.hattrs.cmp.%s.bounds.default" % (fb, a)))
            elif fam == "Debug":
                pre.append(ex.bvar("%s.hattrs.debug.bounds.default" % fb))
    args = eng.args_for(fn, overrides=overrides)
    t0 = time.time()
    results = ex.run(fn, args, pre=pre)
    tag = "%s[%dx%d%s%s]" % (label, nv, nf, "" if free_attrs is None else " free=" + "+".join(sorted(free_attrs)), " quiet-fields" if quiet_fields else "")
    stuck = obl.note_paths(tag, results, ex)
    for r in stuck[:2]:
        out.inconclusive.append("fn=%s reason=%s" % (tag, r.value))
    kk = KIND_KEYS[fam] % {"t": trait}
    ref = reference(ex, fam, trait, shape, kk)
    if only_field_events:
        ref.levels = [(k, c) for k, c in ref.levels if k[0] == "field"]
    n_bad = 0
    for r in results:
        if r.kind == "stuck":
            continue
        if r.kind == "panic":
            obl.check_unsat(ex, tag + ":no-panic", list(r.pc), info=(spec, "panic: %s" % r.value, []))
            continue
        rr = r
        if only_field_events:
            rr = mx.PathResult.__new__(mx.PathResult)
            rr.kind, rr.value, rr.pc, rr.mem = r.kind, r.value, r.pc, r.mem
            rr.events = [e for e in r.events if e[0].endswith("push_bounds_for_field")]
        m = chain.check_path(ex, obl, tag, ref, rr, is_err(r), info=(spec, nv, nf))
        if m is not None:
            n_bad += 1
    if not stuck:
        e3.coverage_check(ex, obl, tag, results, pre=pre)
    if len(obl.samples) < 5 and results:
        r = results[len(results) // 3]
        obl.samples.append({"function": tag, "path_condition": [str(c) for c in r.pc][:10],
                            "events": [(e[0].split("::")[-1], e[1][1]) for e in r.events][:10],
                            "obligation": "path_condition AND NOT(for every level: visited <=> documented condition) is UNSAT"})
    log("[%s] %s: %d paths, %d mismatching, %.1fs" % (pid, tag, len(results), n_bad, time.time() - t0))
    return ex, shape, ref


class _All(set):
    def __contains__(self, x):
        return True


def check_wcb_kernel(eng, obl, out):
    """WhereClauseBuilder: a visited level contributes its predicates and types verbatim and nothing else changes; the type's own where-clause is retained"""
    def run(name):
        ex = eng.executor(opaque_local={"GenericParamSet::contains_in_type", "GenericParamSet::new"})
        ex.trace = _All()
        fn = eng.find(name)
        res = ex.run(fn, eng.args_for(fn))
        obl.note_paths(name, res, ex)
        return ex, res

    def touches_self(e):
        return e[1] and (e[1][0].startswith("sym:self.preds") or e[1][0].startswith("sym:self.types")) and e[0] not in (
            "Deref::Vec::deref", "slice::iter", "Vec::len", "Vec::is_empty", "Vec::iter", "IntoIterator::Vec::into_iter")

    ex, res = run("WhereClauseBuilder::push_bounds")
    obl.total += 1
    DESTRUCTIVE = ("Vec::clear", "Vec::truncate", "Vec::drain", "Vec::retain", "Vec::pop", "Vec::remove", "Vec::swap_remove", "mem::take", "mem::replace", "mem::swap", "Vec::split_off")
    problems, unknown = [], []
    for r in res:
        if r.kind != "return":
            unknown.append("%s %s" % (r.kind, r.value))
            continue
        if ex.summ(mx.State(), r.value) != "sym:bounds.default":
            problems.append("returns %s instead of the level's `..` flag" % ex.summ(mx.State(), r.value)[:60])
        muts = [e for e in r.events if touches_self(e)]
        if any(e[0] in DESTRUCTIVE for e in muts) or any(mx.pstr(k).startswith(("self.preds", "self.types")) for k in r.mem):
            problems.append("discards what was collected so far (%s)" % ([e[0] for e in muts if e[0] in DESTRUCTIVE] or "assignment to self.preds / self.types"))
        srcs = " ".join(a for e in r.events for a in e[1])
        for vec, src in (("sym:self.preds", "bounds.pred"), ("sym:self.types", "bounds.ty")):
            if not any(e[1][0] == vec for e in muts) or src not in srcs:
                problems.append("does not append %s to %s" % (src, vec[4:]))
        if [(e[0], e[1][0]) for e in muts] != [("Extend::Vec::extend", "sym:self.preds"), ("Extend::Vec::extend", "sym:self.types")] and not problems:
            unknown.append("unfamiliar but not evidently wrong shape: %s" % [(e[0], e[1][0]) for e in muts])
    if len(res) != 1 and not problems:
        unknown.append("%d paths (the level's contribution depends on something)" % len(res))
    if problems:
        probes.structural(out, "wcb|push_bounds", "WhereClauseBuilder::push_bounds %s" % "; ".join(sorted(set(problems))), 'C04.wcb')
    elif unknown:
        out.inconclusive.append("fn=WhereClauseBuilder::push_bounds reason=%s" % unknown[0])
    else:
        obl.discharged += 1
    ex, res = run("WhereClauseBuilder::push_bounds_for_field")
    obl.total += 1
    ok = len(res) == 2
    for r in res:
        muts = [(e[0], e[1][0], e[1][1] if len(e[1]) > 1 else "") for e in r.events if touches_self(e)]
        cont = any("ret(GenericParamSet::contains_in_type)" in str(c) and not str(c).startswith("Not(") for c in r.pc)
        if cont:
            ok = ok and muts == [("Vec::push", "sym:self.types", "opaque:Clone::Type::clone(sym:field.ty)")]
        else:
            ok = ok and muts == []
        ok = ok and any(e[0] == "GenericParamSet::contains_in_type" and e[1] == ["sym:self.gps", "sym:field.ty"] for e in r.events)
    if ok:
        obl.discharged += 1
    else:
        probes.structural(out, "wcb|push_bounds_for_field", "push_bounds_for_field does not add exactly the field's type when (and only when) it mentions a parameter", 'C04.wcb')
    ex, res = run("WhereClauseBuilder::new")
    obl.total += 1
    ok = bool(res) and all(r.kind == "return" for r in res)
    has_where = [r for r in res if any(e[0] == "Extend::Vec::extend" for e in r.events)]
    ok = ok and len(has_where) >= 1 and all(any(e[0].endswith("::iter") and "field" in e[1][0] or e[0] == "Punctuated::iter" for e in r.events) for r in has_where)
    if ok:
        obl.discharged += 1
    else:
        probes.structural(out, "wcb|new", "WhereClauseBuilder::new does not start from the type's own where-clause predicates", 'C04.wcb')
    ex, res = run("WhereClauseBuilder::build")
    obl.total += 1
    ok = bool(res)
    for r in res:
        if r.kind != "return":
            ok = False
            continue
        pcs = " ".join(str(c) for c in r.pc)
        nt = 1 if "len(self.types) > 0" in pcs else 0
        npred = 1 if "len(self.preds) > 0" in pcs else 0
        calls = sum(1 for e in r.events if "Fn(&Type)" in e[0] and "self.types" in " ".join(e[1]))
        emitted = sum(1 for e in r.events if e[0] == "ToTokens::WherePredicate::to_tokens" and "self.preds" in e[1][0])
        if calls < nt or emitted < npred:
            ok = False
    if ok:
        obl.discharged += 1
    else:
        probes.structural(out, "wcb|build", "WhereClauseBuilder::build drops a collected type or predicate", 'C04.wcb')


# ---------------------------------------------------------------------------------------------
# native replay: model -> item with a marker predicate per level -> where-clauses of the real expansion
# ---------------------------------------------------------------------------------------------
FAM_LIST = {"Clone": "Clone", "Copy": "Copy", "Debug": "Debug", "Default": "Default", "Deref": "Deref", "Op": "Add"}
TRAIT_PATH = {"Clone": "::core::clone::Clone", "Copy": "::core::marker::Copy", "Debug": "::core::fmt::Debug", "Default": "::core::default::Default",
              "Deref": "::core::ops::Deref", "Ord": "::core::cmp::Ord", "PartialOrd": "::core::cmp::PartialOrd", "Eq": "::core::cmp::Eq",
              "PartialEq": "::core::cmp::PartialEq", "Hash": "::core::hash::Hash"}


def replay_failures(obl, out, pid=PID):
    """C04/C03 counterexamples: rebuild the configuration as an item, expand natively, compare where-clauses with the reference"""
    from . import replay_e3, c04_replay
    seen = set()
    per_label = {}
    reproduced = set()
    # a level visited twice / out of order often leaves the same where-clause (duplicates do not show): replay the semantic failures (a level visited although the
    # reference says it is not, or the reverse) first, and keep trying other models of a builder until one reproduces
    order_last = sorted(obl.failed, key=lambda f: 1 if (isinstance(f[2], tuple) and len(f[2]) > 1 and "out of the documented order" in str(f[2][1])) else 0)
    for label, model, info in order_last:
        if label.startswith("coverage:"):
            out.broken.append("path conditions do not cover the configuration space: %s" % label)
            continue
        if not isinstance(info, tuple) or len(info) < 3:
            out.broken.append("unexplained failed obligation %s" % label)
            continue
        spec, why, actual = info[0], info[1], info[2]
        if not isinstance(spec, tuple) or not isinstance(spec[0], tuple):
            out.broken.append("unexplained failed obligation %s: %s" % (label, why))
            continue
        (blabel, fname, fam, trait, skind, roots), nv, nf = spec
        ex, shape, ref = obl.ex_by_label[label.rsplit(":", 1)[0]]
        case = c04_replay.concretize(ex, ref, shape, model, fam, trait)
        if case is None:
            out.broken.append("cannot concretize counterexample of %s (%s)" % (label, why))
            continue
        key = "%s|%s" % (blabel, common.norm(case["item"])[:160])
        if key in seen or blabel in reproduced or per_label.get(blabel, 0) >= 6:
            continue
        seen.add(key)
        per_label[blabel] = per_label.get(blabel, 0) + 1
        if pid != PID:
            case["only_field_types"] = True
        obs = replay_e3.observe(case)
        path = e3.write_replay(pid, "case%03d" % len(seen), case)
        if replay_e3.disagrees(case, obs):
            got = replay_e3.markers_of(case, obs)
            reproduced.add(blabel)
            out.violation(c04_replay.role_key(blabel, why, actual), path,
                          "%s: the generated impl is bounded by %s, the documented resolution gives %s for: #[derive_ex(%s)] %s" % (
                              why, got, [sorted(case["expected_markers"]), sorted(case["expected_field_types"])], case["attr"], " ".join(case["item"].split())[:400]))
        else:
            e3.not_reproduced(out, model, "for %s (%s): the real macro agrees with the reference (or refuses the item) on %s" % (label, why, " ".join(case["item"].split())[:300]))
        if len(seen) >= 24 or len(reproduced) >= 5:
            break


def safe_builder(eng, obl, out, spec, nv, nf, **kw):
    """one builder the executor cannot follow (after a refactoring) must not stop the others"""
    try:
        return run_builder(eng, obl, out, spec, nv, nf, **kw)
    except mx.Inconclusive as e:
        out.inconclusive.append("fn=%s[%dx%d] reason=%s" % (spec[0], nv, nf, e))
        return None


def run(tier, pid=PID, only_field_events=False):
    t0 = time.time()
    out = common.Outcome(pid)
    rnd = random.Random(common.seed())
    eng = mir_engine.Engine(opaque_local=OPAQUE, trace=TRACE)
    obl = e3.Obligations(pid)
    obl.ex_by_label = {}
    try:
        if pid == PID:
            check_wcb_kernel(eng, obl, out)
        for spec in BUILDERS:
            label, fname, fam, trait, skind, roots = spec
            if fam == "CompareOp":
                if tier == "thorough":
                    frees = [set()] + [{a} for a in cmpcfg.PREC[trait]] + [set(cmpcfg.PREC[trait][:2])]
                elif skind == "struct":
                    frees = [set()] + [{a} for a in cmpcfg.PREC[trait]]
                else:
                    frees = [set(), {rnd.choice(cmpcfg.PREC[trait])}]
                for fr in frees:
                    nv, nf = (1, 1)
                    r_ = safe_builder(eng, obl, out, spec, nv, nf, free_attrs=fr, pid=pid, only_field_events=only_field_events)
                    if r_ is not None:
                        obl.ex_by_label["%s[%dx%d free=%s]" % (label, nv, nf, "+".join(sorted(fr)))] = r_
                big = tier == "thorough" or (skind == "enum" and trait == TRAITS[common.seed() % 5])
                if big:
                    nv, nf = (2, 1) if skind == "enum" else (1, 2)
                    r_ = safe_builder(eng, obl, out, spec, nv, nf, free_attrs=set(), pid=pid, only_field_events=only_field_events)
                    if r_ is not None:
                        obl.ex_by_label["%s[%dx%d free=]" % (label, nv, nf)] = r_
                elif skind == "struct":
                    # two fields, field-level bound(..) quiet, ignore/by/key free on one helper attribute: per-field state must not leak into the next field
                    fr2 = {rnd.choice(cmpcfg.PREC[trait])}
                    r_ = safe_builder(eng, obl, out, spec, 1, 2, free_attrs=fr2, pid=pid, only_field_events=only_field_events, quiet_fields=True)
                    if r_ is not None:
                        obl.ex_by_label["%s[1x2 free=%s quiet-fields]" % (label, "+".join(sorted(fr2)))] = r_
                elif skind == "enum":
                    r_ = safe_builder(eng, obl, out, spec, 2, 1, free_attrs=set(), pid=pid, only_field_events=only_field_events, quiet_fields=True)
                    if r_ is not None:
                        obl.ex_by_label["%s[2x1 free= quiet-fields]" % label] = r_
            else:
                sizes = [(1, 1)]
                heavy = fam in ("Debug", "Default")
                if skind == "enum" and (not heavy or tier == "thorough"):
                    sizes.append((2, 1))
                if skind == "struct" and fam != "Deref" and (not heavy or tier == "thorough" or label == "debug-struct"):
                    sizes.append((1, 2))
                for nv, nf in sizes:
                    r_ = safe_builder(eng, obl, out, spec, nv, nf, pid=pid, only_field_events=only_field_events)
                    if r_ is not None:
                        obl.ex_by_label["%s[%dx%d]" % (label, nv, nf)] = r_
        replay_failures(obl, out, pid)
        if pid == PID:
            # where the first two levels (per-trait argument, shared argument) of every entry come from
            from . import e3_extras
            o2 = e3_extras.safe(e3_extras.entry_args_provenance, out, PID, 2 if tier == "quick" else 3)
            obl.total += o2.total
            obl.discharged += o2.discharged
            obl.solver_time += o2.solver_time
            obl.functions.update(o2.functions)
            obl.smt2 += o2.smt2[:4]
        if tier == "thorough":
            e3.cross_check_solvers(obl, out)
    except mx.Inconclusive as e:
        out.inconclusive.append("fn=? reason=%s" % e)
    inst = None
    if pid == PID:
        # end to end through rustc: written bound(...) arguments at sampled subsets of the nine places vs the documented resolution on a hand-written twin (vlib/c04_inst.py)
        from . import c04_inst, e1, kani_runner
        progs = c04_inst.programs(tier, rnd)
        stats = e1.run_batches(progs)
        counts = kani_runner.triage(PID, progs, out)
        log("[C04] bound-resolution programs: %s" % counts)
        inst = {"resolution_programs": len(progs), "resolution_results": counts, "resolution_kani_wall_s": round(stats["kani_wall_s"], 1),
                "resolution_rule": "one program per (trait, struct|enum, set of places carrying bound(...), form of each): the real derive on X, the documented where-clause by hand on a twin; "
                                   "`X<P, Q>: Trait` == `twin<P, Q>: Trait` for P, Q from {all markers, all but one, std traits only, nothing}; verdict: rustc's trait solver (constants), hosted by Kani",
                "resolution_sample": progs[1].src[:2000] if len(progs) > 1 else ""}
    return e3.finish(
        pid, tier, t0, eng, obl, out, extra=inst,
        rule="every feasible MIR path of every builder (Clone/Copy/Debug/Default/Deref/operators/five comparison traits; struct and enum) is one case; the "
             "`push_bounds` / `push_bounds_for_field` calls on the path must be exactly the levels the documented resolution visits under the path condition "
             "(one z3 query per path, all level-presence / `..` / entry-presence atoms symbolic); non-trivial = a path with at least one decision on an atom",
        bounds="<=2 variants x <=2 fields (1x1 and 2x1 / 1x2); comparison builders: all bound atoms free, ignore/by/key free on a chosen subset of helper attributes; "
               "inline depth<=14, <=14 visits per block",
        outside="`Bound::parse` / `Bounds::from` (parsing of bound(...) arguments: E3 starts from parsed Bounds with symbolic `default`), build_default_for_enum "
                "(iterator adaptors the executor does not model; its values are covered by C11), what predicates a level contains beyond `appended verbatim` (WhereClauseBuilder kernel), "
                "more than 2 variants x 2 fields" if False else "`Bound::parse` / `Bounds::from` (parsing of bound(...) arguments: E3 starts from parsed Bounds with symbolic `default`), build_default_for_enum "
                "(iterator adaptors the executor does not model; its values are covered by C11), what predicates a level contains (opaque token plumbing; replay uses markers)")
