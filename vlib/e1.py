"""Common driver for E1 (Kani) property checks."""
import time

from . import common, kani_runner
from .common import log

BASE_ASSUMPTIONS = [
    "rustc MIR -> Kani goto translation and CBMC 6.11.0 are sound (unwinding assertions on)",
    "the reference oracle written out by the generator is the documented rule (DESIGN.md Appendix A)",
    "support types in vlib/support.rs (instrumented field types, input sources) behave as written; they are not derived by derive_ex",
]

HEADER = """// {pid} program {name}: {desc}
use crate::support::*;
use core::cmp::Ordering;
use core::hash::{{Hash, Hasher}};
#[allow(unused_imports)]
use derive_ex::{{derive_ex, Ex}};

"""

HARNESS = "#[cfg(kani)]\n#[kani::proof]\n%spub fn h() {\n    check(&mut KaniSrc);\n    cover!(true, \"end-reached\");\n}\n"


def harness(unwind=None):
    return HARNESS % ("#[kani::unwind(%d)]\n" % unwind if unwind else "")


def run_batches(programs, batch=400, harness_timeout=None):
    stats = {"solver_time_s": 0.0, "kani_wall_s": 0.0, "build_rounds": 0}
    for i in range(0, len(programs), batch):
        chunk = programs[i:i + batch]
        s = kani_runner.run_kani(chunk, harness_timeout=harness_timeout)
        for k in stats:
            stats[k] += s[k]
        log("[E1] batch %d..%d done in %.1fs" % (i, i + len(chunk), s["kani_wall_s"]))
    return stats


def finish(pid, tier, programs, t0, rule, bounds, outside, functions, assumptions=(), extra=None, outcome=None,
           harness_timeout=None, batch=400):
    out = outcome or common.Outcome(pid)
    import os
    if os.environ.get("VERIF_ONLY"):  # development aid: run only the programs whose signature contains the given text (never set by a registered command)
        programs = [p for p in programs if os.environ["VERIF_ONLY"] in p.sig]
    stats = run_batches(programs, batch=batch, harness_timeout=harness_timeout)
    counts = kani_runner.triage(pid, programs, out)
    # kernel obligations of the E3 extras that failed without a native replay of their own: they support a violation found by the programs, they are not an alarm alone
    for key, what in getattr(out, "pending", []):
        if out.violations:
            log("[%s] kernel obligation failed as well: %s: %s" % (pid, key, what[:200]))
        else:
            out.inconclusive.append("structure not recognised: %s: %s [all %d programs of this check agree with the reference]" % (key, what[:300], counts.get("success", 0)))
    wall = time.time() - t0
    ok = [p for p in programs if p.result and p.result.status == "success"]
    samples = [{"program": p.desc, "source": p.src} for p in ok[:1]] + [{"program": p.desc} for p in ok[1:6]]
    if not samples:
        samples = [{"program": p.desc, "status": p.result.status if p.result else "?"} for p in programs[:3]]
    cov = {
        "evaluations": len(programs),
        "distinct_nontrivial": len({p.sig for p in ok if p.nontrivial}),
        "rule": rule,
        "samples": samples,
        "exhaustive": tier == "thorough",
        "harnesses": len(programs),
        "harness_results": counts,
        "queries_discharged": counts.get("success", 0),
        "functions_encoded": functions,
        "bounds": bounds,
        "outside_bounds": outside,
        "solver": "CBMC 6.11.0 via Kani 0.68.0 (cadical)",
        "solver_time_s": round(stats["solver_time_s"], 2),
        "kani_wall_s": round(stats["kani_wall_s"], 2),
    }
    if extra:
        cov.update(extra)
    common.write_evidence(pid, tier, cov, BASE_ASSUMPTIONS + list(assumptions), wall, len(out.violations))
    log("[%s] %s in %.1fs" % (pid, counts, wall))
    return out.finish()
