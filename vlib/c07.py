"""C07 — clone is field-wise; clone_from leaves the target equal to a clone of the source (E1).

Oracle: an explicit field-wise reference (`ref_clone`, `ref_clone_from`) written out by the generator is run on structural
snapshots with the same call recorder; the derived methods must produce the same value AND the same call trace.
"""
import itertools
import random
import time

from . import common, e1, kani_runner
from .gen_cmp import Field, TypeSpec, Variant

PID = "C07"
F = Field


def has_ref(t):
    return any(f.ty.startswith("&'a") for _, f in t.all_fields())


def tyuse(t):
    args = (["'a"] if has_ref(t) else []) + [c for _, c in t.generics]
    return t.name + ("<%s>" % ", ".join(args) if args else "")


def decl_generics(t):
    args = (["'a"] if has_ref(t) else []) + [g for g, _ in t.generics]
    return "<%s>" % ", ".join(args) if args else ""


def item_text(t, pre):
    txt = t.item_text(pre)
    if has_ref(t):
        g = t.decl_generics()
        head = "%s %s%s" % ("struct" if t.kind == "struct" else "enum", t.name, g)
        new = "%s %s%s" % ("struct" if t.kind == "struct" else "enum", t.name, decl_generics(t))
        txt = txt.replace(head, new, 1)
    return txt


def ctor(t, v, vals):
    path = t.name if t.kind == "struct" else "%s::%s" % (t.name, v.name)
    if v.kind == "unit":
        return path
    if v.kind == "named":
        return "%s { %s }" % (path, ", ".join("%s: %s" % (f.name, e) for f, e in zip(v.fields, vals)))
    return "%s(%s)" % (path, ", ".join(vals))


def helper_fns(t):
    tu = tyuse(t)
    lt = "<'a>" if has_ref(t) else ""
    out = [t.idx_fn().replace("&%s" % t.ty_use(), "&%s" % tu.replace("'a", "'_"))]
    snap_arms, same_arms, clone_arms, cf_arms, mk_arms = [], [], [], [], []
    for i, v in enumerate(t.variants):
        n = len(v.fields)
        snap_arms.append("        %s => %s," % (t.pat(v, "a"), ctor(t, v, ["a%d.snap()" % j for j in range(n)])))
        same_arms.append("        (%s, %s) => %s," % (t.pat(v, "a"), t.pat(v, "b"), " && ".join("a%d.same(b%d)" % (j, j) for j in range(n)) or "true"))
        clone_arms.append("        %s => %s," % (t.pat(v, "a"), ctor(t, v, ["Clone::clone(a%d)" % j for j in range(n)])))
        cf_arms.append("        (%s, %s) => {\n%s\n        }" % (t.pat(v, "a"), t.pat(v, "b"), "\n".join("            Clone::clone_from(a%d, b%d);" % (j, j) for j in range(n))))
        vals = []
        for f in v.fields:
            if f.ty.startswith("&'a"):
                vals.append("&pool[s.below(2) as usize]")
            else:
                vals.append("Gen::gen(s)")
        mk_arms.append("        %d => %s," % (i, ctor(t, v, vals)))
    if t.kind == "enum":
        same_arms.append("        _ => false,")
    cf_arms.append("        (lhs, rhs) => *lhs = ref_clone(rhs),")
    out.append("pub fn snap%s(x: &%s) -> %s {\n    match x {\n%s\n    }\n}\n" % (lt, tu, tu, "\n".join(snap_arms)))
    out.append("#[allow(unreachable_patterns)]\npub fn same%s(x: &%s, y: &%s) -> bool {\n    match (x, y) {\n%s\n    }\n}\n" % (lt, tu, tu, "\n".join(same_arms)))
    out.append("/// reference: one Clone::clone per field, in declaration order\npub fn ref_clone%s(x: &%s) -> %s {\n    match x {\n%s\n    }\n}\n" % (lt, tu, tu, "\n".join(clone_arms)))
    out.append("/// reference: same variant -> one Clone::clone_from per field, nothing else; otherwise replace by a clone of the source\n"
               "#[allow(unreachable_patterns)]\npub fn ref_clone_from%s(x: &mut %s, y: &%s) {\n    match (x, y) {\n%s\n    }\n}\n" % (lt, tu, tu, "\n".join(cf_arms)))
    if t.kind == "struct":
        body = "    %s" % mk_arms[0].strip()[len("0 => "):].rstrip(",")
    else:
        body = "    match s.below(%d) {\n%s\n        _ => loop { vassume(false); },\n    }" % (len(t.variants), "\n".join(mk_arms))
    out.append("pub fn mk<'a, S: Src>(s: &mut S, pool: &'a [R; 2]) -> %s {\n%s\n}\n" % (tu, body))
    return "\n".join(out)


CHECK = """pub fn check<S: Src>(s: &mut S) {
    let pool = [R(s.u8()), R(s.u8())];
    let a = mk(s, &pool);
    let a0 = snap(&a);
    trace_reset();
    let want = ref_clone(&a0);
    let tw = trace_take();
    let got = a.clone();
    let tg = trace_take();
    assert!(same(&got, &want) && same(&got, &a0), "clone-value");
    assert!(same(&a, &a0), "clone-source-unchanged");
    assert!(trace_same(&tg, &tw), "clone-trace");

    let mut x = mk(s, &pool);
    let y = mk(s, &pool);
    let mut xr = snap(&x);
    let y0 = snap(&y);
    cover!(vidx(&x) == vidx(&y), "same-variant");
{cover_diff}
    trace_reset();
    ref_clone_from(&mut xr, &y0);
    let tw = trace_take();
    x.clone_from(&y);
    let tg = trace_take();
    assert!(same(&x, &xr) && same(&x, &y0), "clone_from-value");
    assert!(same(&y, &y0), "clone_from-source-unchanged");
    assert!(trace_same(&tg, &tw), "clone_from-trace");
}

"""


def build(name, t, entry, desc, sig, list_args="Clone"):
    src = e1.HEADER.format(pid=PID, name=name, desc=desc)
    pre = ["#[derive_ex(%s)]" % list_args] if entry == "attr" else ["#[derive(Ex)]", "#[derive_ex(%s)]" % list_args]
    src += item_text(t, pre) + "\n\n"
    src += helper_fns(t) + "\n"
    multi = t.kind == "enum" and len(t.variants) >= 2
    src += CHECK.replace("{cover_diff}", '    cover!(vidx(&x) != vidx(&y), "different-variant");' if multi else "")
    src += e1.harness(unwind=14)
    nf = sum(len(v.fields) for v in t.variants)
    return kani_runner.Program(name, src, sig, desc, nontrivial=nf >= 2 or multi)


VKINDS = [("unit", 0), ("tuple", 1), ("tuple", 2), ("named", 1), ("named", 2), ("named", 3), ("tuple", 4)]
EXOTIC = ["&'a R", "(R, u8)", "[R; 2]", "Option<R>", "RC"]


def mk_variant(name, kind, n, tys):
    fs = []
    for i in range(n):
        ty = tys[i % len(tys)]
        fs.append(F("f%d" % i if kind == "named" else None, ty))
    return Variant(name, kind, fs)


def candidates(tier, rnd):
    out = []  # (TypeSpec, entry, list_args)
    for kind, ns in (("unit", [0]), ("tuple", [0, 1, 2, 3, 4]), ("named", [0, 1, 2, 3, 4])):
        for n in ns:
            for tys in (["R"], ["R", "u8"], ["u8", "R"]):
                if n == 0 and tys != ["R"]:
                    continue
                t = TypeSpec("struct", [mk_variant(None, kind, n, tys)], shape="struct-%s%d-%s" % (kind, n, "".join(tys)))
                out.append((t, "attr", "Clone"))
                if tys == ["R"]:
                    out.append((t, "derive", "Clone"))
    # field types beyond the plain recorder: references, tuples, arrays, Option, Copy types with a hand-written Clone
    for ty in EXOTIC:
        for kind in ("named", "tuple"):
            t = TypeSpec("struct", [mk_variant(None, kind, 2, [ty, "R"])], shape="struct-%s2-[%s]R" % (kind, ty))
            out.append((t, "attr", "Clone"))
        t = TypeSpec("enum", [mk_variant("V0", "tuple", 1, [ty]), mk_variant("V1", "named", 2, ["R", ty]), Variant("V2", "unit", [])], shape="enum-[%s]" % ty)
        out.append((t, "attr", "Clone"))
    # Clone derived together with other traits (the co-derived set must not change Clone)
    for la in ("Copy, Clone", "Clone, Copy", "Clone, Debug", "Clone, PartialEq, Default"):
        fty = "RC" if "Copy" in la else "R"
        t = TypeSpec("struct", [mk_variant(None, "tuple", 2, [fty])], shape="struct-tuple2-%s" % fty)
        if "Default" in la or "PartialEq" in la or "Debug" in la:
            fty = "u8"
            t = TypeSpec("struct", [Variant(None, "named", [F("f0", "u8"), F("f1", "u8")])], shape="struct-named2-u8")
        out.append((t, "attr", la))
        if "Copy" in la:
            t2 = TypeSpec("enum", [mk_variant("V0", "tuple", 1, ["RC"]), mk_variant("V1", "named", 2, ["RC"]), Variant("V2", "unit", [])], shape="enum-RC")
            out.append((t2, "attr", la))
            t3 = TypeSpec("struct", [Variant(None, "named", [F("a", "A"), F("b", "RC")])], [("A", "RC")], shape="struct-generic-RC")
            out.append((t3, "attr", la))
    # foreign attributes on the item (layout, lints, docs) must not change what Clone does
    for deco in ("#[repr(C)]", "#[repr(align(8))]", "#[repr(transparent)]", "#[non_exhaustive]\n#[allow(dead_code)]\n/// documented"):
        nf = 1 if "transparent" in deco else 2
        t = TypeSpec("struct", [mk_variant(None, "named", nf, ["RC", "R"])], shape="struct-named%d-RC-R|%s" % (nf, deco.split("\n")[0]))
        t.extra_attrs.append(deco)
        out.append((t, "attr", "Clone"))
    t = TypeSpec("enum", [mk_variant("V0", "tuple", 1, ["RC"]), mk_variant("V1", "named", 2, ["R", "RC"]), Variant("V2", "unit", [])], shape="enum-RC-R|#[repr(u8)]")
    t.extra_attrs.append("#[repr(u8)]")
    out.append((t, "attr", "Clone"))
    # explicit discriminants on variants that carry data (they are variants like any other for clone / clone_from)
    t = TypeSpec("enum", [mk_variant("V0", "tuple", 2, ["R"]), mk_variant("V1", "named", 1, ["R"]), Variant("V2", "unit", []), mk_variant("V3", "tuple", 1, ["R", "u8"])], shape="enum-R|#[repr(u8)]+discriminants")
    t.extra_attrs.append("#[repr(u8)]")
    for v, dsc in zip(t.variants, (2, 7, 1, 9)):
        v.disc = dsc
    out.append((t, "attr", "Clone"))
    # Clone next to Default with explicit default values on fields: the values are Default's business only
    t = TypeSpec("struct", [Variant(None, "named", [F("f0", "u8"), F("f1", "R"), F("f2", "u8")])], shape="struct-named3-default-values")
    t.variants[0].fields[0].extra_attrs.append("#[default(7)]")
    t.variants[0].fields[2].extra_attrs.append("#[default(9)]")
    out.append((t, "attr", "Clone, Default"))
    out.append((t, "derive", "Default, Clone"))
    # Clone derived next to the comparison traits / Hash / Debug / Default on a type whose own equality looks at some fields only: clone_from may not consult it
    for la in ("Clone, PartialEq, Eq", "Clone, Eq, PartialEq, PartialOrd, Ord, Hash", "Debug, Default, Clone, PartialEq"):
        t = TypeSpec("struct", [Variant(None, "named", [F("f0", "RE"), F("f1", "RE"), F("f2", "RE")])], shape="struct-named3-RE-eq-ignore")
        ign = "#[ord(ignore)]" if "Ord" in la else ("#[eq(ignore)]" if "Eq," in la + "," else "#[partial_eq(ignore)]")
        t.variants[0].fields[1].extra_attrs.append(ign)
        out.append((t, "attr", la))
        t2 = TypeSpec("enum", [Variant("V0", "tuple", [F(None, "RE"), F(None, "RE")]), Variant("V1", "named", [F("a", "RE")]), Variant("V2", "unit", [])], shape="enum-RE-eq-ignore")
        t2.variants[0].fields[0].extra_attrs.append(ign)
        if "Default" in la:
            t2.variants[2].extra_attrs.append("#[default]")
        out.append((t2, "attr" if "Hash" not in la else "derive", la))
    # helper attributes of the co-derived traits on a field are those traits' business (a debug-ignored / hash-ignored / valued field is cloned like any other)
    t = TypeSpec("struct", [Variant(None, "named", [F("f0", "RE"), F("f1", "RE"), F("f2", "RE")])], shape="struct-named3-RE-foreign-helpers")
    t.variants[0].fields[0].extra_attrs.append("#[debug(ignore)]")
    t.variants[0].fields[1].extra_attrs.append("#[hash(ignore)]")
    t.variants[0].fields[2].extra_attrs.append("#[default(RE(3))]")
    out.append((t, "attr", "Clone, Debug, Hash, Default"))
    t2 = TypeSpec("enum", [Variant("V0", "tuple", [F(None, "RE"), F(None, "RE")]), Variant("V1", "named", [F("a", "RE")]), Variant("V2", "unit", [])], shape="enum-RE-foreign-helpers")
    t2.variants[0].fields[0].extra_attrs.append("#[debug(ignore)]")
    t2.variants[1].fields[0].extra_attrs.append("#[debug(transparent)]")
    t2.variants[0].fields[1].extra_attrs.append("#[hash(ignore)]")
    out.append((t2, "derive", "Debug, Clone, Hash"))
    # field names that are not in alphabetical order (declaration order is what counts), next to tuple fields
    t = TypeSpec("struct", [Variant(None, "named", [F("zeta", "R"), F("alpha", "R"), F("mid", "R"), F("beta", "u8")])], shape="struct-named4-unsorted-names")
    out.append((t, "attr", "Clone"))
    t = TypeSpec("enum", [Variant("Zed", "named", [F("y", "R"), F("x", "R")]), Variant("Able", "named", [F("q", "R"), F("c", "u8"), F("a", "R")]), Variant("Mid", "unit", [])], shape="enum-unsorted-names")
    out.append((t, "attr", "Clone"))
    out.append((t, "derive", "Clone"))
    # many variants (a data-carrying one in the middle and at the end): nothing depends on how many there are
    for nv in (17, 33) if tier != "thorough" else (9, 17, 33, 65):
        vs = [Variant("U%d" % i, "unit", []) for i in range(nv)]
        vs[nv // 2] = Variant("U%d" % (nv // 2), "tuple", [F(None, "R"), F(None, "R")])
        vs[nv - 1] = Variant("U%d" % (nv - 1), "named", [F("a", "R")])
        out.append((TypeSpec("enum", vs, shape="enum-%d-variants" % nv), "attr", "Clone"))
    # generic wrappers, bound arguments (must not change behaviour)
    for la in ("Clone", "Clone(bound(A: Clone))", "Clone, bound(A)", "Clone(bound(..))"):
        t = TypeSpec("struct", [Variant(None, "named", [F("a", "A"), F("b", "R"), F("p", "core::marker::PhantomData<A>")])], [("A", "R")], shape="struct-generic")
        out.append((t, "attr", la))
        t2 = TypeSpec("enum", [Variant("P", "tuple", [F(None, "A")]), Variant("Q", "named", [F("a", "R"), F("b", "A")]), Variant("U", "unit", [])],
                      [("A", "R")], shape="enum-generic")
        out.append((t2, "attr", la))
    for la in ("Clone(bound())", "Clone, bound()"):
        t = TypeSpec("struct", [mk_variant(None, "named", 2, ["R"])], shape="struct-named2-R")
        out.append((t, "attr", la))
        t2 = TypeSpec("enum", [mk_variant("V0", "tuple", 1, ["R"]), mk_variant("V1", "named", 2, ["R"])], shape="enum-tuple1-named2")
        out.append((t2, "attr", la))
    # enums
    combos = []
    for k in (1, 2, 3):
        combos += list(itertools.product(VKINDS[:6], repeat=k))
    if tier != "thorough":
        core = [c for c in combos if len(c) <= 2 and all(x in (("unit", 0), ("tuple", 1), ("tuple", 2), ("named", 2)) for x in c)]
        core += [(("unit", 0), ("tuple", 2), ("named", 3)), (("tuple", 1), ("tuple", 1), ("tuple", 1)), (("named", 2), ("named", 2), ("unit", 0)),
                 (("named", 1), ("unit", 0), ("tuple", 1))]
        combos = core + rnd.sample(combos, 25)
    for c in combos:
        vs = [mk_variant("V%d" % i, kind, n, ["R"] if i % 2 == 0 else ["R", "u8"]) for i, (kind, n) in enumerate(c)]
        if sum(len(v.fields) for v in vs) > 8:
            continue
        t = TypeSpec("enum", vs, shape="enum-" + "-".join("%s%d" % kn for kn in c))
        out.append((t, "attr", "Clone"))
        if len(c) == 2:
            out.append((t, "derive", "Clone"))
    out.append((TypeSpec("enum", [], shape="enum-empty"), "attr", "Clone")) if False else None
    return out


def run(tier):
    t0 = time.time()
    rnd = random.Random(common.seed())
    progs, seen = [], set()
    for t, entry, la in candidates(tier, rnd):
        sig = "%s|%s|%s" % (t.shape, la, entry)
        if sig in seen:
            continue
        seen.add(sig)
        progs.append(build("p%05d" % len(progs), t, entry, "shape=%s list=%s entry=%s" % (t.shape, la, entry), sig, la))
    return e1.finish(
        PID, tier, progs, t0,
        rule="one Kani harness per type shape; all field payloads of all operands and both variant selectors are symbolic, so each harness covers every ordered pair of "
             "values incl. every pair of distinct variants; value and call trace must equal those of an explicit field-wise reference run on snapshots; "
             "non-trivial = >= 2 fields or >= 2 variants; distinct by shape|list|entry",
        bounds="structs (unit/tuple/named) with 0..4 fields; enums with <=3 variants of kinds unit/tuple1/tuple2/named1..3; field types R (call-recording), u8, RC (Copy with recording Clone), "
               "&'a R, (R,u8), [R;2], Option<R>, RE (recording, with every derivable trait), generic A:=R; Clone alone and co-derived with Copy / Debug / Default / the comparison traits / Hash (with an ignored field); "
               "field names not in alphabetical order; enums of 17 and 33 (thorough 9..65) variants with two data-carrying ones; bound(..) decorations; trace <= 12 events (unwind 14)",
        outside="more than 4 fields per variant; more than 3 data-carrying variants (the many-variant shapes have two); empty enums are C12's subject",
        functions=["Clone::clone and Clone::clone_from generated by derive_ex for each program"],
        assumptions=["the call trace is observed through a static mut array written by R::clone / R::clone_from / RC::clone*"])
