"""C07 — clone is field-wise; clone_from leaves the target equal to a clone of the source (E1)."""
import itertools
import random
import time

from . import common, e1, kani_runner
from .gen_cmp import Field, TypeSpec, Variant

PID = "C07"
F = Field


def payload(expr, ty):
    return {"R": "%s.0" % expr, "u8": "*%s" % expr}[ty]


def copy_expr(expr, ty):
    return {"R": "R(%s.0)" % expr, "u8": "*%s" % expr}[ty]


def helper_fns(t):
    tu = t.ty_use()
    out = [t.idx_fn()]
    # snap: structural copy that does not go through Clone
    arms, same_arms, clone_arms, cf_arms = [], [], [], []
    for v in t.variants:
        path = t.name if t.kind == "struct" else "%s::%s" % (t.name, v.name)
        vals = [copy_expr("a%d" % i, t.conc(f.ty)) for i, f in enumerate(v.fields)]
        if v.kind == "unit":
            ctor = path
        elif v.kind == "named":
            ctor = "%s { %s }" % (path, ", ".join("%s: %s" % (f.name, e) for f, e in zip(v.fields, vals)))
        else:
            ctor = "%s(%s)" % (path, ", ".join(vals))
        arms.append("        %s => %s," % (t.pat(v, "a"), ctor))
        conds = ["%s == %s" % (payload("a%d" % i, t.conc(f.ty)), payload("b%d" % i, t.conc(f.ty))) for i, f in enumerate(v.fields)]
        same_arms.append("        (%s, %s) => %s," % (t.pat(v, "a"), t.pat(v, "b"), " && ".join(conds) or "true"))
        ev = ["            out[n] = Ev { op: OP_CLONE, a: a%d.0, b: 0 }; n += 1;" % i for i, f in enumerate(v.fields) if t.conc(f.ty) == "R"]
        clone_arms.append("        %s => {\n%s\n        }" % (t.pat(v, "a"), "\n".join(ev)))
        ev = ["            out[n] = Ev { op: OP_CLONE_FROM, a: a%d.0, b: b%d.0 }; n += 1;" % (i, i) for i, f in enumerate(v.fields) if t.conc(f.ty) == "R"]
        cf_arms.append("        (%s, %s) => {\n%s\n        }" % (t.pat(v, "a"), t.pat(v, "b"), "\n".join(ev)))
    if t.kind == "enum":
        same_arms.append("        _ => false,")
        cf_arms.append("        _ => { return exp_clone(y, out); }")
    out.append("pub fn snap(x: &%s) -> %s {\n    match x {\n%s\n    }\n}\n" % (tu, tu, "\n".join(arms)))
    out.append("pub fn same(x: &%s, y: &%s) -> bool {\n    match (x, y) {\n%s\n    }\n}\n" % (tu, tu, "\n".join(same_arms)))
    out.append("/// reference trace of `x.clone()`: one Clone::clone per field, in declaration order\n"
               "pub fn exp_clone(x: &%s, out: &mut [Ev; 8]) -> usize {\n    let mut n = 0;\n    match x {\n%s\n    }\n    n\n}\n" % (tu, "\n".join(clone_arms)))
    out.append("/// reference trace of `x.clone_from(y)`: same variant -> one clone_from per field; else a clone of y\n"
               "#[allow(unreachable_patterns)]\npub fn exp_clone_from(x: &%s, y: &%s, out: &mut [Ev; 8]) -> usize {\n    let mut n = 0;\n    match (x, y) {\n%s\n    }\n    n\n}\n" % (
                   tu, tu, "\n".join(cf_arms)))
    return "\n".join(out)


CHECK = """pub fn check<S: Src>(s: &mut S) {
    let a = mk(s);
    let a0 = snap(&a);
    let mut exp = [Ev { op: 0, a: 0, b: 0 }; 8];
    let n = exp_clone(&a, &mut exp);
    trace_reset();
    let c = a.clone();
    assert!(same(&c, &a0), "clone-value");
    assert!(same(&a, &a0), "clone-source-unchanged");
    assert!(trace_is(&exp[..n]), "clone-trace");

    let mut x = mk(s);
    let y = mk(s);
    let x0 = snap(&x);
    let y0 = snap(&y);
    let n = exp_clone_from(&x0, &y0, &mut exp);
    cover!(vidx(&x0) == vidx(&y0), "same-variant");
{cover_diff}
    trace_reset();
    x.clone_from(&y);
    assert!(same(&x, &y0), "clone_from-value");
    assert!(same(&y, &y0), "clone_from-source-unchanged");
    assert!(trace_is(&exp[..n]), "clone_from-trace");
}

"""


def build(name, t, entry, desc, sig, list_args="Clone"):
    src = e1.HEADER.format(pid=PID, name=name, desc=desc)
    pre = ["#[derive_ex(%s)]" % list_args] if entry == "attr" else ["#[derive(Ex)]", "#[derive_ex(%s)]" % list_args]
    src += t.item_text(pre) + "\n\n"
    src += helper_fns(t) + "\n" + t.mk_fn() + "\n"
    multi = t.kind == "enum" and len(t.variants) >= 2
    src += CHECK.replace("{cover_diff}", '    cover!(vidx(&x0) != vidx(&y0), "different-variant");' if multi else "")
    src += e1.harness(unwind=10)
    nf = sum(len(v.fields) for v in t.variants)
    return kani_runner.Program(name, src, sig, desc, nontrivial=nf >= 2 or multi)


VKINDS = [("unit", 0), ("tuple", 1), ("tuple", 2), ("named", 1), ("named", 2), ("named", 3), ("tuple", 4)]


def mk_variant(name, kind, n, tys):
    fs = []
    for i in range(n):
        ty = tys[i % len(tys)]
        fs.append(F("f%d" % i if kind == "named" else None, ty))
    return Variant(name, kind, fs)


def candidates(tier, rnd):
    out = []  # (TypeSpec, entry, list_args, sigextra)
    # structs
    for kind, ns in (("unit", [0]), ("tuple", [1, 2, 3, 4]), ("named", [1, 2, 3, 4])):
        for n in ns:
            for tys in (["R"], ["R", "u8"], ["u8", "R"]):
                if n == 0 and tys != ["R"]:
                    continue
                t = TypeSpec("struct", [mk_variant(None, kind, n, tys)], shape="struct-%s%d-%s" % (kind, n, "".join(tys)))
                out.append((t, "attr", "Clone"))
                if tys == ["R"]:
                    out.append((t, "derive", "Clone"))
    # generic wrappers, bound arguments (must not change behaviour)
    for la in ("Clone", "Clone(bound(A: Clone))", "Clone, bound(A)", "Clone(bound(..))"):
        t = TypeSpec("struct", [Variant(None, "named", [F("a", "A"), F("b", "R"), F("p", "core::marker::PhantomData<A>")])],
                     [("A", "R")], shape="struct-generic")
        t.variants[0].fields = [F("a", "A"), F("b", "R")]
        out.append((t, "attr", la))
        t2 = TypeSpec("enum", [Variant("P", "tuple", [F(None, "A")]), Variant("Q", "named", [F("a", "R"), F("b", "A")]), Variant("U", "unit", [])],
                      [("A", "R")], shape="enum-generic")
        out.append((t2, "attr", la))
    # enums
    combos = []
    for k in (1, 2, 3):
        combos += list(itertools.product(VKINDS[:6], repeat=k))
    if tier != "thorough":
        core = [c for c in combos if len(c) <= 2 and all(x in (("unit", 0), ("tuple", 2), ("named", 2)) for x in c)]
        core += [(("unit", 0), ("tuple", 2), ("named", 3)), (("tuple", 1), ("tuple", 1), ("tuple", 1)), (("named", 2), ("named", 2), ("unit", 0))]
        combos = core + rnd.sample(combos, 30)
    for c in combos:
        vs = [mk_variant("V%d" % i, kind, n, ["R"] if i % 2 == 0 else ["R", "u8"]) for i, (kind, n) in enumerate(c)]
        if sum(len(v.fields) for v in vs) > 8:
            continue
        t = TypeSpec("enum", vs, shape="enum-" + "-".join("%s%d" % kn for kn in c))
        out.append((t, "attr", "Clone"))
        if len(c) == 2:
            out.append((t, "derive", "Clone"))
    return out


def run(tier):
    t0 = time.time()
    rnd = random.Random(common.seed())
    progs, seen = [], set()
    for t, entry, la in candidates(tier, rnd):
        sig = "%s|%s|%s" % (t.shape, la, entry)
        if sig in seen:
            continue
        seen.add(sig)
        progs.append(build("p%05d" % len(progs), t, entry, "shape=%s list=%s entry=%s" % (t.shape, la, entry), sig, la))
    return e1.finish(
        PID, tier, progs, t0,
        rule="one Kani harness per type shape; all field payloads of all operands and both variant selectors are symbolic, so each harness covers every "
             "ordered pair of values incl. every pair of distinct variants; non-trivial = >= 2 fields or >= 2 variants; distinct by shape|list|entry",
        bounds="structs (unit/tuple/named) with 0..4 fields; enums with <=3 variants of kinds unit/tuple1/tuple2/named1..3; field types R (call-recording), u8, generic A:=R; trace <= 8 events (unwind 10)",
        outside="more than 3 variants or 4 fields per variant; field types whose Clone has other side effects",
        functions=["Clone::clone and Clone::clone_from generated by derive_ex for each program"],
        assumptions=["the call trace is observed through a static mut array written by R::clone / R::clone_from"])
