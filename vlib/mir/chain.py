"""Reference resolution of `bound(...)` levels (DESIGN.md Appendix A.7 / A.8) as z3 formulas over the executor's atoms.

A *level* is one Bounds object that may be consulted; the reference says under which condition (over the configuration atoms) it is
visited. The MIR path's `WhereClauseBuilder::push_bounds(<level>)` / `push_bounds_for_field(<field>)` events must be exactly the
visited levels, in reference order.
"""
import z3

from .cmpcfg import FieldAtoms, PREC, ATTRS, IGNORE_SRC


def T():
    return z3.BoolVal(True)


class Ref:
    def __init__(self, ex):
        self.ex = ex
        self.levels = []  # (event key, visited-condition)

    def bdef(self, path):
        return self.ex.bvar(path + ".default")

    def visit(self, kind, path, cond):
        self.levels.append(((kind, path), z3.simplify(cond) if z3.is_expr(cond) else z3.BoolVal(bool(cond))))

    def present(self, path):
        return self.ex.ivar("disc(%s)" % path, 0, 1) == 1

    # -- chains --------------------------------------------------------------------------------
    def entry_chain(self, e, u, alive=None):
        """DeriveEntry: per-trait argument, then shared argument"""
        a = alive if alive is not None else T()
        self.visit("bounds", e + ".bounds_this", z3.And(a, u))
        u = z3.And(u, z3.Implies(a, self.bdef(e + ".bounds_this")))
        self.visit("bounds", e + ".bounds_common", z3.And(a, u))
        u = z3.And(u, z3.Implies(a, self.bdef(e + ".bounds_common")))
        return u

    def items_chain(self, hattrs, kind_key, u, alive=None):
        a = alive if alive is not None else T()
        p = "%s.items.{%s}" % (hattrs, kind_key)
        pres = z3.And(a, self.present(p))
        return self.entry_chain(p + ".<Some>.0", u, alive=pres)

    def cmp_helper_chain_plain(self, hattrs, trait, u, alive=None):
        """type / variant placement: every helper attribute that affects the trait, most specific first"""
        a = alive if alive is not None else T()
        for attr in PREC[trait]:
            p = "%s.cmp.%s.bounds" % (hattrs, attr)
            self.visit("bounds", p, z3.And(a, u))
            u = z3.And(u, z3.Implies(a, self.bdef(p)))
        return u

    def helper_chain(self, hattrs, kindname, trait, u, alive=None):
        a = alive if alive is not None else T()
        if kindname == "CompareOp":
            return self.cmp_helper_chain_plain(hattrs, trait, u, a)
        if kindname == "Debug":
            p = "%s.debug.bounds" % hattrs
            self.visit("bounds", p, z3.And(a, u))
            return z3.And(u, z3.Implies(a, self.bdef(p)))
        if kindname == "Default":
            d = "%s.default" % hattrs
            pres = z3.And(a, self.present(d))
            p = d + ".<Some>.0.bounds"
            self.visit("bounds", p, z3.And(pres, u))
            return z3.And(u, z3.Implies(pres, self.bdef(p)))
        return u

    def cmp_field(self, base, trait, kind_key, u, exists):
        """comparison traits, field placement: helper chain cut by a by/key comparator, then the derive_ex levels, then the field type"""
        fa = FieldAtoms(self.ex, base)
        alive = z3.And(exists, z3.Not(fa.ignored(trait)))
        run = alive  # helper chain still running (no comparator selected yet)
        for attr in PREC[trait]:
            p = "%s.hattrs.cmp.%s.bounds" % (base, attr)
            self.visit("bounds", p, z3.And(run, u))
            u = z3.And(u, z3.Implies(run, self.bdef(p)))
            custom = fa.key(attr) if (trait == "Hash" and attr != "hash") else z3.Or(fa.by(attr), fa.key(attr))
            run = z3.And(run, z3.Not(custom))
        used = z3.And(run, z3.Not(fa.any_custom()))
        u = self.items_chain(base + ".hattrs", kind_key, u, alive=alive)
        self.visit("field", base + ".field", z3.And(alive, u, used))
        return fa

    def plain_field(self, base, kindname, kind_key, u, exists, used=None, with_helper=True):
        a = exists
        if with_helper:
            u = self.helper_chain(base + ".hattrs", kindname, None, u, alive=a)
        u = self.items_chain(base + ".hattrs", kind_key, u, alive=a)
        self.visit("field", base + ".field", z3.And(a, u, used if used is not None else T()))


def check_path(ex, obl, label, ref, r, is_err, info=None, extra_ok_events=()):
    """one obligation: the path's push events are exactly the reference's visited levels (prefix for Err paths)"""
    actual = []
    for name, args in r.events:
        if name == "WhereClauseBuilder::push_bounds":
            actual.append(("bounds", args[1][4:] if args[1].startswith("sym:") else args[1]))
        elif name == "WhereClauseBuilder::push_bounds_for_field":
            actual.append(("field", args[1][4:] if args[1].startswith("sym:") else args[1]))
    keys = [k for k, _ in ref.levels]
    pos = {k: i for i, k in enumerate(keys)}
    # static part: known levels, in reference order, no duplicates
    last = -1
    static_problem = None
    for a in actual:
        if a not in pos:
            static_problem = "unexpected level %s" % (a,)
            break
        if pos[a] <= last:
            static_problem = "level %s visited out of the documented order" % (a,)
            break
        last = pos[a]
    if static_problem:
        # still a solver obligation: the path must be infeasible for the property to hold
        return obl.check_unsat(ex, label + ":order", list(r.pc), info=(info, static_problem, actual))
    upto = last + 1 if is_err else len(keys)
    aset = set(actual)
    conj = []
    for k, cond in ref.levels[:upto]:
        conj.append(cond if k in aset else z3.Not(cond))
    return obl.check_unsat(ex, label + ":levels", list(r.pc) + [z3.Not(z3.And(conj))] if conj else list(r.pc) + [z3.BoolVal(False)],
                           info=(info, "visited levels differ from the documented resolution", actual), keep_smt=True)
