"""Parser for rustc's `-Zunpretty=mir` text (the subset that derive-ex's decision logic uses).

Produces Function objects: params, local types, basic blocks of (statements, terminator) in a
small AST. Anything not understood is kept as ('unknown', text) so that the executor can report
INCONCLUSIVE for the functions that contain it instead of guessing.
"""
import os
import re
import subprocess
import tempfile
import shutil


class Function:
    def __init__(self, name, params, ret, locals_, blocks, text):
        self.name = name
        self.params = params  # list of (local number, type)
        self.ret = ret
        self.locals = locals_  # number -> type string
        self.blocks = blocks  # int -> (stmts, term)
        self.text = text
        self.is_const = False

    def __repr__(self):
        return "<fn %s>" % self.name


# ---------------------------------------------------------------------------------------------
def dump_mir(repo, scratch, overflow_checks=False):
    """Regenerate the MIR text from the repository's current working tree. With `overflow_checks` the arithmetic of the crate carries rustc's own
    `assert(!overflow)` terminators (the dev profile, in which cargo builds proc-macro crates unless told otherwise)."""
    env = dict(os.environ)
    env["CARGO_TARGET_DIR"] = os.path.join(scratch, "target")
    env["CARGO_NET_OFFLINE"] = "true"
    # make sure rustc really runs (an up-to-date fingerprint would print nothing): drop the crate's own fingerprint, keep the dependencies
    import glob
    for d in glob.glob(os.path.join(scratch, "target", "debug", ".fingerprint", "derive-ex-*")):
        shutil.rmtree(d, ignore_errors=True)
    out = subprocess.run(
        ["cargo", "+nightly", "rustc", "--offline", "-p", "derive-ex", "--lib", "--", "-Zunpretty=mir", "-C", "debug-assertions=off"] + (["-C", "overflow-checks=on"] if overflow_checks else []),
        cwd=repo, env=env, stdout=subprocess.PIPE, stderr=subprocess.PIPE, text=True)
    if out.returncode != 0 or "fn " not in out.stdout:
        raise RuntimeError("MIR dump failed:\n" + out.stderr[-3000:])
    return out.stdout


def split_top(s, sep=","):
    """split on `sep` at nesting depth 0 of () [] {} <>; `->` and `=>` are not brackets"""
    out, depth, cur = [], 0, []
    i = 0
    n = len(s)
    instr = False
    while i < n:
        c = s[i]
        if instr:
            cur.append(c)
            if c == "\\" and i + 1 < n:
                cur.append(s[i + 1])
                i += 2
                continue
            if c == '"':
                instr = False
            i += 1
            continue
        if c == '"':
            instr = True
            cur.append(c)
        elif c in "([{":
            depth += 1
            cur.append(c)
        elif c in ")]}":
            depth -= 1
            cur.append(c)
        elif c == "<":
            # generic bracket unless it is a comparison; MIR uses Lt(..) for comparisons, so always a bracket
            depth += 1
            cur.append(c)
        elif c == ">":
            if i > 0 and s[i - 1] in "-=":
                cur.append(c)
            else:
                depth -= 1
                cur.append(c)
        elif c == sep and depth == 0:
            out.append("".join(cur).strip())
            cur = []
        else:
            cur.append(c)
        i += 1
    last = "".join(cur).strip()
    if last:
        out.append(last)
    return out


_span_const = re.compile(r"const proc_macro2::Span \{\{.*?\}\}\}*")


def clean(line):
    # `const proc_macro2::Span {{ ... }}` literals have doubled braces and nested <..>: replace
    if "const proc_macro2::Span {{" in line:
        line = re.sub(r"const proc_macro2::Span \{\{[^;]*?\}\}(?:\s*\}\})*", "const SPAN", line)
    return line


# ---- places -------------------------------------------------------------------------------------
def parse_place(s):
    """-> ('local', n) | ('deref', p) | ('field', p, idx, ty) | ('downcast', p, variant) | ('index', p, operand) | ('constidx', p, n)"""
    s = s.strip()
    m = re.fullmatch(r"_(\d+)", s)
    if m:
        return ("local", int(m.group(1)))
    if s.startswith("(*") and s.endswith(")"):
        return ("deref", parse_place(s[2:-1]))
    if s.startswith("(") and s.endswith(")"):
        inner = s[1:-1]
        # field with type: (P.N: T)
        # find the ": " at depth 0
        depth = 0
        for i, c in enumerate(inner):
            if c in "([{<":
                depth += 1
            elif c in ")]}":
                depth -= 1
            elif c == ">" and inner[i - 1] not in "-=":
                depth -= 1
            elif c == ":" and depth == 0 and inner[i + 1:i + 2] == " " and inner[i - 1] != ":":
                left, ty = inner[:i], inner[i + 2:]
                k = left.rfind(".")
                return ("field", parse_place(left[:k]), int(left[k + 1:]), ty.strip())
        m = re.fullmatch(r"(.*) as (\w+)", inner)
        if m:
            return ("downcast", parse_place(m.group(1)), m.group(2))
        return parse_place(inner)
    m = re.fullmatch(r"(.*)\[(_\d+)\]", s)
    if m:
        return ("index", parse_place(m.group(1)), ("copy", ("local", int(m.group(2)[1:]))))
    m = re.fullmatch(r"(.*)\[(\d+) of (\d+)\]", s)
    if m:
        return ("constidx", parse_place(m.group(1)), int(m.group(2)))
    m = re.fullmatch(r"(.*)\.(\d+)", s)
    if m:  # untyped field (e.g. `_41.0` printed with a type normally; keep tolerant)
        return ("field", parse_place(m.group(1)), int(m.group(2)), None)
    raise ValueError("place? " + s)


def parse_operand(s):
    s = s.strip()
    if s.startswith("no_retag "):
        s = s[len("no_retag "):]
    if s.startswith("copy "):
        return ("copy", parse_place(s[5:]))
    if s.startswith("move "):
        return ("move", parse_place(s[5:]))
    if s.startswith("const "):
        return ("const", s[6:].strip())
    raise ValueError("operand? " + s)


BINOPS = {"Eq", "Ne", "Lt", "Le", "Gt", "Ge", "BitAnd", "BitOr", "BitXor", "Add", "Sub", "Mul", "AddWithOverflow", "SubWithOverflow",
          "MulWithOverflow", "Offset", "Shl", "Shr", "Div", "Rem", "Cmp", "AddUnchecked", "SubUnchecked"}
UNOPS = {"Not", "Neg", "PtrMetadata"}


def parse_rvalue(s):
    s = s.strip()
    if s.startswith("no_retag "):
        s = s[len("no_retag "):]
    if s.startswith(("copy ", "move ", "const ")):
        m = re.fullmatch(r"(.*) as (.*) \((\w+(?:\(.*\))?)\)", s)
        if m:
            return ("cast", parse_operand(m.group(1)), m.group(2), m.group(3))
        return ("use", parse_operand(s))
    if s.startswith("&raw "):
        rest = s.split(" ", 2)[2].strip()
        if rest.startswith("(fake) "):  # `&raw const (fake) (*_x)`: the fake borrow of a match on a slice pattern
            rest = rest[len("(fake) "):]
        return ("ref", parse_place(rest))
    if s.startswith("&mut "):
        return ("ref", parse_place(s[5:]), "mut")
    if s.startswith("&"):
        rest = s[1:].strip()
        if rest.startswith("fake shallow "):
            rest = rest[len("fake shallow "):]
        elif rest.startswith("fake "):
            rest = rest[5:]
        return ("ref", parse_place(rest))
    m = re.fullmatch(r"discriminant\((.*)\)", s)
    if m:
        return ("discriminant", parse_place(m.group(1)))
    m = re.fullmatch(r"Len\((.*)\)", s)
    if m:
        return ("len", parse_place(m.group(1)))
    m = re.fullmatch(r"(\w+)\((.*)\)", s)
    if m and m.group(1) in BINOPS:
        a = split_top(m.group(2))
        return ("binop", m.group(1), parse_operand(a[0]), parse_operand(a[1]))
    if m and m.group(1) in UNOPS:
        return ("unop", m.group(1), parse_operand(m.group(2)))
    # aggregates -----------------------------------------------------------------------------
    if s.startswith("(") and s.endswith(")"):
        inner = s[1:-1].strip()
        if inner == "":
            return ("aggregate", "tuple", None, [])
        parts = split_top(inner)
        return ("aggregate", "tuple", None, [parse_operand(p) for p in parts])
    if s.startswith("[") and s.endswith("]"):
        inner = s[1:-1].strip()
        if ";" in inner and not inner.startswith(("copy", "move", "const")) is False and re.search(r"; \d+$", inner):
            op, n = inner.rsplit(";", 1)
            return ("aggregate", "array", None, [parse_operand(op)] * min(int(n), 8))
        return ("aggregate", "array", None, [parse_operand(p) for p in split_top(inner)] if inner else [])
    m = re.fullmatch(r"(\{closure@[^}]*\})\s*(?:\{(.*)\})?", s)
    if m:
        caps = []
        if m.group(2) and m.group(2).strip():
            for p in split_top(m.group(2)):
                nm, v = p.split(":", 1)
                caps.append((nm.strip(), parse_operand(v)))
        return ("closure", m.group(1), caps)
    # Path::<T>::Variant(args) / Path { f: v } / Path (unit)
    if s.endswith(")") and re.match(r"[A-Za-z_<]", s):
        depth, k = 0, None
        for i in range(len(s) - 1, -1, -1):
            c = s[i]
            if c == ")":
                depth += 1
            elif c == "(":
                depth -= 1
                if depth == 0:
                    k = i
                    break
        if k is not None and k > 0:
            head, inner = s[:k].strip(), s[k + 1:-1]
            try:
                args = [parse_operand(p) for p in split_top(inner)] if inner.strip() else []
                return ("aggregate", "adt", head, args)
            except ValueError:
                pass
    m = re.fullmatch(r"([A-Za-z_][\w:<>,' &\[\]]*?)\s*\{(.*)\}", s)
    if m:
        fields = []
        for p in split_top(m.group(2)):
            nm, v = p.split(":", 1)
            fields.append((nm.strip(), parse_operand(v)))
        return ("aggregate", "struct", m.group(1).strip(), fields)
    if re.fullmatch(r"[A-Za-z_][\w:<>,' &\[\]\(\)]*", s):
        return ("aggregate", "adt", s, [])
    return ("unknown", s)


def parse_targets(s):
    """`[return: bb1, unwind: bb2]` / `[0: bb1, otherwise: bb2]` -> dict"""
    d = {}
    s = s.strip()
    if s.startswith("["):
        s = s[1:-1]
    for p in split_top(s):
        if ":" not in p:
            k, _, v = p.partition(" ")
        else:
            k, v = p.split(":", 1)
        v = v.strip()
        m = re.match(r"bb(\d+)", v)
        d[k.strip()] = int(m.group(1)) if m else v
    return d


def parse_terminator(s):
    s = s.strip().rstrip(";")
    if s == "return":
        return ("return",)
    if s == "unreachable":
        return ("unreachable",)
    if s.startswith("resume") or s.startswith("terminate"):
        return ("resume",)
    m = re.fullmatch(r"goto -> bb(\d+)", s)
    if m:
        return ("goto", int(m.group(1)))
    m = re.fullmatch(r"switchInt\((.*)\) -> (\[.*\])", s)
    if m:
        t = parse_targets(m.group(2))
        return ("switch", parse_operand(m.group(1)), t)
    m = re.fullmatch(r"drop\((.*)\) -> (\[.*\])", s)
    if m:
        return ("drop", parse_place(m.group(1)), parse_targets(m.group(2)))
    m = re.fullmatch(r"assert\((!?)(.*?), .*\) -> (\[.*\])", s)
    if m:
        return ("assert", m.group(1) == "!", parse_operand(m.group(2).split(",")[0]), parse_targets(m.group(3)))
    m = re.fullmatch(r"falseEdge -> \[real: bb(\d+).*", s)
    if m:
        return ("goto", int(m.group(1)))
    m = re.fullmatch(r"falseUnwind -> \[real: bb(\d+).*", s)
    if m:
        return ("goto", int(m.group(1)))
    # call: `DEST = CALLEE(ARGS) -> [targets]`   (diverging calls have `-> unwind ...` only)
    m = re.fullmatch(r"(.*?) = (.*)\((.*)\) -> (.*)", s, re.S)
    if m:
        dest, callee, args, targets = m.group(1), m.group(2), m.group(3), m.group(4)
        # the callee may itself contain parentheses (Fn<(A, B)>); re-split at the last top-level '('
        full = s[len(dest) + 3:]
        arrow = full.rfind(") -> ")
        call = full[:arrow + 1]
        targets = full[arrow + 5:]
        depth = 0
        k = None
        for i in range(len(call) - 1, -1, -1):
            c = call[i]
            if c == ")":
                depth += 1
            elif c == "(":
                depth -= 1
                if depth == 0:
                    k = i
                    break
        callee, args = call[:k].strip(), call[k + 1:-1]
        t = parse_targets(targets) if targets.strip().startswith("[") else {}
        argv = []
        for a in split_top(args):
            argv.append(parse_operand(a))
        return ("call", parse_place(dest), callee, argv, t)
    return ("unknown", s)


def parse_statement(s):
    s = s.strip().rstrip(";")
    if s in ("nop",) or s.startswith(("StorageLive", "StorageDead", "FakeRead", "PlaceMention", "AscribeUserType", "Retag", "Coverage", "ConstEvalCounter", "BackwardIncompatibleDropHint")):
        return ("nop",)
    m = re.fullmatch(r"discriminant\((.*)\) = (\d+)", s)
    if m:
        return ("setdiscr", parse_place(m.group(1)), int(m.group(2)))
    if s.startswith("assume("):
        return ("nop",)
    k = s.find(" = ")
    if k < 0:
        return ("unknown", s)
    try:
        return ("assign", parse_place(s[:k]), parse_rvalue(s[k + 3:]))
    except Exception as e:  # noqa
        return ("unknown", s)


_fn_head = re.compile(r"^fn (.+?)\((.*)\) -> (.*) \{\s*$")


def parse_mir(text):
    fns = {}
    lines = text.splitlines()
    i = 0
    n = len(lines)
    while i < n:
        ln = lines[i]
        if ln.startswith("const ") and ln.rstrip().endswith("= {"):
            j = i
            while j < n and lines[j] != "}":
                j += 1
            hdr = ln[len("const "):].rstrip()[:-len(" = {")]
            depth, cut = 0, None
            for k, ch in enumerate(hdr):
                if ch == "<":
                    depth += 1
                elif ch == ">" and hdr[k - 1] not in "-=":
                    depth -= 1
                elif ch == ":" and depth == 0 and hdr[k + 1:k + 2] == " " and hdr[k - 1] != ":":
                    cut = k
                    break
            m = (hdr[:cut], hdr[cut + 2:]) if cut is not None else None
            if m:
                body = ["fn %s() -> %s {" % (m[0], m[1])] + lines[i + 1:j + 1]
                f = parse_function(body)
                if f is not None:
                    f.is_const = True
                    fns.setdefault("const " + f.name, []).append(f)
            i = j + 1
            continue
        if ln.startswith("fn ") and ln.rstrip().endswith("{"):
            j = i
            while j < n and lines[j] != "}":
                j += 1
            body = lines[i:j + 1]
            f = parse_function(body)
            if f is not None:
                fns.setdefault(f.name, []).append(f)
            i = j + 1
        else:
            i += 1
    return fns


def parse_function(body):
    head = body[0]
    # name up to the first '(' that starts the parameter list: names may contain "<impl at ...>" with parens? (no)
    m = re.match(r"^fn (.*?)\((_1: .*|)\) -> (.*) \{\s*$", head)
    if not m:
        m = re.match(r"^fn (.*?)\(\) -> (.*) \{\s*$", head)
        if not m:
            return None
        name, params_s, ret = m.group(1), "", m.group(2)
    else:
        name, params_s, ret = m.group(1), m.group(2), m.group(3)
    params = []
    for p in split_top(params_s):
        mm = re.match(r"_(\d+): (.*)", p, re.S)
        if mm:
            params.append((int(mm.group(1)), mm.group(2).strip()))
    locals_ = {0: ret}
    for nmb, ty in params:
        locals_[nmb] = ty
    blocks = {}
    cur = None
    stmts = []
    for raw in body[1:]:
        ln = clean(raw)
        s = ln.strip()
        mm = re.match(r"let (?:mut )?_(\d+): (.*);$", s)
        if mm:
            locals_[int(mm.group(1))] = mm.group(2)
            continue
        mm = re.match(r"bb(\d+)(?: \(cleanup\))?: \{$", s)
        if mm:
            cur = int(mm.group(1))
            stmts = []
            continue
        if cur is None:
            continue
        if s == "}":
            if stmts:
                term = stmts[-1]
                blocks[cur] = (stmts[:-1], term)
            cur = None
            continue
        if not s or s.startswith("//"):
            continue
        stmts.append(s)
    pblocks = {}
    for b, (ss, term) in blocks.items():
        try:
            pt = parse_terminator(term)
        except Exception as e:  # noqa
            pt = ("unknown", term)
        pblocks[b] = ([parse_statement(x) for x in ss], pt)
    return Function(name, params, ret, locals_, pblocks, "\n".join(body))
