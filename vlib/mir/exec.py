"""Symbolic path executor over rustc MIR text (engine E3, DESIGN.md §3).

Values
  Sym(path, ty)     anything reachable from an argument of the function under test (references are transparent)
  Agg(...)          locally built enum / tuple / struct / closure values
  LRef(fid, place)  reference to a local place of frame `fid`
  Opaque(origin)    result of a call the executor does not interpret (token plumbing); keeps its provenance
  VecL / IterS / IterL   local vectors and slice iterators
  python bool/int, z3 Bool/Int expressions   scalars

A path ends with ('return', value) of the function under test, ('panic', callee) or ('stuck', reason).
Each path carries its path condition (z3 constraints over configuration atoms), the list of observation events and
the final values written through `&mut` arguments.
"""
import glob
import os
import re
import time

import z3

from . import parse

MAX_VISITS = 14
MAX_DEPTH = 14


class Sym:
    __slots__ = ("path", "ty")

    def __init__(self, path, ty=None):
        self.path = tuple(path)
        self.ty = ty

    def __repr__(self):
        return "Sym(%s)" % pstr(self.path)


class Agg:
    __slots__ = ("kind", "name", "variant", "fields", "extra")

    def __init__(self, kind, name, variant, fields, extra=None):
        self.kind, self.name, self.variant, self.fields, self.extra = kind, name, variant, list(fields), extra

    def __repr__(self):
        return "Agg(%s%s%s)" % (self.name or self.kind, "::" + self.variant if self.variant else "", self.fields if self.fields else "")


class LRef:
    __slots__ = ("fid", "place", "mut")

    def __init__(self, fid, place, mut=False):
        self.fid, self.place, self.mut = fid, place, mut

    def __repr__(self):
        return "LRef(%s,%s)" % (self.fid, self.place)


class Opaque:
    __slots__ = ("origin", "ty", "_lenvar")

    def __init__(self, origin, ty=None):
        self.origin, self.ty = origin, ty
        self._lenvar = None

    def __repr__(self):
        return "Opaque(%s)" % (self.origin,)


class VecL:
    __slots__ = ("items",)

    def __init__(self, items):
        self.items = list(items)

    def __repr__(self):
        return "VecL(%d)" % len(self.items)


class IterS:
    __slots__ = ("base", "idx", "enumerate")

    def __init__(self, base, idx=0, enumerate_=False):
        self.base, self.idx, self.enumerate = base, idx, enumerate_


class IterL:
    __slots__ = ("items", "idx")

    def __init__(self, items, idx=0):
        self.items, self.idx = list(items), idx


class FMap:
    """`iter.filter_map(closure)` / `iter.map(closure)` (lazy)"""
    __slots__ = ("it", "closure", "plain")

    def __init__(self, it, closure, plain=False):
        self.it, self.closure, self.plain = it, closure, plain


class FlatMap:
    """`iter.flat_map(closure)` (lazy): `cur` is the iterator the closure returned for the current outer element"""
    __slots__ = ("it", "closure", "cur")

    def __init__(self, it, closure, cur=None):
        self.it, self.closure, self.cur = it, closure, cur


class Uninit:
    def __repr__(self):
        return "Uninit"


UNINIT = Uninit()


def pstr(path):
    out = []
    for c in path:
        if isinstance(c, tuple):
            if c[0] == "as":
                out.append("<%s>" % c[1])
            elif c[0] == "idx":
                out.append("[%s]" % c[1])
            elif c[0] == "key":
                out.append("{%s}" % c[1])
            else:
                out.append(str(c))
        else:
            out.append(str(c))
    return ".".join(out)


# ---------------------------------------------------------------------------------------------
# type knowledge read from the sources (field names, enum variant orders)
# ---------------------------------------------------------------------------------------------
class TypeInfo:
    def __init__(self, repo):
        self.structs = {}  # name -> [field names]
        self.enums = {"Option": ["None", "Some"], "Result": ["Ok", "Err"], "ControlFlow": ["Continue", "Break"],
                      "Ordering": ["Less", "Equal", "Greater"]}
        self.impl_self = {}  # (file, line) -> (self type head, trait or None)
        files = sorted(glob.glob(os.path.join(repo, "derive-ex/src/**/*.rs"), recursive=True))
        for f in files:
            src = open(f).read()
            self._scan(src)
            rel = os.path.relpath(f, repo)
            for i, line in enumerate(src.splitlines(), 1):
                m = re.match(r"\s*(?:unsafe )?impl(?:<[^>]*>)?\s+(.*?)\s*(?:where.*)?\{?\s*$", line)
                if m and line.lstrip().startswith(("impl", "unsafe impl")):
                    body = m.group(1)
                    tr = None
                    if " for " in body:
                        tr, body = body.split(" for ", 1)
                    self.impl_self[(rel, i)] = (head_of(body), head_of(tr) if tr else None)
                # derives: `#[derive(Debug, Clone)]` impl location is the derive attribute; type follows
            # derive impls: location line:col of the derive ident; map by scanning following item
            lines = src.splitlines()
            for i, line in enumerate(lines, 1):
                if "#[derive(" in line:
                    # find the item name on the following lines
                    for j in range(i, min(i + 8, len(lines))):
                        m = re.match(r"\s*(?:pub(?:\([a-z]+\))? )?(?:struct|enum) (\w+)", lines[j])
                        if m:
                            self.impl_self[(rel, i, "derive")] = (m.group(1), None)
                            break
        # syn enums whose discriminants the macro inspects
        for crate in ("syn-2.*", "structmeta-0.*"):
            for d in glob.glob(os.path.expanduser("~/.cargo/registry/src/*/" + crate)):
                for f in glob.glob(os.path.join(d, "src/**/*.rs"), recursive=True):
                    try:
                        self._scan(open(f).read(), only_enums={"Expr", "Lit", "Fields", "Data", "Meta", "GenericParam", "Type", "Item", "PathArguments",
                                                               "GenericArgument", "ImplItem", "Member"}, structs_ok={"Flag", "ExprLit", "NameValue", "NameArgs", "Path", "PathSegment", "ItemStruct", "ItemEnum", "Field", "Variant"})
                    except OSError:
                        pass

    def _scan(self, src, only_enums=None, structs_ok=None):
        # strip comments
        src = re.sub(r"//[^\n]*", "", src)
        for m in re.finditer(r"\b(struct|enum)\s+(\w+)\s*(<[^{;(]*>)?\s*(where[^{;]*)?([\{\(;])", src):
            kind, name, opener = m.group(1), m.group(2), m.group(5)
            if kind == "enum" and only_enums is not None and name not in only_enums:
                continue
            if kind == "struct" and only_enums is not None and (structs_ok is None or name not in structs_ok):
                continue
            if opener == ";":
                if kind == "struct":
                    self.structs.setdefault(name, [])
                continue
            close = {"{": "}", "(": ")"}[opener]
            depth, i = 1, m.end()
            while i < len(src) and depth:
                c = src[i]
                if c == opener:
                    depth += 1
                elif c == close:
                    depth -= 1
                i += 1
            body = src[m.end():i - 1]
            items = parse.split_top(body)
            if kind == "struct":
                names = []
                for k, it in enumerate(items):
                    it = re.sub(r"#\[[^\]]*\]", "", it).strip()
                    it = re.sub(r"^pub(\([^)]*\))?\s+", "", it)
                    if opener == "{":
                        mm = re.match(r"(\w+)\s*:", it)
                        if mm:
                            names.append(mm.group(1))
                    else:
                        names.append(str(k))
                if name not in self.structs or only_enums is None:
                    self.structs[name] = names
            else:
                vs = []
                for it in items:
                    it = re.sub(r"#\[[^\]]*\]", "", it, flags=re.S).strip()
                    mm = re.match(r"(\w+)", it)
                    if mm:
                        vs.append(mm.group(1))
                if vs and (name not in self.enums or only_enums is None):
                    self.enums[name] = vs

    def variants(self, ty):
        h = head_of(ty)
        return self.enums.get(h)

    def field_name(self, ty, idx):
        h = head_of(ty)
        fs = self.structs.get(h)
        if fs and idx < len(fs):
            return fs[idx]
        return idx


def strip_ref(ty):
    if ty is None:
        return None
    ty = ty.strip()
    m = re.match(r"&(?:'\w+ )?(?:mut )?(.*)", ty)
    if m:
        return m.group(1).strip()
    return ty


def head_of(ty):
    """`&'a item_type::HelperAttributes` -> HelperAttributes ; `std::option::Option<syn::Expr>` -> Option"""
    if ty is None:
        return None
    ty = ty.strip()
    while ty.startswith("&"):
        ty = strip_ref(ty)
    ty = re.sub(r"^(mut |dyn )", "", ty)
    # cut generic arguments
    depth, out = 0, []
    for c in ty:
        if c == "<":
            depth += 1
        elif c == ">":
            depth -= 1
        elif depth == 0:
            out.append(c)
    ty = "".join(out)
    ty = re.sub(r"::$", "", ty.replace("::::", "::"))
    return ty.split("::")[-1].strip()


# ---------------------------------------------------------------------------------------------
class Frame:
    __slots__ = ("fid", "fn", "locals", "dest", "ret_block", "visits", "block")

    def __init__(self, fid, fn, dest, ret_block):
        self.fid, self.fn, self.locals, self.dest, self.ret_block, self.visits, self.block = fid, fn, {}, dest, ret_block, {}, 0

    def clone(self):
        f = Frame(self.fid, self.fn, self.dest, self.ret_block)
        f.locals = dict(self.locals)
        f.visits = dict(self.visits)
        f.block = self.block
        return f


class State:
    def __init__(self):
        self.frames = []
        self.mem = {}
        self.pc = []
        self.events = []
        self.next_fid = 0
        self.forks = 0
        self.stop_at = None  # eager closure evaluation on a copy of the caller's frames: stop when the stack is back at this depth

    def clone(self):
        s = State()
        s.stop_at = self.stop_at
        s.frames = [f.clone() for f in self.frames]
        s.mem = dict(self.mem)
        s.pc = list(self.pc)
        s.events = list(self.events)
        s.next_fid = self.next_fid
        s.forks = self.forks
        mc = getattr(self, "_mention_cache", None)
        if mc is not None:
            s._mention_cache = [mc[0], set(mc[1])]
        pa = getattr(self, "_pc_and", None)
        if pa is not None:
            s._pc_and = pa
        return s


class PathResult:
    def __init__(self, kind, value, state):
        self.kind, self.value = kind, value
        self.pc, self.events, self.mem = state.pc, state.events, state.mem
        self.frames = state.frames


class Inconclusive(Exception):
    pass


class Executor:
    def __init__(self, fns, tinfo, opaque_local=(), trace=(), max_paths=200000, slice_bound=2):
        self.fns = fns  # name -> [Function]
        self.ti = tinfo
        self.opaque_local = set(opaque_local)
        self.trace = set(trace)
        self.vars = {}  # name -> z3 var
        self.dom = {}  # int var name -> (lo, hi)
        self.domains = []  # global domain constraints for atoms
        self.solver = z3.Solver()
        self.solver.set("timeout", 5000)
        self.results = []
        self.max_paths = max_paths
        self.slice_bound = slice_bound
        self.stats = {"paths": 0, "forks": 0, "solver_checks": 0, "inlined": set(), "opaque_calls": set(), "unknown": set()}
        self.fresh = 0
        self.npre = 0
        self.check_panics = False  # C16: partial std callees (unwrap / expect / Index) fork a panic path instead of being opaque
        self.panic_checks = []  # (site, "sat" | "unsat"): solver verdicts on "can this panic site be reached here?"
        self._by_tail = {}
        for name, fl in fns.items():
            tail = name.split("::")[-1] if "{closure" not in name.split("::")[-1] else name
            self._by_tail.setdefault(name.rsplit(">::", 1)[-1] if ">::" in name else name, []).extend(fl)
        self.qual = {}
        for name, fl in fns.items():
            self.qual[name] = self.qualify(name)
        self._closure_by_sig = {}
        for name, fl in fns.items():
            for f in fl:
                if f.params and "{closure@" in f.params[0][1]:
                    m = re.search(r"\{closure@[^}]*\}", f.params[0][1])
                    self._closure_by_sig[m.group(0)] = f

    def qualify(self, name):
        """`compare_op::<impl at f:l:c: l:c>::verify` -> `HelperAttributeForCompareOp::verify` (self type read from the source line)"""
        parts = re.split(r"::(?![^<]*>)", name)
        out = []
        for p in parts:
            m = re.match(r"<impl at ([^:]+):(\d+):(\d+): \d+:\d+>", p)
            if m:
                key = (m.group(1), int(m.group(2)))
                st = self.ti.impl_self.get(key) or self.ti.impl_self.get(key + ("derive",))
                out = [st[0] if st else "?"]
                if st and st[1]:
                    out = ["<%s as %s>" % (st[0], st[1])]
            elif p in ("syn_utils", "bound", "common", "item_impl", "item_type", "compare_op") and not out and p != parts[-1]:
                continue  # module prefix
            else:
                out.append(p)
        return "::".join(out)

    # ---- z3 variables ---------------------------------------------------------------------
    def bvar(self, name):
        if name not in self.vars:
            self.vars[name] = z3.Bool(name)
        return self.vars[name]

    def ivar(self, name, lo=0, hi=None):
        if name not in self.vars:
            v = z3.Int(name)
            self.vars[name] = v
            self.dom[name] = (lo, hi)
            self.domains.append(v >= lo)
            self.solver.add(v >= lo)
            if hi is not None:
                self.domains.append(v <= hi)
                self.solver.add(v <= hi)
        return self.vars[name]

    def axiom(self, c):
        """a fact about modelled callees that holds on every path (e.g. `s.ends_with(t)` implies `len(s) >= len(t)`)"""
        self.domains.append(c)
        self.solver.add(c)

    def fresh_name(self, tag):
        self.fresh += 1
        return "%s#%d" % (tag, self.fresh)

    def _vars_of(self, e, acc=None):
        acc = set() if acc is None else acc
        if z3.is_const(e) and e.decl().kind() == z3.Z3_OP_UNINTERPRETED:
            acc.add(e.decl().name())
        else:
            for c in e.children():
                self._vars_of(c, acc)
        return acc

    def _mentioned(self, state):
        """names of the variables constrained so far on this path (cached incrementally on the state)"""
        cache = getattr(state, "_mention_cache", None)
        if cache is None or cache[0] > len(state.pc):
            cache = [0, set()]
        n, names = cache
        for c in state.pc[n:]:
            if z3.is_expr(c):
                self._vars_of(c, names)
        cache = [len(state.pc), names]
        state._mention_cache = cache
        return names

    def _trivially_feasible(self, state, extra):
        """a literal on a variable that no constraint of the path mentions yet is satisfiable by itself (domains permitting)"""
        if not z3.is_expr(extra):
            return False
        e = extra
        neg = False
        if z3.is_not(e):
            e, neg = e.children()[0], True
        if z3.is_const(e) and e.decl().kind() == z3.Z3_OP_UNINTERPRETED and z3.is_bool(e):
            return e.decl().name() not in self._mentioned(state)
        if z3.is_eq(e):
            a, b = e.children()
            if z3.is_int_value(a):
                a, b = b, a
            if z3.is_const(a) and a.decl().kind() == z3.Z3_OP_UNINTERPRETED and z3.is_int_value(b):
                nm = a.decl().name()
                if nm in self._mentioned(state):
                    return False
                lo, hi = self.dom.get(nm, (None, None))
                k = b.as_long()
                if neg:
                    return lo is None or hi is None or hi > lo or k != lo
                return (lo is None or k >= lo) and (hi is None or k <= hi)
        return False

    def feasible(self, state, extra):
        if self._trivially_feasible(state, extra):
            self.stats["fast_feasible"] = self.stats.get("fast_feasible", 0) + 1
            return True
        self.stats["solver_checks"] += 1
        # the path condition is passed as assumptions: nothing is re-asserted, the solver keeps only the domain constraints
        cache = getattr(state, "_pc_and", None)
        if cache is None or cache[0] > len(state.pc) or cache[0] < self.npre:
            cache = (self.npre, z3.BoolVal(True))
        n, conj = cache
        for c in state.pc[n:]:
            conj = z3.And(conj, c if z3.is_expr(c) else z3.BoolVal(bool(c)))
        state._pc_and = (len(state.pc), conj)
        r = self.solver.check(conj, extra if z3.is_expr(extra) else z3.BoolVal(bool(extra)))
        if r == z3.unknown:
            self.stats.setdefault("solver_unknown", []).append([str(c)[:200] for c in state.pc[-4:]] + [str(extra)[:300]])
        return r != z3.unsat

    # ---- naming of symbolic paths -----------------------------------------------------------
    def project(self, sym, idx, ty):
        nm = self.ti.field_name(strip_ref(sym.ty) if sym.ty else None, idx)
        return Sym(sym.path + (nm,), ty)

    def scalar_of(self, state, v, ty=None):
        """turn a value used in a scalar context into python / z3"""
        if isinstance(v, (bool, int)) or z3.is_expr(v):
            return v
        if isinstance(v, Sym):
            if v.path in state.mem:
                return self.scalar_of(state, state.mem[v.path], ty)
            t = strip_ref(v.ty or ty or "")
            name = pstr(v.path)
            if t == "bool":
                return self.bvar(name)
            return self.ivar(name)
        if isinstance(v, Opaque):
            t = (v.ty or ty or "").strip()
            if t == "bool":
                return self.bvar(self.fresh_name("opaque-bool(%s)" % self._origin_str(v.origin)[:120]))
            return self.ivar(self.fresh_name("opaque-int(%s)" % (v.origin[0] if isinstance(v.origin, tuple) else v.origin)))
        if isinstance(v, LRef):
            return self.scalar_of(state, self.read_lref(state, v), ty)
        raise Inconclusive("scalar of %r" % (v,))

    # ---- places -----------------------------------------------------------------------------
    def frame_by_id(self, state, fid):
        for f in state.frames:
            if f.fid == fid:
                return f
        raise Inconclusive("dangling local reference")

    def read_lref(self, state, r):
        return self.read_place(state, self.frame_by_id(state, r.fid), r.place)

    def read_place(self, state, frame, place):
        k = place[0]
        if k == "local":
            return frame.locals.get(place[1], UNINIT)
        if k == "deref":
            v = self.read_place(state, frame, place[1])
            return self.deref(state, v)
        if k == "field":
            v = self.read_place(state, frame, place[1])
            return self.field_of(state, v, place[2], place[3])
        if k == "downcast":
            v = self.read_place(state, frame, place[1])
            if isinstance(v, LRef):
                v = self.read_lref(state, v)
            if isinstance(v, Sym):
                return Sym(v.path + (("as", place[2]),), v.ty)
            return v
        if k in ("index", "constidx"):
            v = self.read_place(state, frame, place[1])
            if isinstance(v, LRef):
                v = self.read_lref(state, v)
            i = place[2] if k == "constidx" else self.eval_operand(state, frame, place[2])
            if isinstance(v, Sym):
                if isinstance(i, int):
                    return Sym(v.path + (("idx", i),), elem_ty(v.ty))
                return Sym(v.path + (("idx", str(i)),), elem_ty(v.ty))
            if isinstance(v, (VecL,)) and isinstance(i, int) and i < len(v.items):
                return v.items[i]
            if isinstance(v, Agg) and isinstance(i, int) and i < len(v.fields):
                return v.fields[i]
            return Opaque(("index",), None)
        raise Inconclusive("place kind " + k)

    def deref(self, state, v):
        if isinstance(v, LRef):
            return self.read_lref(state, v)
        if isinstance(v, Sym):
            s = Sym(v.path, strip_ref(v.ty) if v.ty and v.ty.strip().startswith("&") else v.ty)
            if s.path in state.mem:
                return state.mem[s.path]
            return s
        return v

    def field_of(self, state, v, idx, ty):
        if isinstance(v, LRef):
            v = self.read_lref(state, v)
        if isinstance(v, Sym):
            s = self.project(v, idx, ty)
            if s.path in state.mem:
                return state.mem[s.path]
            return s
        if isinstance(v, Agg):
            if idx < len(v.fields):
                return v.fields[idx]
            return Opaque(("field-of-agg",), ty)
        if isinstance(v, Opaque):
            return Opaque(("field", v.origin, idx), ty)
        if v is UNINIT:
            return Opaque(("uninit-field",), ty)
        if isinstance(v, (VecL, IterS, IterL)):
            return Opaque(("field-of-container",), ty)
        raise Inconclusive("field of %r" % (v,))

    def write_place(self, state, frame, place, val):
        k = place[0]
        if k == "local":
            frame.locals[place[1]] = val
            return
        if k == "deref":
            tgt = self.read_place(state, frame, place[1])
            if isinstance(tgt, LRef):
                self.write_place(state, self.frame_by_id(state, tgt.fid), tgt.place, val)
            elif isinstance(tgt, Sym):
                p = Sym(tgt.path, strip_ref(tgt.ty)).path
                state.mem[p] = val
            return
        if k == "field":
            base = self.read_place(state, frame, place[1])
            if isinstance(base, LRef):
                f2 = self.frame_by_id(state, base.fid)
                self.write_place(state, f2, ("field", base.place, place[2], place[3]), val)
                return
            if isinstance(base, Sym):
                state.mem[self.project(base, place[2], place[3]).path] = val
                return
            if isinstance(base, Agg):
                fields = list(base.fields)
                while len(fields) <= place[2]:
                    fields.append(UNINIT)
                fields[place[2]] = val
                self.write_place(state, frame, place[1], Agg(base.kind, base.name, base.variant, fields, base.extra))
                return
            if base is UNINIT:
                fields = [UNINIT] * (place[2] + 1)
                fields[place[2]] = val
                self.write_place(state, frame, place[1], Agg("struct", None, None, fields))
                return
            return  # opaque: ignore
        if k == "downcast":
            self.write_place(state, frame, place[1], val)
            return
        if k in ("index", "constidx"):
            return
        raise Inconclusive("write place " + k)

    # ---- operands / rvalues -----------------------------------------------------------------
    def eval_operand(self, state, frame, op):
        if op[0] in ("copy", "move"):
            return self.read_place(state, frame, op[1])
        if op[0] == "const":
            return self.const(op[1])
        raise Inconclusive("operand")

    def const(self, s):
        s = s.strip()
        if s == "true":
            return True
        if s == "false":
            return False
        if s == "()":
            return Agg("tuple", None, None, [])
        m = re.fullmatch(r"(-?\d+)_?(?:[iu](?:8|16|32|64|128|size))?", s)
        if m:
            return int(m.group(1))
        m = re.fullmatch(r'"((?:[^"\\]|\\.)*)"', s)
        if m:
            return Agg("str", None, None, [], extra=m.group(1))
        m = re.fullmatch(r'b"((?:[^"\\]|\\.)*)"', s)
        if m:
            return Agg("bytes", None, None, [], extra=m.group(1))
        m = re.fullmatch(r"([\w:<>]+)::(\w+)", s)
        if m and self.ti.variants(m.group(1)) and m.group(2) in self.ti.variants(m.group(1)):
            return Agg("adt", head_of(m.group(1)), m.group(2), [])
        m = re.match(r"ZeroSized: (\{closure@[^}]*\})", s)
        if m:
            return Agg("closure", m.group(1), None, [])
        v = self.eval_const(s)
        if v is not None:
            return v
        return Opaque(("const", s[:60]), None)

    def eval_const(self, s):
        """constants with a MIR body (associated consts, promoteds): evaluate the body once"""
        if not hasattr(self, "_const_cache"):
            self._const_cache = {}
            self._const_by_tail = {}
            for name, fl in self.fns.items():
                if name.startswith("const "):
                    nm = name[6:]
                    parts = [p for p in nm.split("::") if not p.startswith("<impl at") and " " not in p]
                    for k in (1, 2, 3):
                        lst = self._const_by_tail.setdefault("::".join(parts[-k:]), [])
                        if not any(x is fl[0] for x in lst):
                            lst.append(fl[0])
        key = s.split(" ")[0]
        if key in self._const_cache:
            return self._const_cache[key]
        parts = key.split("::")
        f = None
        for k in (3, 2, 1):
            c = self._const_by_tail.get("::".join(parts[-k:]), [])
            if len(c) == 1:
                f = c[0]
                break
            if len(c) > 1 and k > 1:
                f = c[0]
                break
        if f is None:
            return None
        sub = Executor(self.fns, self.ti, opaque_local=self.opaque_local, trace=())
        sub._const_cache = self._const_cache
        sub._const_by_tail = self._const_by_tail
        try:
            res = sub.run(f, [])
        except Inconclusive:
            return None
        if len(res) != 1 or res[0].kind != "return":
            return None
        v = res[0].value
        self._const_cache[key] = v
        return v

    def variant_index(self, name, variant):
        vs = self.ti.enums.get(name)
        if vs and variant in vs:
            return vs.index(variant)
        return None

    def discriminant(self, state, v, ty):
        if isinstance(v, LRef):
            v = self.read_lref(state, v)
        if isinstance(v, Agg):
            if v.kind == "adt":
                i = self.variant_index(v.name, v.variant)
                if i is not None:
                    return i
            raise Inconclusive("discriminant of %r" % (v,))
        if isinstance(v, Sym):
            vs = self.ti.variants(strip_ref(v.ty)) if v.ty else None
            if vs is None and ty:
                vs = self.ti.variants(ty)
            return self.ivar("disc(%s)" % pstr(v.path), 0, len(vs) - 1 if vs else None)
        if isinstance(v, Opaque):
            vs = self.ti.variants(v.ty or ty) if (v.ty or ty) else None
            return self.ivar(self.fresh_name("disc-opaque(%s)" % (v.origin[0] if isinstance(v.origin, tuple) else v.origin)), 0, len(vs) - 1 if vs else None)
        raise Inconclusive("discriminant of %r" % (v,))

    def eval_rvalue(self, state, frame, rv, dest_ty=None):
        k = rv[0]
        if k == "use":
            return self.eval_operand(state, frame, rv[1])
        if k == "ref":
            place = rv[1]
            # a reference to something reachable from an argument is that Sym itself; to a local: LRef
            root = place
            through_deref = False
            while root[0] != "local":
                if root[0] == "deref":
                    through_deref = True
                root = root[1]
            if through_deref:
                v = self.read_place(state, frame, place)
                if isinstance(v, Sym) or isinstance(v, (bool, int)) or z3.is_expr(v):
                    # keep the location for &mut scalars reachable from arguments
                    loc = self.sym_location(state, frame, place)
                    return loc if loc is not None else v
                if isinstance(v, Opaque):
                    return v
                # reference into a local reached through another reference
                tgt = self.resolve_local_place(state, frame, place)
                if tgt is not None:
                    if len(rv) > 2 and isinstance(tgt, LRef) and not tgt.mut:
                        tgt = LRef(tgt.fid, tgt.place, True)
                    return tgt
                return v
            return LRef(frame.fid, place, len(rv) > 2)
        if k == "discriminant":
            v = self.read_place(state, frame, rv[1])
            return self.discriminant(state, v, self.place_type(frame, rv[1]))
        if k == "aggregate":
            _, akind, name, args = rv
            if akind == "tuple":
                return Agg("tuple", None, None, [self.eval_operand(state, frame, a) for a in args])
            if akind == "array":
                return Agg("array", None, None, [self.eval_operand(state, frame, a) for a in args])
            if akind == "struct":
                return Agg("struct", head_of(name), None, [self.eval_operand(state, frame, a) for _, a in args])
            # adt: Path::Variant(args) or struct-like tuple ctor
            base = re.sub(r"::<[^()]*?>(?=::|$)", "", name)
            parts = split_path(name)
            variant = parts[-1]
            tyname = head_of("::".join(parts[:-1])) if len(parts) > 1 else None
            vals = [self.eval_operand(state, frame, a) for a in args]
            if tyname and self.ti.enums.get(tyname) and variant in self.ti.enums[tyname]:
                return Agg("adt", tyname, variant, vals)
            return Agg("adt", head_of(name), None, vals)
        if k == "closure":
            return Agg("closure", rv[1], None, [self.eval_operand(state, frame, a) for _, a in rv[2]])
        if k == "cast":
            return self.eval_operand(state, frame, rv[1])
        if k == "binop":
            a = self.scalar_of(state, self.eval_operand(state, frame, rv[2]))
            b = self.scalar_of(state, self.eval_operand(state, frame, rv[3]))
            if rv[1].endswith("WithOverflow"):
                # rustc's checked arithmetic: (wrapped result, overflowed?) - integers are mathematical here, so the flag is a range test on the exact result
                if not all(isinstance(x, int) or (z3.is_expr(x) and z3.is_int(x)) for x in (a, b)):
                    raise Inconclusive("checked arithmetic on values the executor cannot evaluate")
                res = binop(rv[1][:-len("WithOverflow")], a, b)
                m = re.match(r"\(\s*([iu])(\d+|size)", (dest_ty or "").strip())
                signed, bits = (m.group(1) == "i", 64 if m.group(2) == "size" else int(m.group(2))) if m else (False, 64)
                lo, hi = (-(2 ** (bits - 1)), 2 ** (bits - 1) - 1) if signed else (0, 2 ** bits - 1)
                ovf = (res < lo or res > hi) if isinstance(res, int) else z3.Or(res < lo, res > hi)
                return Agg("tuple", None, None, [res, ovf])
            return binop(rv[1], a, b)
        if k == "unop":
            a = self.eval_operand(state, frame, rv[2])
            if rv[1] == "Not":
                a = self.scalar_of(state, a, "bool")
                return (not a) if isinstance(a, bool) else z3.Not(a)
            if rv[1] == "Neg":
                a = self.scalar_of(state, a)
                return -a
            if rv[1] == "PtrMetadata":
                return self.length(state, a)
            return Opaque(("unop", rv[1]), dest_ty)
        if k == "len":
            v = self.read_place(state, frame, rv[1])
            return self.length(state, v)
        raise Inconclusive("rvalue %s" % (rv,))

    def sym_location(self, state, frame, place):
        """the Sym naming `place` when it is reachable from an argument (ignoring memory overrides)"""
        k = place[0]
        if k == "local":
            v = frame.locals.get(place[1])
            return v if isinstance(v, Sym) else None
        if k == "deref":
            v = self.sym_location(state, frame, place[1])
            if v is None:
                b = self.read_place(state, frame, place[1])
                return Sym(b.path, strip_ref(b.ty)) if isinstance(b, Sym) else None
            return Sym(v.path, strip_ref(v.ty))
        if k == "field":
            v = self.sym_location(state, frame, place[1])
            return self.project(v, place[2], place[3]) if v is not None else None
        if k == "downcast":
            v = self.sym_location(state, frame, place[1])
            return Sym(v.path + (("as", place[2]),), v.ty) if v is not None else None
        return None

    def resolve_local_place(self, state, frame, place):
        """place that goes through an LRef: express it as an LRef into the owning frame"""
        k = place[0]
        if k == "local":
            return LRef(frame.fid, place)
        if k == "deref":
            b = self.read_place(state, frame, place[1])
            if isinstance(b, LRef):
                return b
            return None
        if k in ("field", "downcast"):
            b = self.resolve_local_place(state, frame, place[1])
            if b is None:
                return None
            if k == "field":
                return LRef(b.fid, ("field", b.place, place[2], place[3]))
            return LRef(b.fid, ("downcast", b.place, place[2]))
        return None

    def place_type(self, frame, place):
        if place[0] == "local":
            return frame.fn.locals.get(place[1])
        if place[0] == "deref":
            return strip_ref(self.place_type(frame, place[1]))
        if place[0] == "field":
            return place[3]
        if place[0] == "downcast":
            return self.place_type(frame, place[1])
        return None

    def length(self, state, v):
        if isinstance(v, LRef):
            v = self.read_lref(state, v)
        if isinstance(v, VecL):
            return len(v.items)
        if isinstance(v, Agg) and v.kind in ("array", "tuple"):
            return len(v.fields)
        if isinstance(v, Sym):
            if isinstance(state.mem.get(v.path), VecL):
                return len(state.mem[v.path].items)
            return self.ivar("len(%s)" % pstr(v.path), 0, self.slice_bound)
        # a value the executor does not look into: its length is unknown but it is *one* length (asking twice must give the same answer)
        if isinstance(v, Opaque):
            if getattr(v, "_lenvar", None) is None:
                v._lenvar = self.ivar(self.fresh_name("len-opaque"), 0, self.slice_bound)
            return v._lenvar
        return self.ivar(self.fresh_name("len-opaque"), 0, self.slice_bound)

    # ---- summaries for events -----------------------------------------------------------------
    def summ(self, state, v, depth=0):
        if depth > 3:
            return "..."
        if isinstance(v, LRef):
            try:
                return self.summ(state, self.read_lref(state, v), depth + 1)
            except Inconclusive:
                return "lref"
        if isinstance(v, Sym):
            if v.path in state.mem:
                return self.summ(state, state.mem[v.path], depth + 1)
            return "sym:" + pstr(v.path)
        if isinstance(v, Agg):
            if v.kind == "str":
                return "str:" + (v.extra or "")
            if v.kind == "bytes":
                return "bytes:" + (v.extra or "")
            return "agg:%s%s(%s)" % (v.name or v.kind, "::" + v.variant if v.variant else "", ",".join(self.summ(state, f, depth + 1) for f in v.fields))
        if isinstance(v, Opaque):
            return "opaque:" + self._origin_str(v.origin)
        if isinstance(v, VecL):
            return "vec[%s]" % ",".join(self.summ(state, f, depth + 1) for f in v.items)
        if z3.is_expr(v):
            return "z3:" + str(v)
        return repr(v)

    def _origin_str(self, o, depth=0):
        if not isinstance(o, tuple):
            return str(o)
        if len(o) > 2 and o[0] == "call":
            return "%s(%s)" % (o[1], ",".join(str(x) for x in o[2]))
        if len(o) == 2 and o[0] in ("ok-of", "err-of", "some-of") and depth < 3:
            return "%s(%s)" % (o[0], self._origin_str(o[1], depth + 1))
        if len(o) == 3 and o[0] == "field" and depth < 3:
            return "field%s(%s)" % (o[2], self._origin_str(o[1], depth + 1))
        return str(o[0])

    # ---- callee resolution ----------------------------------------------------------------------
    def resolve(self, callee, args, state):
        """-> ('local', Function) | ('model', name) | ('opaque', name)"""
        c = callee.strip()
        m = re.search(r"\{closure@[^}]*\}", c)
        if m and re.search(r"as (?:std::ops::|core::ops::)?Fn(?:Mut|Once)?<", c):
            return ("closure-call", m.group(0))
        norm = normalize_callee(c)
        if norm in PANIC_ONLY_MODELS and not self.check_panics:
            return ("opaque", norm)
        if norm in MODELS:
            return ("model", norm)
        if re.match(r"^Iterator::\w+::next$", norm):
            return ("model", "Iterator::Iter::next")
        if re.match(r"^Iterator::\w+::(nth|count)$", norm):
            return ("model", "Iterator::Iter::" + norm.rsplit("::", 1)[1])
        if re.match(r"^Iterator::\w+::(find_map|try_for_each|any|all|for_each|find|position)$", norm):
            return ("model", "Iterator::Iter::fold-like")
        if re.match(r"^Iterator::\w+::(rev|cloned|copied|enumerate)$", norm):
            return ("model", "Iterator::adaptor::" + norm.rsplit("::", 1)[1])
        if re.match(r"^Iterator::\w+::filter_map$", norm):
            return ("model", "Iterator::adaptor::filter_map")
        if re.match(r"^Iterator::\w+::filter$", norm):
            return ("model", "Iterator::adaptor::filter")
        if re.match(r"^Iterator::\w+::map$", norm):
            return ("model", "Iterator::adaptor::map")
        if re.match(r"^Iterator::\w+::flat_map$", norm):
            return ("model", "Iterator::adaptor::flat_map")
        if norm in ("Iterator::FilterMap::collect", "Iterator::Map::collect", "Iterator::FlatMap::collect", "Iterator::Filter::collect"):
            return ("model", "Iterator::FilterMap::collect")
        if norm in ("RepAsIteratorExt::Map::quote_into_iter", "RepAsIteratorExt::FilterMap::quote_into_iter", "Map::quote_into_iter", "FilterMap::quote_into_iter"):
            return ("model", "RepAsIteratorExt::Vec::quote_into_iter")
        if re.match(r"^Index::(Vec|slice)::index$", norm):
            return ("model", "Index::Vec::index")
        if re.match(r"^IntoIterator::\w+::into_iter$", norm) or re.match(r"^\w+::(iter|iter_mut)$", norm):
            return ("model", "IntoIterator::slice::into_iter")
        tail = norm.split("::")[-1]
        tyhead = norm.split("::")[-2] if "::" in norm else None
        cands = self._by_tail.get(tail, [])
        if tyhead is None:
            for f in cands:
                if f.name == norm or f.name.endswith("::" + norm) or f.name == tail:
                    if "<impl at" not in f.name:
                        return ("local", f)
        else:
            best = None
            for f in cands:
                mm = re.search(r"<impl at ([^:]+):(\d+):(\d+): \d+:\d+>::" + re.escape(tail) + "$", f.name)
                if not mm:
                    continue
                key = (mm.group(1), int(mm.group(2)))
                st = self.ti.impl_self.get(key) or self.ti.impl_self.get(key + ("derive",))
                if st and st[0] == tyhead:
                    # trait impls: `<T as Trait>::m` normalises to T::m; accept
                    best = f
                    break
            if best is not None:
                return ("local", best)
        return ("opaque", norm)

    # ---- main loop ----------------------------------------------------------------------------------
    def run(self, fn, arg_values, pre=(), mem=None):
        st = State()
        if mem:
            st.mem.update(mem)
        fr = Frame(0, fn, None, None)
        st.next_fid = 1
        for (n, ty), v in zip(fn.params, arg_values):
            fr.locals[n] = v
        st.frames.append(fr)
        st.pc = list(pre)
        self.npre = len(st.pc)
        self.solver.push()
        for c in st.pc:
            self.solver.add(c)
        self.results = []
        work = [st]
        self._deadline = time.time() + float(os.environ.get("VERIF_E3_RUN_BUDGET", "300"))
        try:
            return self._run_loop(work)
        finally:
            self.solver.pop()
            self.npre = 0

    def _run_loop(self, work):
        while work:
            s = work.pop()
            if self.stats["paths"] >= self.max_paths:
                raise Inconclusive("path budget exhausted")
            if getattr(self, "_deadline", None) and time.time() > self._deadline and not getattr(s, "stop_at", None):
                raise Inconclusive("time budget of one symbolic run exhausted (%d paths so far)" % self.stats["paths"])
            try:
                self.step_until_fork(s, work)
            except Inconclusive as e:
                self.results.append(PathResult("stuck", str(e), s))
                self.stats["paths"] += 1
        return self.results

    def deep_resolve(self, state, v, depth=0):
        """replace references to locals by the values they point to (used when the last frame returns)"""
        if depth > 6:
            return v
        if isinstance(v, LRef):
            try:
                return self.deep_resolve(state, self.read_lref(state, v), depth + 1)
            except Inconclusive:
                return Opaque(("dangling",), None)
        if isinstance(v, Agg) and v.fields:
            return Agg(v.kind, v.name, v.variant, [self.deep_resolve(state, f, depth + 1) for f in v.fields], v.extra)
        return v

    def finish(self, state, kind, value):
        self.results.append(PathResult(kind, value, state))
        self.stats["paths"] += 1

    def step_until_fork(self, state, work):
        while True:
            frame = state.frames[-1]
            blk = frame.fn.blocks.get(frame.block)
            if blk is None:
                raise Inconclusive("missing block bb%d in %s" % (frame.block, frame.fn.name))
            frame.visits[frame.block] = frame.visits.get(frame.block, 0) + 1
            if frame.visits[frame.block] > MAX_VISITS:
                raise Inconclusive("loop bound exceeded in %s" % frame.fn.name)
            stmts, term = blk
            for s in stmts:
                if s[0] == "nop":
                    continue
                if s[0] == "assign":
                    val = self.eval_rvalue(state, frame, s[2], self.place_type(frame, s[1]))
                    self.write_place(state, frame, s[1], val)
                elif s[0] == "setdiscr":
                    pass
                else:
                    self.stats["unknown"].add(s[1][:80])
                    raise Inconclusive("unknown statement in %s: %s" % (frame.fn.name, s[1][:80]))
            k = term[0]
            if k == "goto":
                frame.block = term[1]
                continue
            if k == "drop":
                frame.block = term[2]["return"]
                continue
            if k == "assert":
                # `assert(cond == expected)`: the failing side is a panic path of its own (bounds checks; overflow checks are off in the dump)
                try:
                    c = self.scalar_of(state, self.eval_operand(state, frame, term[2]), "bool")
                except Inconclusive:
                    c = None
                if c is not None and not isinstance(c, bool):
                    ok = z3.Not(c) if term[1] else c
                    bad = c if term[1] else z3.Not(c)
                    bad_feasible = self.feasible(state, bad)
                    self.panic_checks.append(("assert in " + self.qual.get(frame.fn.name, frame.fn.name), "sat" if bad_feasible else "unsat"))
                    if bad_feasible:
                        s2 = state.clone()
                        s2.pc.append(bad)
                        self.finish(s2, "panic", "assertion failed in " + self.qual.get(frame.fn.name, frame.fn.name))
                        if not self.feasible(state, ok):
                            return
                        state.pc.append(ok)
                elif isinstance(c, bool) and (c == bool(term[1])):
                    self.finish(state, "panic", "assertion failed in " + self.qual.get(frame.fn.name, frame.fn.name))
                    return
                elif c is None and self.check_panics:
                    raise Inconclusive("assert on a condition the executor cannot evaluate in " + self.qual.get(frame.fn.name, frame.fn.name))
                frame.block = term[3]["success"]
                continue
            if k == "return":
                ret = frame.locals.get(0, Agg("tuple", None, None, []))
                if len(state.frames) == 1:
                    ret = self.deep_resolve(state, ret)
                state.frames.pop()
                if not state.frames or (state.stop_at is not None and len(state.frames) == state.stop_at):
                    self.finish(state, "return", ret)
                    return
                if getattr(self, "trace_returns", None):
                    short = self.qual.get(frame.fn.name, frame.fn.name)
                    if short in self.trace_returns:
                        state.events.append(("ret:" + short, [self.summ(state, ret)]))
                caller = state.frames[-1]
                if frame.dest is not None:
                    self.write_place(state, caller, frame.dest, ret)
                caller.block = frame.ret_block
                continue
            if k in ("unreachable", "resume"):
                self.finish(state, "panic", "unreachable in " + frame.fn.name)
                return
            if k == "switch":
                v = self.eval_operand(state, frame, term[1])
                v = self.scalar_of(state, v, self.place_type(frame, term[1][1]) if term[1][0] != "const" else None)
                targets = term[2]
                if isinstance(v, (bool, int)):
                    iv = int(v)
                    tgt = targets.get(str(iv), targets.get("otherwise"))
                    frame.block = tgt
                    continue
                # symbolic: fork
                branches = []
                vals = []
                for key, tgt in targets.items():
                    if key == "otherwise":
                        continue
                    n = int(key)
                    vals.append(n)
                    cond = (v if n != 0 else z3.Not(v)) if z3.is_bool(v) else (v == n)
                    branches.append((cond, tgt))
                if "otherwise" in targets:
                    if z3.is_bool(v):
                        conds = []
                        if 0 in vals:
                            conds.append(v)  # otherwise = true
                            cond = v
                        else:
                            cond = z3.BoolVal(True)
                        if 0 in vals and 1 in vals:
                            cond = z3.BoolVal(False)
                    else:
                        cond = z3.And([v != n for n in vals]) if vals else z3.BoolVal(True)
                    branches.append((cond, targets["otherwise"]))
                feas = [(c, t) for c, t in branches if self.feasible(state, c)]
                if not feas:
                    raise Inconclusive("no feasible branch")
                self.stats["forks"] += len(feas) - 1
                for c, t in feas[1:]:
                    s2 = state.clone()
                    s2.pc.append(c)
                    s2.frames[-1].block = t
                    work.append(s2)
                state.pc.append(feas[0][0])
                frame.block = feas[0][1]
                continue
            if k == "call":
                _, dest, callee, argops, targets = term
                args = [self.eval_operand(state, frame, a) for a in argops]
                ret_block = targets.get("return")
                cont = self.do_call(state, frame, dest, callee, args, ret_block, work)
                if cont == "done":
                    return
                continue
            if k == "unknown":
                self.stats["unknown"].add(term[1][:80])
                raise Inconclusive("unknown terminator in %s: %s" % (frame.fn.name, term[1][:80]))
            raise Inconclusive("terminator " + k)

    # ---- calls ------------------------------------------------------------------------------------------
    def do_call(self, state, frame, dest, callee, args, ret_block, work):
        kind, target = self.resolve(callee, args, state)
        name = target.name if kind == "local" else target
        short = self.qual.get(name, name) if kind == "local" else normalize_callee(callee)
        if short in self.trace:
            state.events.append((short, [self.summ(state, a) for a in args]))
        if ret_block is None:
            # diverging call (panic / unreachable!/ unwrap failed ...)
            self.finish(state, "panic", normalize_callee(callee) + " in " + self.qual.get(frame.fn.name, frame.fn.name))
            return "done"
        if kind == "local" and short not in self.opaque_local and len(state.frames) < MAX_DEPTH:
            self.stats["inlined"].add(short)
            self.push_frame(state, target, args, dest, ret_block)
            return "cont"
        if kind == "closure-call":
            f = self._closure_by_sig.get(target)
            if f is None:
                raise Inconclusive("closure body not found: " + target)
            env = args[0]
            tup = args[1] if len(args) > 1 else Agg("tuple", None, None, [])
            if isinstance(tup, LRef):
                tup = self.read_lref(state, tup)
            cargs = [env] + (list(tup.fields) if isinstance(tup, Agg) else [tup])
            self.stats["inlined"].add(self.qual.get(f.name, f.name))
            self.push_frame(state, f, cargs, dest, ret_block)
            return "cont"
        if kind == "model":
            return MODELS[target](self, state, frame, dest, args, ret_block, work, callee)
        # opaque
        self.stats["opaque_calls"].add(normalize_callee(callee))
        for a in args:
            if isinstance(a, LRef) and a.mut:
                self.havoc(state, a, normalize_callee(callee))
        dty = self.place_type(frame, dest)
        val = Opaque(("call", normalize_callee(callee), tuple(self.summ(state, a)[:120] for a in args)), dty)
        if not args and getattr(self, "unique_streams", False) and normalize_callee(callee) == "TokenStream::new":
            # token streams as objects: each `TokenStream::new()` gets an identity, so that where a stream ends up can be followed
            self.fresh += 1
            val = Opaque(("call", "TokenStream::new", ("#%d" % self.fresh,)), dty)
        if short in getattr(self, "sym_returns", ()):
            # the result of this callee is an input of the obligation: a symbolic value of the declared type, rooted at the given name
            val = Sym((self.sym_returns[short],), dty)
        if dty and dty.strip() == "bool" and short in getattr(self, "pure_fns", ()):
            # an uninterpreted predicate of its arguments: the same call answers the same
            val = self.bvar("pure:%s(%s)" % (short, ",".join(self.summ(state, a)[:80] for a in args)))
        elif dty and dty.strip() == "bool":
            val = self.bvar(self.fresh_name("ret(%s)" % normalize_callee(callee)))
        elif dty and dty.strip() == "()":
            val = Agg("tuple", None, None, [])
        self.write_place(state, frame, dest, val)
        frame.block = ret_block
        return "cont"

    def havoc(self, state, ref, why):
        """a callee the executor does not look into received `&mut local`: whatever scalar the local holds may have changed"""
        try:
            v = self.read_lref(state, ref)
        except Inconclusive:
            return
        nv = self._havoc_value(v, why, 0)
        if nv is not v:
            self.stats.setdefault("havoc", set()).add(why)
            self.write_place(state, self.frame_by_id(state, ref.fid), ref.place, nv)

    def _havoc_value(self, v, why, depth):
        if isinstance(v, bool) or (z3.is_expr(v) and z3.is_bool(v)):
            return self.bvar(self.fresh_name("havoc-bool(%s)" % why))
        if isinstance(v, int) or (z3.is_expr(v) and z3.is_int(v)):
            return self.ivar(self.fresh_name("havoc-int(%s)" % why))
        if isinstance(v, Agg) and v.kind in ("struct", "tuple", "adt") and depth < 3:
            nf = [self._havoc_value(f, why, depth + 1) for f in v.fields]
            if any(a is not b for a, b in zip(nf, v.fields)):
                return Agg(v.kind, v.name, v.variant, nf, extra=getattr(v, "extra", None))
            return v
        if isinstance(v, VecL):
            return Opaque(("havoc-vec", why), None)
        return v

    def push_frame(self, state, fn, args, dest, ret_block):
        fr = Frame(state.next_fid, fn, dest, ret_block)
        state.next_fid += 1
        for (n, ty), v in zip(fn.params, args):
            if isinstance(v, Sym) and v.ty is None and ty and "{closure" not in ty and "impl " not in ty:
                v = Sym(v.path, ty)
            fr.locals[n] = v
        state.frames.append(fr)

    def eval_closure_all(self, state, clo, cargs):
        """run a closure to completion on a copy of the state: -> list of (path condition, mem, value, events) alternatives.
        A closure that captures references to the caller's locals runs on a copy of the caller's frames; it may read them, a write to them is not followed (Inconclusive)."""
        c = self.read_lref(state, clo) if isinstance(clo, LRef) else clo
        if not (isinstance(c, Agg) and c.kind == "closure"):
            raise Inconclusive("not a closure value: %r" % (c,))
        f = self._closure_by_sig.get(c.name)
        if f is None:
            raise Inconclusive("closure body not found")
        self.stats["inlined"].add(self.qual.get(f.name, f.name))
        captures_locals = any(isinstance(x, LRef) for x in c.fields)
        if captures_locals:
            sub = state.clone()
            sub.stop_at = len(sub.frames)
            before = [self._frame_digest(sub, fr) for fr in sub.frames]
            fr = Frame(sub.next_fid, f, None, None)
            sub.next_fid += 1
        else:
            sub = State()
            fr = Frame(0, f, None, None)
            sub.next_fid = 1
            sub.pc = list(state.pc)
            sub.mem = dict(state.mem)
        for (n, ty), v in zip(f.params, [c] + list(cargs)):
            if isinstance(v, Sym) and v.ty is None and ty and "{closure" not in ty:
                v = Sym(v.path, ty)
            fr.locals[n] = v
        sub.frames.append(fr)
        sub.events = []
        saved = self.results
        self.results = []
        try:
            self._run_loop([sub])
            res = self.results
        finally:
            self.results = saved
        out = []
        for r in res:
            if r.kind != "return":
                raise Inconclusive("closure evaluation ended with %s: %s" % (r.kind, r.value))
            self.stats["paths"] -= 1
            if captures_locals:
                st_after = State()
                st_after.frames, st_after.mem = r.frames, r.mem
                if [self._frame_digest(st_after, fr2) for fr2 in r.frames[:len(before)]] != before:
                    raise Inconclusive("a closure writes to locals of its caller")
                val = self.deep_resolve(st_after, r.value)
            else:
                val = r.value
            out.append((r.pc, r.mem, val, r.events))
        return out

    def _frame_digest(self, state, fr):
        return tuple(sorted((k, self.summ(state, v)[:200] if not isinstance(v, (IterS, IterL, FMap, FlatMap)) else id(v)) for k, v in fr.locals.items() if not isinstance(v, LRef)))

    def call_closure(self, state, frame, clo, cargs, dest, ret_block):
        """call a closure value (Agg closure or reference to one) with explicit args"""
        c = clo
        if isinstance(c, LRef):
            c = self.read_lref(state, c)
        if not (isinstance(c, Agg) and c.kind == "closure"):
            raise Inconclusive("call of non-closure %r" % (c,))
        f = self._closure_by_sig.get(c.name)
        if f is None:
            raise Inconclusive("closure body not found")
        self.stats["inlined"].add(self.qual.get(f.name, f.name))
        self.push_frame(state, f, [clo] + list(cargs), dest, ret_block)


def inner_ty(ty):
    """`Option<&X>` / `Result<X, E>` -> first generic argument"""
    if not ty:
        return None
    t = strip_ref(ty) if ty.strip().startswith("&") else ty.strip()
    m = re.match(r"(?:[\w:]+::)?(?:Option|Result)<(.*)>$", t)
    if not m:
        return None
    return parse.split_top(m.group(1))[0]


def elem_ty(ty):
    if not ty:
        return None
    t = strip_ref(ty)
    m = re.match(r"\[(.*)\]$", t)
    if m:
        return m.group(1).split(";")[0].strip()
    m = re.match(r"(?:std::vec::|alloc::vec::)?Vec<(.*)>$", t)
    if m:
        return m.group(1)
    m = re.match(r"(?:syn::punctuated::)?Punctuated<(.*)>$", t)
    if m:
        return parse.split_top(m.group(1))[0]
    if head_of(t) == "Fields":
        return "syn::Field"
    return None


def split_path(name):
    """split a path on `::` at depth 0"""
    out, depth, cur = [], 0, []
    i = 0
    while i < len(name):
        c = name[i]
        if c == "<" or c == "(":
            depth += 1
        elif c == ">" or c == ")":
            depth -= 1
        if c == ":" and name[i:i + 2] == "::" and depth == 0:
            out.append("".join(cur))
            cur = []
            i += 2
            continue
        cur.append(c)
        i += 1
    out.append("".join(cur))
    return [p for p in out if p and not p.startswith("<") or p.startswith("<") and len(out) == 1]


def short_name(name):
    """`compare_op::<impl at ...>::is_ignore` -> is_ignore ; keeps closure suffixes"""
    parts = name.split("::")
    keep = [p for p in parts if not p.startswith("<impl at") and not re.match(r"^[a-z_]+$", p) or p == parts[-1]]
    # drop module prefixes but keep `{closure#0}`
    tail = []
    for p in reversed(parts):
        tail.append(p)
        if not p.startswith("{closure"):
            break
    return "::".join(reversed(tail))


def normalize_callee(c):
    c = c.strip()
    # <T as Trait>::method -> T::method (head types)
    m = re.match(r"^<(.*) as (.*?)>::(\w+)(?:::<.*>)?$", c)
    if m:
        t, tr, meth = m.group(1), m.group(2), m.group(3)
        trh = head_of(tr)
        th = head_of(t) if not t.strip().startswith("{closure") else "closure"
        if t.strip().startswith(("&[", "[")) or re.match(r"^&?(?:mut )?\[", t.strip()):
            th = "slice"
        return "%s::%s::%s" % (trh, th, meth) if trh in ("Try", "FromResidual", "IntoIterator", "Iterator", "Deref", "Index", "PartialEq", "Clone", "Default",
                                                              "RepAsIteratorExt", "Spanned", "ToTokens", "Display", "IdentExt", "Extend", "Into", "From",
                                                              "FromIterator", "IntoFuture", "ToString", "Hash") else "%s::%s" % (th, meth)
    # strip turbofish segments
    depth, out = 0, []
    i = 0
    while i < len(c):
        ch = c[i]
        if ch == "<":
            depth += 1
        elif ch == ">" and c[i - 1] not in "-=":
            depth -= 1
            i += 1
            continue
        if depth == 0:
            out.append(ch)
        i += 1
    s = "".join(out).replace("::::", "::")
    s = re.sub(r"::$", "", s)
    parts = [p for p in s.split("::") if p]
    if len(parts) >= 2:
        return parts[-2] + "::" + parts[-1]
    return parts[-1] if parts else c


def binop(op, a, b):
    conc = isinstance(a, (bool, int)) and isinstance(b, (bool, int))
    if op == "Eq":
        return (a == b) if conc else _eq(a, b)
    if op == "Ne":
        return (a != b) if conc else z3.Not(_eq(a, b))
    if op in ("Lt", "Le", "Gt", "Ge"):
        f = {"Lt": lambda x, y: x < y, "Le": lambda x, y: x <= y, "Gt": lambda x, y: x > y, "Ge": lambda x, y: x >= y}[op]
        return f(a, b)
    if op in ("BitAnd", "BitOr", "BitXor"):
        if conc:
            return {"BitAnd": lambda x, y: x & y, "BitOr": lambda x, y: x | y, "BitXor": lambda x, y: x ^ y}[op](a, b)
        za, zb = _zb(a), _zb(b)
        return {"BitAnd": z3.And, "BitOr": z3.Or, "BitXor": z3.Xor}[op](za, zb)
    if op in ("Add", "AddUnchecked"):
        return a + b
    if op in ("Sub", "SubUnchecked"):
        return a - b
    if op == "Mul":
        return a * b
    raise Inconclusive("binop " + op)


def _zb(a):
    if isinstance(a, bool):
        return z3.BoolVal(a)
    return a


def _eq(a, b):
    if isinstance(a, bool):
        a = z3.BoolVal(a)
    if isinstance(b, bool):
        b = z3.BoolVal(b)
    return a == b


# ---------------------------------------------------------------------------------------------
# models of std / syn / structmeta callees
# ---------------------------------------------------------------------------------------------
MODELS = {}


def model(*names):
    def deco(f):
        for n in names:
            MODELS[n] = f
        return f
    return deco


def _ret(ex, state, frame, dest, val, ret_block):
    ex.write_place(state, frame, dest, val)
    frame.block = ret_block
    return "cont"


def _fork_bool(ex, state, frame, dest, cond, ret_block, work):
    """write a bool that may be symbolic (no fork needed: scalars stay symbolic)"""
    return _ret(ex, state, frame, dest, cond, ret_block)


def _val(ex, state, v):
    v = ex.read_lref(state, v) if isinstance(v, LRef) else v
    if isinstance(v, Sym) and isinstance(state.mem.get(v.path), VecL):
        return state.mem[v.path]  # a vector living behind a symbolic reference (preset by the caller of run())
    return v


def _vec_target(ex, state, r):
    """-> (VecL, writer) for the vector behind reference r (local place or preset symbolic memory), or (None, None)"""
    if isinstance(r, LRef):
        v = ex.read_lref(state, r)
        if isinstance(v, VecL):
            return v, (lambda st, nv: ex.write_place(st, ex.frame_by_id(st, r.fid), r.place, nv))
        r = v
    if isinstance(r, Sym) and isinstance(state.mem.get(r.path), VecL):
        path = r.path
        return state.mem[path], (lambda st, nv: st.mem.__setitem__(path, nv))
    return None, None


def _is_variant(ex, state, v, ty_variants, variant):
    """-> python bool or z3 bool: value v is enum variant `variant`"""
    v = _val(ex, state, v)
    if isinstance(v, Agg) and v.kind == "adt":
        return v.variant == variant
    d = ex.discriminant(state, v, None)
    return d == ty_variants.index(variant)


@model("Option::is_some")
def m_is_some(ex, state, frame, dest, args, ret_block, work, callee):
    v = _val(ex, state, args[0])
    if isinstance(v, Sym) and v.ty is None:
        v = Sym(v.path, "Option<?>")
    if isinstance(v, Opaque) and not v.ty:
        v = Opaque(v.origin, "Option<?>")
    return _ret(ex, state, frame, dest, _is_variant(ex, state, v, ["None", "Some"], "Some"), ret_block)


@model("Option::is_none")
def m_is_none(ex, state, frame, dest, args, ret_block, work, callee):
    v = _val(ex, state, args[0])
    if isinstance(v, Sym) and v.ty is None:
        v = Sym(v.path, "Option<?>")
    if isinstance(v, Opaque) and not v.ty:
        v = Opaque(v.origin, "Option<?>")
    return _ret(ex, state, frame, dest, _is_variant(ex, state, v, ["None", "Some"], "None"), ret_block)


@model("Option::as_ref", "Option::as_mut", "Option::as_deref", "Result::as_ref")
def m_as_ref(ex, state, frame, dest, args, ret_block, work, callee):
    return _ret(ex, state, frame, dest, _val(ex, state, args[0]) if not isinstance(args[0], LRef) else args[0] and _val(ex, state, args[0]), ret_block)


@model("Flag::value")
def m_flag_value(ex, state, frame, dest, args, ret_block, work, callee):
    v = _val(ex, state, args[0])
    if isinstance(v, Sym):
        span = ex.project(Sym(v.path, "Flag"), 0, "Option<Span>")
        if span.path in state.mem:
            span = state.mem[span.path]
        return _ret(ex, state, frame, dest, _is_variant(ex, state, span, ["None", "Some"], "Some"), ret_block)
    if isinstance(v, Agg) and v.fields:
        return _ret(ex, state, frame, dest, _is_variant(ex, state, v.fields[0], ["None", "Some"], "Some"), ret_block)
    return _ret(ex, state, frame, dest, ex.bvar(ex.fresh_name("flag-value")), ret_block)


def _fork_enum(ex, state, frame, dest, v, variants, mk, ret_block, work):
    """fork on the variant of an opaque / symbolic enum value; mk(variant_index) -> value to write"""
    d = ex.discriminant(state, v, None)
    first = True
    feas = []
    for i, _ in enumerate(variants):
        c = d == i
        if ex.feasible(state, c):
            feas.append((i, c))
    if not feas:
        raise Inconclusive("no feasible variant")
    ex.stats["forks"] += len(feas) - 1
    for i, c in feas[1:]:
        s2 = state.clone()
        s2.pc.append(c)
        f2 = s2.frames[-1]
        ex.write_place(s2, f2, dest, mk(i))
        f2.block = ret_block
        work.append(s2)
    i, c = feas[0]
    state.pc.append(c)
    return _ret(ex, state, frame, dest, mk(i), ret_block)


@model("Try::Result::branch")
def m_branch_result(ex, state, frame, dest, args, ret_block, work, callee):
    v = _val(ex, state, args[0])
    if isinstance(v, Agg) and v.kind == "adt" and v.name == "Result":
        if v.variant == "Ok":
            return _ret(ex, state, frame, dest, Agg("adt", "ControlFlow", "Continue", v.fields[:1] or [Agg("tuple", None, None, [])]), ret_block)
        return _ret(ex, state, frame, dest, Agg("adt", "ControlFlow", "Break", [Agg("adt", "Result", "Err", v.fields[:1])]), ret_block)
    if isinstance(v, Sym):
        v = Sym(v.path, "Result<?,?>")
    elif isinstance(v, Opaque):
        if getattr(ex, "opaque_ok_only", False):
            # stated cut: calls the executor does not look into are assumed to succeed (their error paths leave the function at once)
            return _ret(ex, state, frame, dest, Agg("adt", "ControlFlow", "Continue", [Opaque(("ok-of", v.origin), None)]), ret_block)
        v = Opaque(v.origin, "Result<?,?>")
    else:
        raise Inconclusive("branch on %r" % (v,))

    def mk(i):
        inner = Opaque(("ok-of", v.origin if isinstance(v, Opaque) else pstr(v.path)), None) if isinstance(v, Opaque) else Sym(v.path + (("as", "Ok"), 0))
        if i == 0:
            return Agg("adt", "ControlFlow", "Continue", [inner])
        err = Opaque(("err-of", v.origin if isinstance(v, Opaque) else pstr(v.path)), None)
        return Agg("adt", "ControlFlow", "Break", [Agg("adt", "Result", "Err", [err])])
    return _fork_enum(ex, state, frame, dest, v, ["Ok", "Err"], mk, ret_block, work)


@model("Try::Option::branch")
def m_branch_option(ex, state, frame, dest, args, ret_block, work, callee):
    v = _val(ex, state, args[0])
    if isinstance(v, Agg) and v.kind == "adt" and v.name == "Option":
        if v.variant == "Some":
            return _ret(ex, state, frame, dest, Agg("adt", "ControlFlow", "Continue", v.fields[:1]), ret_block)
        return _ret(ex, state, frame, dest, Agg("adt", "ControlFlow", "Break", [Agg("adt", "Option", "None", [])]), ret_block)
    ity = inner_ty(v.ty) if isinstance(v, (Sym, Opaque)) else None
    if isinstance(v, Sym):
        v = Sym(v.path, "Option<?>")
    elif isinstance(v, Opaque):
        v = Opaque(v.origin, "Option<?>")
    else:
        raise Inconclusive("branch on %r" % (v,))

    def mk(i):
        if i == 1:
            inner = Sym(v.path + (("as", "Some"), 0), ity) if isinstance(v, Sym) else Opaque(("some-of", v.origin), ity)
            return Agg("adt", "ControlFlow", "Continue", [inner])
        return Agg("adt", "ControlFlow", "Break", [Agg("adt", "Option", "None", [])])
    return _fork_enum(ex, state, frame, dest, v, ["None", "Some"], mk, ret_block, work)


@model("FromResidual::Result::from_residual", "FromResidual::Option::from_residual")
def m_from_residual(ex, state, frame, dest, args, ret_block, work, callee):
    v = _val(ex, state, args[0])
    if isinstance(v, Agg) and v.kind == "adt":
        return _ret(ex, state, frame, dest, Agg("adt", v.name, v.variant, v.fields), ret_block)
    return _ret(ex, state, frame, dest, Agg("adt", "Result", "Err", [Opaque(("residual",), None)]), ret_block)


@model("Default::Option::default")
def m_option_default(ex, state, frame, dest, args, ret_block, work, callee):
    return _ret(ex, state, frame, dest, Agg("adt", "Option", "None", []), ret_block)


@model("Vec::new", "Vec::with_capacity")
def m_vec_new(ex, state, frame, dest, args, ret_block, work, callee):
    return _ret(ex, state, frame, dest, VecL([]), ret_block)


@model("Vec::push")
def m_vec_push(ex, state, frame, dest, args, ret_block, work, callee):
    v, wr = _vec_target(ex, state, args[0])
    if v is not None:
        wr(state, VecL(v.items + [args[1]]))
    return _ret(ex, state, frame, dest, Agg("tuple", None, None, []), ret_block)


@model("Vec::swap_remove", "Vec::remove")
def m_vec_remove(ex, state, frame, dest, args, ret_block, work, callee):
    v, wr = _vec_target(ex, state, args[0])
    i = args[1]
    if v is None:
        # a vector the executor does not hold: the call stays opaque (recorded by do_call when traced)
        return _ret(ex, state, frame, dest, Opaque(("call", normalize_callee(callee), tuple(ex.summ(state, a)[:120] for a in args)), None), ret_block)
    if not isinstance(i, int):
        raise Inconclusive("%s with a symbolic index" % normalize_callee(callee))
    if i >= len(v.items):
        ex.finish(state, "panic", normalize_callee(callee) + ": index out of bounds")
        return "done"
    items = list(v.items)
    out = items[i]
    if normalize_callee(callee).endswith("swap_remove"):
        items[i] = items[-1]
        items.pop()
    else:
        del items[i]
    wr(state, VecL(items))
    return _ret(ex, state, frame, dest, out, ret_block)


@model("Vec::retain", "Vec::retain_mut")
def m_vec_retain(ex, state, frame, dest, args, ret_block, work, callee):
    v, wr = _vec_target(ex, state, args[0])
    if v is None:
        # a vector the executor does not hold: the call stays opaque (recorded by do_call when traced)
        return _ret(ex, state, frame, dest, Agg("tuple", None, None, []), ret_block)
    cur = [(state, [])]
    for e in v.items:
        nxt = []
        for st, kept in cur:
            for pc, mem, val, evs in ex.eval_closure_all(st, args[1], [e]):
                base = st.clone()
                base.pc = list(pc)
                base.mem = dict(mem)
                base.events = base.events + list(evs)
                if isinstance(val, bool):
                    nxt.append((base, kept + [e] if val else kept))
                    continue
                if not z3.is_expr(val):
                    raise Inconclusive("retain closure returned %r" % (val,))
                for keep in (True, False):
                    c = val if keep else z3.Not(val)
                    if ex.feasible(base, c):
                        st2 = base.clone()
                        st2.pc.append(c)
                        nxt.append((st2, kept + [e] if keep else kept))
        cur = nxt
    if not cur:
        raise Inconclusive("retain: no feasible alternative")
    ex.stats["forks"] += len(cur) - 1
    # re-resolve the writer per state (mem is per state)
    for st, kept in cur:
        _, wr2 = _vec_target(ex, st, args[0])
        wr2(st, VecL(kept))
        fr = st.frames[-1]
        ex.write_place(st, fr, dest, Agg("tuple", None, None, []))
        fr.block = ret_block
        work.append(st)
    return "done"


@model("Vec::len", "slice::len", "Punctuated::len")
def m_len(ex, state, frame, dest, args, ret_block, work, callee):
    return _ret(ex, state, frame, dest, ex.length(state, args[0]), ret_block)


@model("Vec::is_empty", "slice::is_empty", "Punctuated::is_empty")
def m_is_empty(ex, state, frame, dest, args, ret_block, work, callee):
    n = ex.length(state, args[0])
    return _ret(ex, state, frame, dest, (n == 0) if not isinstance(n, int) else n == 0, ret_block)


@model("Deref::Vec::deref", "Vec::as_slice", "Deref::String::deref", "Vec::as_ref")
def m_identity(ex, state, frame, dest, args, ret_block, work, callee):
    return _ret(ex, state, frame, dest, args[0], ret_block)


@model("IntoIterator::slice::into_iter", "IntoIterator::Vec::into_iter", "slice::iter", "Vec::iter", "IntoIterator::closure::into_iter")
def m_into_iter(ex, state, frame, dest, args, ret_block, work, callee):
    v = _val(ex, state, args[0])
    if isinstance(v, Sym):
        return _ret(ex, state, frame, dest, IterS(v), ret_block)
    if isinstance(v, VecL):
        return _ret(ex, state, frame, dest, IterL(v.items), ret_block)
    if isinstance(v, Agg) and v.kind == "array":
        return _ret(ex, state, frame, dest, IterL(v.fields), ret_block)
    if isinstance(v, (IterS, IterL, FMap, FlatMap)):
        return _ret(ex, state, frame, dest, v, ret_block)
    if isinstance(v, Opaque):
        ex.fresh += 1
        return _ret(ex, state, frame, dest, IterS(Sym(("opaque-iter#%d" % ex.fresh,), None)), ret_block)
    raise Inconclusive("into_iter of %r" % (v,))


def iter_next_alts(ex, state, it):
    """one `next()` on iterator value `it` in `state`: -> list of (state', Option value, iterator value afterwards).
    `state` itself is consumed (one alternative reuses it); forks are clones."""
    if isinstance(it, IterL):
        if it.idx < len(it.items):
            # items of a local vector are yielded by reference: values are immutable here, pass them through
            return [(state, Agg("adt", "Option", "Some", [it.items[it.idx]]), IterL(it.items, it.idx + 1))]
        return [(state, Agg("adt", "Option", "None", []), it)]
    if isinstance(it, IterS):
        n = ex.length(state, it.base)
        i = it.idx
        c_more = n > i if not isinstance(n, int) else z3.BoolVal(n > i)
        c_end = n <= i if not isinstance(n, int) else z3.BoolVal(n <= i)
        outs = []
        if i < ex.slice_bound and ex.feasible(state, c_more):
            outs.append(("some", c_more))
        if ex.feasible(state, c_end):
            outs.append(("none", c_end))
        if not outs:
            raise Inconclusive("iterator: no feasible continuation")
        ex.stats["forks"] += len(outs) - 1
        alts = []
        for k, (which, c) in enumerate(outs):
            st = state if k == len(outs) - 1 else state.clone()
            st.pc.append(c)
            if which == "some":
                elem = Sym(it.base.path + (("idx", i),), elem_ty(it.base.ty))
                val = Agg("tuple", None, None, [i, elem]) if it.enumerate else elem
                alts.append((st, Agg("adt", "Option", "Some", [val]), IterS(it.base, i + 1, it.enumerate)))
            else:
                alts.append((st, Agg("adt", "Option", "None", []), it))
        return alts
    if isinstance(it, FMap):
        alts = []
        todo = [(state, it.it)]
        while todo:
            st, inner = todo.pop()
            for st1, opt, inner1 in iter_next_alts(ex, st, inner):
                if opt.variant == "None":
                    alts.append((st1, opt, FMap(inner1, it.closure, it.plain)))
                    continue
                for pc, mem, val, evs in ex.eval_closure_all(st1, it.closure, [opt.fields[0]]):
                    st2 = st1.clone()
                    st2.pc = list(pc)
                    st2.mem = dict(mem)
                    st2.events = st2.events + list(evs)
                    if it.plain == "filter":
                        # `iter.filter(pred)`: the element itself is yielded when the predicate holds, skipped otherwise
                        b = ex.scalar_of(st2, val, "bool")
                        for bv in ((True, False) if not isinstance(b, bool) else (b,)):
                            c = None if isinstance(b, bool) else (b if bv else z3.Not(b))
                            if c is not None and not ex.feasible(st2, c):
                                continue
                            st3 = st2.clone() if c is not None else st2
                            if c is not None:
                                st3.pc.append(c)
                            if bv:
                                alts.append((st3, Agg("adt", "Option", "Some", [opt.fields[0]]), FMap(inner1, it.closure, "filter")))
                            else:
                                todo.append((st3, inner1))
                        continue
                    if it.plain:
                        alts.append((st2, Agg("adt", "Option", "Some", [val]), FMap(inner1, it.closure, True)))
                        continue
                    if not (isinstance(val, Agg) and val.kind == "adt" and val.name == "Option"):
                        raise Inconclusive("filter_map closure returned %r" % (val,))
                    if val.variant == "Some":
                        alts.append((st2, val, FMap(inner1, it.closure)))
                    else:
                        todo.append((st2, inner1))
        return alts
    if isinstance(it, FlatMap):
        alts = []
        todo = [(state, it.it, it.cur, 0)]
        while todo:
            st, outer, cur, depth = todo.pop()
            if depth > 2 * ex.slice_bound + 4:
                raise Inconclusive("flat_map: too many empty inner iterators")
            if cur is not None:
                for st1, opt, cur1 in iter_next_alts(ex, st, cur):
                    if opt.variant == "Some":
                        alts.append((st1, opt, FlatMap(outer, it.closure, cur1)))
                    else:
                        todo.append((st1, outer, None, depth + 1))
                continue
            for st1, opt, outer1 in iter_next_alts(ex, st, outer):
                if opt.variant == "None":
                    alts.append((st1, opt, FlatMap(outer1, it.closure, None)))
                    continue
                for pc, mem, val, evs in ex.eval_closure_all(st1, it.closure, [opt.fields[0]]):
                    st2 = st1.clone()
                    st2.pc = list(pc)
                    st2.mem = dict(mem)
                    st2.events = st2.events + list(evs)
                    inner = _val(ex, st2, val)
                    if isinstance(inner, Sym):
                        inner = IterS(inner)
                    elif isinstance(inner, VecL):
                        inner = IterL(inner.items)
                    elif isinstance(inner, Agg) and inner.kind == "adt" and inner.name == "Option":
                        inner = IterL(inner.fields[:1] if inner.variant == "Some" else [])
                    elif isinstance(inner, Agg) and inner.kind == "adt" and inner.name == "Result":
                        # `Result: IntoIterator` yields the Ok value and silently nothing for Err
                        inner = IterL(inner.fields[:1] if inner.variant == "Ok" else [])
                    if not isinstance(inner, (IterS, IterL, FMap, FlatMap)):
                        raise Inconclusive("flat_map closure returned %r" % (inner,))
                    todo.append((st2, outer1, inner, depth + 1))
        return alts
    if isinstance(it, Opaque):
        # an iterator the executor knows nothing about: treat it as exhausted-or-not without bound -> give up on this path
        raise Inconclusive("iteration over an opaque iterator (%s)" % (it.origin,))
    raise Inconclusive("next on %r" % (it,))


def _finish_iter_alts(ex, r, dest, ret_block, work, alts):
    if not alts:
        raise Inconclusive("iterator: no feasible continuation")
    for st, opt, it2 in alts:
        fr = st.frames[-1]
        if isinstance(r, LRef):
            ex.write_place(st, ex.frame_by_id(st, r.fid), r.place, it2)
        ex.write_place(st, fr, dest, opt)
        fr.block = ret_block
        work.append(st)
    return "done"


@model("Iterator::Iter::next")
def m_iter_next(ex, state, frame, dest, args, ret_block, work, callee):
    r = args[0]
    it = _val(ex, state, r)
    return _finish_iter_alts(ex, r, dest, ret_block, work, iter_next_alts(ex, state, it))


@model("Iterator::Iter::nth")
def m_iter_nth(ex, state, frame, dest, args, ret_block, work, callee):
    r = args[0]
    it = _val(ex, state, r)
    k = args[1]
    if not isinstance(k, int) or k > 8:
        raise Inconclusive("nth with a non-constant index")
    cur = [(state, None, it)]
    for step in range(k + 1):
        nxt = []
        for st, opt, itv in cur:
            if opt is not None and opt.variant == "None":
                nxt.append((st, opt, itv))
                continue
            nxt += iter_next_alts(ex, st, itv)
        cur = nxt
    return _finish_iter_alts(ex, r, dest, ret_block, work, cur)


@model("Iterator::Iter::fold-like")
def m_iter_foldlike(ex, state, frame, dest, args, ret_block, work, callee):
    """find_map / try_for_each / any / all / for_each: run the closure element by element, stop as the method says"""
    which = normalize_callee(callee).rsplit("::", 1)[1]
    r = args[0]
    it = _val(ex, state, r)
    if isinstance(it, Opaque) and which in ("any", "all") and getattr(ex, "approx_opaque_iters", False):
        # a yes/no question about a sequence the executor cannot see (e.g. syn's `generics.type_params()`): both answers are explored; the closure is not run,
        # which is an over-approximation only as long as it has no effect of its own (stated where the flag is set)
        return _ret(ex, state, frame, dest, ex.bvar(ex.fresh_name("opaque-bool(%s)" % which)), ret_block)
    if not isinstance(it, (IterS, IterL, FMap, FlatMap)):
        raise Inconclusive("%s over %r" % (which, it))
    unit = Agg("tuple", None, None, [])
    end_value = {"find_map": Agg("adt", "Option", "None", []), "try_for_each": Agg("adt", "Result", "Ok", [unit]), "any": False, "all": True, "for_each": unit,
                 "find": Agg("adt", "Option", "None", []), "position": Agg("adt", "Option", "None", [])}[which]
    cur = [(state.clone(), it)]
    done = []  # (state, value, iterator afterwards)
    bound = (len(it.items) + 2) if isinstance(it, IterL) else ex.slice_bound + 8
    for step in range(bound):
        nxt = []
        for st, itv in cur:
            for st1, opt, it1 in iter_next_alts(ex, st, itv):
                if opt.variant == "None":
                    done.append((st1, end_value, it1))
                    continue
                for pc, mem, val, evs in ex.eval_closure_all(st1, args[1], [opt.fields[0]]):
                    st2 = st1.clone()
                    st2.pc = list(pc)
                    st2.mem = dict(mem)
                    st2.events = st2.events + list(evs)
                    if which == "for_each":
                        nxt.append((st2, it1))
                    elif which == "find_map":
                        if not (isinstance(val, Agg) and val.name == "Option"):
                            raise Inconclusive("find_map closure returned %r" % (val,))
                        (done.append((st2, val, it1)) if val.variant == "Some" else nxt.append((st2, it1)))
                    elif which == "try_for_each":
                        if isinstance(val, Agg) and val.name == "Result":
                            (nxt.append((st2, it1)) if val.variant == "Ok" else done.append((st2, val, it1)))
                        elif isinstance(val, (Sym, Opaque)):
                            d = ex.discriminant(st2, val if isinstance(val, Sym) else Opaque(val.origin, "Result<?,?>"), "Result<?,?>")
                            for i in (0, 1):
                                if ex.feasible(st2, d == i):
                                    st3 = st2.clone()
                                    st3.pc.append(d == i)
                                    if i == 0:
                                        nxt.append((st3, it1))
                                    else:
                                        done.append((st3, Agg("adt", "Result", "Err", [Opaque(("err-of", val.origin if isinstance(val, Opaque) else pstr(val.path)), None)]), it1))
                        else:
                            raise Inconclusive("try_for_each closure returned %r" % (val,))
                    else:  # any / all / find / position
                        b = ex.scalar_of(st2, val, "bool")
                        stop_on = which != "all"
                        stop_val = {"any": True, "all": False, "find": Agg("adt", "Option", "Some", [opt.fields[0]]), "position": Agg("adt", "Option", "Some", [step])}[which]
                        if isinstance(b, bool):
                            (done.append((st2, stop_val, it1)) if b == stop_on else nxt.append((st2, it1)))
                        else:
                            for bv in (True, False):
                                c = b if bv else z3.Not(b)
                                if ex.feasible(st2, c):
                                    st3 = st2.clone()
                                    st3.pc.append(c)
                                    (done.append((st3, stop_val, it1)) if bv == stop_on else nxt.append((st3, it1)))
        cur = nxt
        if not cur:
            break
    if cur or not done:
        raise Inconclusive("%s: iterator longer than the bound / no alternative" % which)
    ex.stats["forks"] += len(done) - 1
    for st, val, it2 in done:
        fr = st.frames[-1]
        if isinstance(r, LRef):
            ex.write_place(st, ex.frame_by_id(st, r.fid), r.place, it2)
        ex.write_place(st, fr, dest, val)
        fr.block = ret_block
        work.append(st)
    return "done"


@model("Iterator::Iter::count")
def m_iter_count(ex, state, frame, dest, args, ret_block, work, callee):
    it = _val(ex, state, args[0])
    cur = [(state, 0, it)]
    done = []
    for step in range(ex.slice_bound + 2):
        nxt = []
        for st, n, itv in cur:
            for st1, opt, it1 in iter_next_alts(ex, st, itv):
                if opt.variant == "None":
                    done.append((st1, n))
                else:
                    nxt.append((st1, n + 1, it1))
        cur = nxt
        if not cur:
            break
    if cur:
        raise Inconclusive("count(): iterator longer than the slice bound")
    for st, n in done:
        fr = st.frames[-1]
        ex.write_place(st, fr, dest, n)
        fr.block = ret_block
        work.append(st)
    return "done"


@model("RepAsIteratorExt::Vec::quote_into_iter", "RepAsIteratorExt::slice::quote_into_iter")
def m_quote_into_iter(ex, state, frame, dest, args, ret_block, work, callee):
    v = _val(ex, state, args[0])
    if isinstance(v, VecL):
        it = IterL(v.items)
    elif isinstance(v, Sym):
        it = IterS(v)
    elif isinstance(v, (FMap, FlatMap, IterL, IterS)):
        it = v
    else:
        it = IterL([])
    return _ret(ex, state, frame, dest, Agg("tuple", None, None, [it, Opaque(("HasIterator",), None)]), ret_block)


@model("Iterator::adaptor::rev", "Iterator::adaptor::cloned", "Iterator::adaptor::copied", "Iterator::adaptor::enumerate")
def m_iter_adaptor(ex, state, frame, dest, args, ret_block, work, callee):
    it = _val(ex, state, args[0])
    which = normalize_callee(callee).rsplit("::", 1)[1]
    if which in ("cloned", "copied"):
        return _ret(ex, state, frame, dest, it, ret_block)
    if which == "rev":
        if isinstance(it, IterL):
            return _ret(ex, state, frame, dest, IterL(list(reversed(it.items[it.idx:]))), ret_block)
        raise Inconclusive("rev() of a symbolic iterator")
    if which == "enumerate":
        if isinstance(it, IterL):
            return _ret(ex, state, frame, dest, IterL([Agg("tuple", None, None, [i, x]) for i, x in enumerate(it.items[it.idx:])]), ret_block)
        if isinstance(it, IterS):
            return _ret(ex, state, frame, dest, IterS(it.base, it.idx, True), ret_block)
    raise Inconclusive("iterator adaptor %s on %r" % (which, it))


@model("Iterator::adaptor::filter_map", "Iterator::adaptor::map", "Iterator::adaptor::flat_map", "Iterator::adaptor::filter")
def m_filter_map(ex, state, frame, dest, args, ret_block, work, callee):
    it = _val(ex, state, args[0])
    if not isinstance(it, (IterS, IterL, FMap, FlatMap)):
        raise Inconclusive("filter_map / map / flat_map / filter over %r" % (it,))
    if normalize_callee(callee).endswith("::flat_map"):
        return _ret(ex, state, frame, dest, FlatMap(it, args[1]), ret_block)
    if normalize_callee(callee).endswith("::filter"):
        return _ret(ex, state, frame, dest, FMap(it, args[1], "filter"), ret_block)
    return _ret(ex, state, frame, dest, FMap(it, args[1], normalize_callee(callee).endswith("::map")), ret_block)


@model("Iterator::FilterMap::collect")
def m_filter_map_collect(ex, state, frame, dest, args, ret_block, work, callee):
    fm = _val(ex, state, args[0])
    dty = (ex.place_type(frame, dest) or "").strip()
    into_result = re.match(r"^(std::result::|core::result::)?Result<(std::vec::|alloc::vec::)?Vec<", dty) is not None
    if not into_result and not re.match(r"^(std::vec::|alloc::vec::)?Vec<", dty):
        # collecting into something else (a token stream, a map, ...): the container itself stays opaque, but the iterator is driven to its end so that the
        # closures of the chain run (events, panic sites, early exit of `collect::<Result<..>>()` on the first Err)
        if isinstance(fm, (FMap, FlatMap, IterL, IterS)):
            return _collect_other(ex, state, frame, dest, fm, ret_block, work, dty, callee)
        return _ret(ex, state, frame, dest, Opaque(("call", normalize_callee(callee), tuple(ex.summ(state, a)[:120] for a in args)), dty or None), ret_block)
    if not isinstance(fm, (FMap, FlatMap, IterL, IterS)):
        if into_result:
            return _ret(ex, state, frame, dest, Opaque(("call", normalize_callee(callee), tuple(ex.summ(state, a)[:120] for a in args)), dty or None), ret_block)
        raise Inconclusive("collect of %r" % (fm,))
    if into_result:
        return _collect_result(ex, state, frame, dest, fm, ret_block, work)
    cur = [(state.clone(), [], fm)]
    done = []
    for step in range(ex.slice_bound + 6):
        nxt = []
        for st, items, itv in cur:
            for st1, opt, it1 in iter_next_alts(ex, st, itv):
                if opt.variant == "None":
                    done.append((st1, items))
                else:
                    nxt.append((st1, items + [opt.fields[0]], it1))
        cur = nxt
        if not cur:
            break
    if cur:
        raise Inconclusive("collect(): iterator longer than the bound")
    if not done:
        raise Inconclusive("collect(): no feasible alternative")
    ex.stats["forks"] += len(done) - 1
    for st, items in done:
        fr = st.frames[-1]
        ex.write_place(st, fr, dest, VecL(items))
        fr.block = ret_block
        work.append(st)
    return "done"


def _collect_other(ex, state, frame, dest, fm, ret_block, work, dty, callee):
    """`iter.collect::<C>()` for a container the executor does not model (TokenStream, HashSet, ...), also wrapped in `Result<C, _>`"""
    is_result = re.match(r"^(std::result::|core::result::)?Result<", dty) is not None
    is_stream = "TokenStream" in dty

    def container(st, items):
        if is_stream:
            # `iter.collect::<TokenStream>()` is `let mut ts = TokenStream::new(); for x in iter { ts.extend(x) }`: say so in the trace
            ex.fresh += 1
            val = Opaque(("call", "TokenStream::new", ("#%d" % ex.fresh,)), "TokenStream")
            for it in items:
                if "Extend::TokenStream::extend" in ex.trace:
                    st.events.append(("Extend::TokenStream::extend", [ex.summ(st, val), ex.summ(st, it)]))
            return val
        return Opaque(("collected", normalize_callee(callee), tuple(ex.summ(st, it)[:100] for it in items)), None)

    cur = [(state.clone(), [], fm)]
    done = []
    for step in range(ex.slice_bound + 6):
        nxt = []
        for st, items, itv in cur:
            for st1, opt, it1 in iter_next_alts(ex, st, itv):
                if opt.variant == "None":
                    c = container(st1, items)
                    done.append((st1, Agg("adt", "Result", "Ok", [c]) if is_result else c))
                    continue
                v = opt.fields[0]
                if not is_result:
                    nxt.append((st1, items + [v], it1))
                    continue
                if isinstance(v, Agg) and v.kind == "adt" and v.name == "Result":
                    if v.variant == "Ok":
                        nxt.append((st1, items + [v.fields[0]], it1))
                    else:
                        done.append((st1, Agg("adt", "Result", "Err", v.fields[:1])))
                    continue
                if isinstance(v, (Sym, Opaque)):
                    d = ex.discriminant(st1, v if isinstance(v, Sym) else Opaque(v.origin, "Result<?,?>"), "Result<?,?>")
                    for i in (0, 1):
                        c = d == i
                        if ex.feasible(st1, c):
                            st2 = st1.clone()
                            st2.pc.append(c)
                            if i == 0:
                                ok = Sym(v.path + (("as", "Ok"), 0)) if isinstance(v, Sym) else Opaque(("ok-of", v.origin), None)
                                nxt.append((st2, items + [ok], it1))
                            else:
                                done.append((st2, Agg("adt", "Result", "Err", [Opaque(("err-of", v.origin if isinstance(v, Opaque) else pstr(v.path)), None)])))
                    continue
                raise Inconclusive("collect into Result of %r" % (v,))
        cur = nxt
        if not cur:
            break
    if cur or not done:
        raise Inconclusive("collect(): iterator longer than the bound / no alternative")
    ex.stats["forks"] += len(done) - 1
    for st, val in done:
        fr = st.frames[-1]
        ex.write_place(st, fr, dest, val)
        fr.block = ret_block
        work.append(st)
    return "done"


def _collect_result(ex, state, frame, dest, fm, ret_block, work):
    """`iter.collect::<Result<Vec<_>, _>>()`: the first Err ends the collection, otherwise Ok(all items)"""
    cur = [(state.clone(), [], fm)]
    done = []  # (state, Result value)
    for step in range(ex.slice_bound + 6):
        nxt = []
        for st, items, itv in cur:
            for st1, opt, it1 in iter_next_alts(ex, st, itv):
                if opt.variant == "None":
                    done.append((st1, Agg("adt", "Result", "Ok", [VecL(items)])))
                    continue
                v = opt.fields[0]
                if isinstance(v, Agg) and v.kind == "adt" and v.name == "Result":
                    if v.variant == "Ok":
                        nxt.append((st1, items + [v.fields[0]], it1))
                    else:
                        done.append((st1, Agg("adt", "Result", "Err", v.fields[:1])))
                    continue
                if isinstance(v, (Sym, Opaque)):
                    d = ex.discriminant(st1, v if isinstance(v, Sym) else Opaque(v.origin, "Result<?,?>"), "Result<?,?>")
                    for i in (0, 1):
                        c = d == i
                        if ex.feasible(st1, c):
                            st2 = st1.clone()
                            st2.pc.append(c)
                            if i == 0:
                                ok = Sym(v.path + (("as", "Ok"), 0)) if isinstance(v, Sym) else Opaque(("ok-of", v.origin), None)
                                nxt.append((st2, items + [ok], it1))
                            else:
                                done.append((st2, Agg("adt", "Result", "Err", [Opaque(("err-of", v.origin if isinstance(v, Opaque) else pstr(v.path)), None)])))
                    continue
                raise Inconclusive("collect into Result of %r" % (v,))
        cur = nxt
        if not cur:
            break
    if cur or not done:
        raise Inconclusive("collect(): iterator longer than the bound / no alternative")
    ex.stats["forks"] += len(done) - 1
    for st, val in done:
        fr = st.frames[-1]
        ex.write_place(st, fr, dest, val)
        fr.block = ret_block
        work.append(st)
    return "done"


PANIC_ONLY_MODELS = {"Option::unwrap", "Option::expect", "Result::unwrap", "Result::expect", "Index::Punctuated::index", "str::len", "String::len", "str::ends_with", "str::starts_with",
                     "Index::str::index", "Index::String::index"}


def _strlen(ex, state, v):
    v = _val(ex, state, v)
    if isinstance(v, Agg) and v.kind == "str":
        return len(v.extra.encode())
    return ex.ivar("strlen(%s)" % ex.summ(state, v)[:120], 0, 2 ** 40)


@model("str::len", "String::len")
def m_str_len(ex, state, frame, dest, args, ret_block, work, callee):
    return _ret(ex, state, frame, dest, _strlen(ex, state, args[0]), ret_block)


@model("str::ends_with", "str::starts_with")
def m_str_affix(ex, state, frame, dest, args, ret_block, work, callee):
    a, b = _val(ex, state, args[0]), _val(ex, state, args[1])
    if isinstance(a, Agg) and a.kind == "str" and isinstance(b, Agg) and b.kind == "str":
        return _ret(ex, state, frame, dest, a.extra.endswith(b.extra) if normalize_callee(callee).endswith("ends_with") else a.extra.startswith(b.extra), ret_block)
    sb = b.extra if isinstance(b, Agg) and b.kind == "str" else ex.summ(state, b)
    r = ex.bvar("%s(%s,%s)" % (normalize_callee(callee).rsplit("::", 1)[1], ex.summ(state, a)[:120], sb[:60]))
    # a string that ends / starts with another one is at least as long
    la, lb = _strlen(ex, state, args[0]), _strlen(ex, state, args[1])
    ex.axiom(z3.Implies(r, la >= lb) if not (isinstance(la, int) and isinstance(lb, int)) else z3.BoolVal(True))
    return _ret(ex, state, frame, dest, r, ret_block)


@model("Index::str::index", "Index::String::index")
def m_str_index(ex, state, frame, dest, args, ret_block, work, callee):
    """`s[a..b]` / `s[..b]` / `s[a..]`: out of range when an end lies beyond the length or the start beyond the end (char boundaries are not modelled)"""
    rng = _val(ex, state, args[1])
    n = _strlen(ex, state, args[0])
    if not (isinstance(rng, Agg) and rng.fields is not None):
        raise Inconclusive("string index with %r" % (rng,))
    name = (rng.name or "") if isinstance(rng, Agg) else ""
    vals = [ex.scalar_of(state, f) for f in rng.fields]
    if "RangeTo" in name and len(vals) == 1:
        bad = vals[0] > n
    elif "RangeFrom" in name and len(vals) == 1:
        bad = vals[0] > n
    elif len(vals) == 2:
        bad = z3.Or(vals[1] > n, vals[0] > vals[1]) if any(z3.is_expr(x) for x in vals + [n]) else (vals[1] > n or vals[0] > vals[1])
    else:
        raise Inconclusive("string index with %r" % (rng,))
    if isinstance(bad, bool) or z3.is_expr(bad):
        if not _panic_fork(ex, state, frame, bad, "%s out of range" % normalize_callee(callee)):
            return "done"
    return _ret(ex, state, frame, dest, Opaque(("call", normalize_callee(callee), (ex.summ(state, args[0])[:80],)), "&str"), ret_block)


def _panic_fork(ex, state, frame, cond_bad, what):
    """the callee panics iff cond_bad (python bool or z3 bool). Records the solver's verdict, finishes the panic path if it is feasible and
    constrains the state to the surviving side; -> False if nothing survives"""
    site = "%s in %s" % (what, ex.qual.get(frame.fn.name, frame.fn.name))
    if isinstance(cond_bad, bool):
        if cond_bad:
            ex.panic_checks.append((site, "sat"))
            ex.finish(state, "panic", site)
            return False
        return True
    bad_feasible = ex.feasible(state, cond_bad)
    ex.panic_checks.append((site, "sat" if bad_feasible else "unsat"))
    if bad_feasible:
        s2 = state.clone()
        s2.pc.append(cond_bad)
        ex.finish(s2, "panic", site)
    ok = z3.Not(cond_bad)
    if not ex.feasible(state, ok):
        return False
    state.pc.append(ok)
    return True


@model("Option::unwrap", "Option::expect")
def m_option_unwrap(ex, state, frame, dest, args, ret_block, work, callee):
    v = _val(ex, state, args[0])
    if isinstance(v, Agg) and v.kind == "adt" and v.name == "Option":
        if v.variant != "Some":
            ex.panic_checks.append(("%s on None in %s" % (normalize_callee(callee), ex.qual.get(frame.fn.name, frame.fn.name)), "sat"))
            ex.finish(state, "panic", "%s on None in %s" % (normalize_callee(callee), ex.qual.get(frame.fn.name, frame.fn.name)))
            return "done"
        return _ret(ex, state, frame, dest, v.fields[0], ret_block)
    ity = inner_ty(v.ty) if isinstance(v, (Sym, Opaque)) else None
    if isinstance(v, Sym):
        v = Sym(v.path, "Option<?>")
    elif isinstance(v, Opaque):
        v = Opaque(v.origin, "Option<?>")
    else:
        raise Inconclusive("unwrap on %r" % (v,))
    if not _panic_fork(ex, state, frame, _is_variant(ex, state, v, ["None", "Some"], "None"), normalize_callee(callee) + " on None"):
        return "done"
    inner = Sym(v.path + (("as", "Some"), 0), ity) if isinstance(v, Sym) else Opaque(("some-of", v.origin), ity)
    return _ret(ex, state, frame, dest, inner, ret_block)


@model("Result::unwrap", "Result::expect")
def m_result_unwrap(ex, state, frame, dest, args, ret_block, work, callee):
    v = _val(ex, state, args[0])
    if isinstance(v, Agg) and v.kind == "adt" and v.name == "Result":
        if v.variant != "Ok":
            ex.panic_checks.append(("%s on Err in %s" % (normalize_callee(callee), ex.qual.get(frame.fn.name, frame.fn.name)), "sat"))
            ex.finish(state, "panic", "%s on Err in %s" % (normalize_callee(callee), ex.qual.get(frame.fn.name, frame.fn.name)))
            return "done"
        return _ret(ex, state, frame, dest, v.fields[0] if v.fields else Agg("tuple", None, None, []), ret_block)
    if isinstance(v, Sym):
        v = Sym(v.path, "Result<?,?>")
    elif isinstance(v, Opaque):
        v = Opaque(v.origin, "Result<?,?>")
    else:
        raise Inconclusive("unwrap on %r" % (v,))
    if not _panic_fork(ex, state, frame, _is_variant(ex, state, v, ["Ok", "Err"], "Err"), normalize_callee(callee) + " on Err"):
        return "done"
    inner = Sym(v.path + (("as", "Ok"), 0)) if isinstance(v, Sym) else Opaque(("ok-of", v.origin), None)
    return _ret(ex, state, frame, dest, inner, ret_block)


@model("Index::Vec::index", "Index::Punctuated::index")
def m_index(ex, state, frame, dest, args, ret_block, work, callee):
    v = _val(ex, state, args[0])
    i = args[1]
    if ex.check_panics:
        if not isinstance(i, int):
            raise Inconclusive("index with a symbolic position in %s" % frame.fn.name)
        n = ex.length(state, args[0])
        bad = (i >= n) if isinstance(n, int) else (n <= i)
        if not _panic_fork(ex, state, frame, bad, "%s[%d] out of bounds" % (normalize_callee(callee), i)):
            return "done"
    if isinstance(v, VecL) and isinstance(i, int) and i < len(v.items):
        return _ret(ex, state, frame, dest, v.items[i], ret_block)
    if isinstance(v, Sym) and isinstance(i, int):
        return _ret(ex, state, frame, dest, Sym(v.path + (("idx", i),), elem_ty(v.ty)), ret_block)
    return _ret(ex, state, frame, dest, Opaque(("index",), None), ret_block)


@model("HashMap::get")
def m_hashmap_get(ex, state, frame, dest, args, ret_block, work, callee):
    m = _val(ex, state, args[0])
    key = ex.summ(state, args[1])
    if isinstance(m, Sym):
        return _ret(ex, state, frame, dest, Sym(m.path + (("key", key),), "Option<&DeriveEntry>"), ret_block)
    return _ret(ex, state, frame, dest, Opaque(("hashmap-get", key), "Option<?>"), ret_block)


@model("PartialEq::str::eq", "str::eq", "PartialEq::&str::eq")
def m_str_eq(ex, state, frame, dest, args, ret_block, work, callee):
    a, b = _val(ex, state, args[0]), _val(ex, state, args[1])
    if isinstance(a, Agg) and a.kind == "str" and isinstance(b, Agg) and b.kind == "str":
        return _ret(ex, state, frame, dest, a.extra == b.extra, ret_block)
    sa = a.extra if isinstance(a, Agg) and a.kind == "str" else ex.summ(state, a)
    sb = b.extra if isinstance(b, Agg) and b.kind == "str" else ex.summ(state, b)
    return _ret(ex, state, frame, dest, ex.bvar("streq(%s,%s)" % (sa, sb)), ret_block)


@model("str::strip_suffix", "str::strip_prefix")
def m_strip(ex, state, frame, dest, args, ret_block, work, callee):
    a, b = _val(ex, state, args[0]), _val(ex, state, args[1])
    if isinstance(a, Agg) and a.kind == "str" and isinstance(b, Agg) and b.kind == "str":
        suffix = normalize_callee(callee).endswith("strip_suffix")
        if (a.extra.endswith(b.extra) if suffix else a.extra.startswith(b.extra)):
            rest = a.extra[:len(a.extra) - len(b.extra)] if suffix else a.extra[len(b.extra):]
            return _ret(ex, state, frame, dest, Agg("adt", "Option", "Some", [Agg("str", None, None, [], extra=rest)]), ret_block)
        return _ret(ex, state, frame, dest, Agg("adt", "Option", "None", []), ret_block)
    return _ret(ex, state, frame, dest, Opaque(("call", "str::strip", ()), "Option<&str>"), ret_block)


@model("Option::or_else", "Option::or")
def m_or_else(ex, state, frame, dest, args, ret_block, work, callee):
    v = _val(ex, state, args[0])
    lazy = normalize_callee(callee).endswith("or_else")

    def other(st):
        if not lazy:
            return [(st.pc, st.mem, _val(ex, st, args[1]), [])]
        return ex.eval_closure_all(st, args[1], [])
    if isinstance(v, Agg) and v.kind == "adt" and v.name == "Option":
        alts = [(state.clone(), v)] if v.variant == "Some" else None
        if alts is None:
            alts = []
            for pc, mem, val, evs in other(state):
                st2 = state.clone()
                st2.pc, st2.mem, st2.events = list(pc), dict(mem), st2.events + list(evs)
                alts.append((st2, val))
    elif isinstance(v, Sym):
        d = ex.discriminant(state, Sym(v.path, "Option<?>"), None)
        alts = []
        if ex.feasible(state, d == 1):
            st = state.clone()
            st.pc.append(d == 1)
            alts.append((st, Agg("adt", "Option", "Some", [Sym(v.path + (("as", "Some"), 0), inner_ty(v.ty))])))
        if ex.feasible(state, d == 0):
            st = state.clone()
            st.pc.append(d == 0)
            for pc, mem, val, evs in other(st):
                st2 = st.clone()
                st2.pc, st2.mem, st2.events = list(pc), dict(mem), st2.events + list(evs)
                alts.append((st2, val))
    else:
        raise Inconclusive("or_else on %r" % (v,))
    if not alts:
        raise Inconclusive("or_else: no feasible alternative")
    for st, val in alts:
        fr = st.frames[-1]
        ex.write_place(st, fr, dest, val)
        fr.block = ret_block
        work.append(st)
    return "done"


@model("Option::and_then", "Option::map")
def m_and_then(ex, state, frame, dest, args, ret_block, work, callee):
    v = _val(ex, state, args[0])
    is_map = normalize_callee(callee).endswith("map")
    if isinstance(v, Agg) and v.kind == "adt" and v.name == "Option":
        if v.variant == "None":
            return _ret(ex, state, frame, dest, Agg("adt", "Option", "None", []), ret_block)
        if is_map:
            alts = ex.eval_closure_all(state, args[1], [v.fields[0]])
            for pc, mem, val, evs in alts:
                st2 = state.clone()
                st2.pc = list(pc)
                st2.mem = dict(mem)
                st2.events = st2.events + list(evs)
                fr = st2.frames[-1]
                ex.write_place(st2, fr, dest, Agg("adt", "Option", "Some", [val]))
                fr.block = ret_block
                work.append(st2)
            return "done"
        ex.call_closure(state, frame, args[1], [Agg("tuple", None, None, [v.fields[0]])] if False else [v.fields[0]], dest, ret_block)
        return "cont"
    if isinstance(v, Sym):
        d = ex.discriminant(state, Sym(v.path, "Option<?>"), None)
        feas = [(i, d == i) for i in (0, 1) if ex.feasible(state, d == i)]
        ex.stats["forks"] += len(feas) - 1
        for i, c in feas:
            st = state.clone()
            st.pc.append(c)
            fr = st.frames[-1]
            if i == 0:
                ex.write_place(st, fr, dest, Agg("adt", "Option", "None", []))
                fr.block = ret_block
                work.append(st)
                continue
            inner = Sym(v.path + (("as", "Some"), 0), inner_ty(v.ty))
            if not is_map:
                ex.call_closure(st, fr, args[1], [inner], dest, ret_block)
                work.append(st)
                continue
            try:
                alts = ex.eval_closure_all(st, args[1], [inner])
            except Inconclusive:
                alts = None
            if alts is None:
                # a mapping function the executor does not evaluate (a fn item, a closure over locals): the value is opaque, the variant is known
                ex.write_place(st, fr, dest, Agg("adt", "Option", "Some", [Opaque(("map", pstr(v.path)), None)]))
                fr.block = ret_block
                work.append(st)
                continue
            for pc, mem, val, evs in alts:
                st2 = st.clone()
                st2.pc = list(pc)
                st2.mem = dict(mem)
                st2.events = st2.events + list(evs)
                fr2 = st2.frames[-1]
                ex.write_place(st2, fr2, dest, Agg("adt", "Option", "Some", [val]))
                fr2.block = ret_block
                work.append(st2)
        return "done"
    raise Inconclusive("and_then on %r" % (v,))
