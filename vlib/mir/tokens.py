"""Token streams as values: replays the traced `quote!` runtime calls of one path (`Executor.unique_streams`, every call traced) and
renders what each stream contains - literal identifiers and punctuation as written in the macro's source, interpolated values as `<summary>`."""
import re

from .streams import sid

PUNCT = {"add": "+", "add_eq": "+=", "and": "&", "and_and": "&&", "and_eq": "&=", "at": "@", "bang": "!", "caret": "^", "caret_eq": "^=", "colon": ":", "colon2": "::",
         "comma": ",", "div": "/", "div_eq": "/=", "dot": ".", "dot2": "..", "dot3": "...", "dot_dot_eq": "..=", "eq": "=", "eq_eq": "==", "ge": ">=", "gt": ">", "le": "<=",
         "lt": "<", "mul_eq": "*=", "ne": "!=", "or": "|", "or_eq": "|=", "or_or": "||", "pound": "#", "question": "?", "rarrow": "->", "larrow": "<-", "rem": "%", "rem_eq": "%=",
         "fat_arrow": "=>", "semi": ";", "shl": "<<", "shl_eq": "<<=", "shr": ">>", "shr_eq": ">>=", "star": "*", "sub": "-", "sub_eq": "-=", "underscore": "_"}
DELIM = {"Parenthesis": ("(", ")"), "Brace": ("{", "}"), "Bracket": ("[", "]"), "None": ("", "")}


class Unknown(Exception):
    pass


def render(events):
    """-> dict stream id -> list of tokens (strings). Raises Unknown on a token-producing call it has no rule for."""
    st = {}

    def get(i):
        return st.setdefault(i, [])

    def content(summary):
        i = sid(summary)
        if i is not None and summary.startswith("opaque:TokenStream::new("):
            return list(get(i))
        return ["<%s>" % summary]

    for name, args in events:
        m = re.match(r"^__private::push_(\w+?)(_spanned)?$", name)
        if m and m.group(1) in PUNCT:
            get(sid(args[0])).append(PUNCT[m.group(1)])
        elif m and m.group(1) in ("ident", "lifetime"):
            get(sid(args[0])).append(args[-1][4:] if args[-1].startswith("str:") else "<%s>" % args[-1])
        elif m and m.group(1) == "group":
            d = re.search(r"agg:(\w+)\(\)", " ".join(args[1:-1]))
            o, c = DELIM.get(d.group(1) if d else "?", ("<?", "?>"))
            get(sid(args[0])).extend(([o] if o else []) + content(args[-1]) + ([c] if c else []))
        elif name == "__private::parse" or name == "__private::parse_spanned":
            get(sid(args[0])).append(args[-1][4:] if args[-1].startswith("str:") else "<%s>" % args[-1])
        elif name == "Extend::TokenStream::extend":
            get(sid(args[0])).extend(content(args[1]))
        elif re.match(r"^ToTokens::[\w&]+::to_tokens$", name) and len(args) >= 2 and sid(args[1]):
            get(sid(args[1])).extend(content(args[0]))
        elif name.startswith("__private::push_"):
            raise Unknown(name)
    return st


def text(tokens):
    return " ".join(tokens)
