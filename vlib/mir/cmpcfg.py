"""Configuration atoms of comparison helper attributes, reference formulas (DESIGN.md Appendix A) and
model -> concrete item conversion for native replay. Shared by the E3 checks C05, C17, C04, C03, C01(E3)."""
import z3

ATTRS = ["ord", "partial_ord", "eq", "partial_eq", "hash"]
TRAITS = ["Ord", "PartialOrd", "Eq", "PartialEq", "Hash"]
TRAIT_INDEX = {"Ord": 0, "PartialOrd": 1, "Eq": 2, "PartialEq": 3, "Hash": 4}
BODY_FN = {"Ord": "build_ord_body", "PartialOrd": "build_partial_ord_body", "Eq": "build_eq_body", "PartialEq": "build_partial_eq_body",
           "Hash": "build_hash_body"}
PREC = {"PartialEq": ["partial_eq", "eq", "partial_ord", "ord"], "PartialOrd": ["partial_ord", "ord"], "Ord": ["ord"], "Eq": ["eq", "ord"],
        "Hash": ["hash", "eq", "ord"]}
IGNORE_SRC = {"Ord": ["ord"], "PartialOrd": ["partial_ord", "ord"], "Eq": ["eq", "ord"], "PartialEq": ["partial_eq", "eq", "partial_ord", "ord"],
              "Hash": ["hash", "eq", "ord"]}


class FieldAtoms:
    """z3 atoms of one field's comparison attributes; `base` is the executor's path of the FieldEntry"""

    def __init__(self, ex, base):
        self.ex, self.base = ex, base

    def _disc(self, suffix):
        return self.ex.ivar("disc(%s.hattrs.cmp.%s)" % (self.base, suffix), 0, 1) == 1

    def ignore(self, a):
        return self._disc("%s.ignore.span" % a)

    def reverse(self, a):
        return self._disc("%s.reverse.span" % a)

    def by(self, a):
        return self._disc("%s.by" % a)

    def key(self, a):
        return self._disc("%s.key" % a)

    def bounds_default(self, a):
        return self.ex.bvar("%s.hattrs.cmp.%s.bounds.default" % (self.base, a))

    # ---- reference rules ------------------------------------------------------------------
    def ignored(self, t):
        return z3.Or([self.ignore(a) for a in IGNORE_SRC[t]])

    def has_comparator(self, t):
        c = []
        for a in PREC[t]:
            if t == "Hash" and a != "hash":
                c.append(self.key(a))
            else:
                c += [self.by(a), self.key(a)]
        return z3.Or(c)

    def any_custom(self):
        return z3.Or([f(a) for a in ATTRS for f in (self.by, self.key)])

    def rejects(self, t):
        """A.4"""
        parts = []
        if t in ("Ord", "PartialOrd", "Eq"):
            parts.append(z3.Or([self.ignore(a) for a in ("ord", "partial_ord", "eq", "partial_eq")]))
        if t == "Hash":
            parts.append(z3.Or(self.ignore("partial_eq"), self.ignore("partial_ord")))
        parts.append(z3.And(z3.Not(self.has_comparator(t)), self.any_custom()))
        if t == "Ord":
            parts.append(self.reverse("partial_ord"))
        return z3.And(z3.Not(self.ignored(t)), z3.Or(parts))

    def comparator_is(self, t, attr, how):
        """the comparator source selected for trait t is (attr, how) by the precedence rule A.2"""
        prior = []
        for a in PREC[t]:
            opts = ["key"] if (t == "Hash" and a != "hash") else ["by", "key"]
            for h in opts:
                cur = self.by(a) if h == "by" else self.key(a)
                if a == attr and h == how:
                    return z3.And([z3.Not(p) for p in prior] + [cur])
                prior.append(cur)
        raise ValueError((t, attr, how))

    def default_comparator(self, t):
        return z3.Not(self.has_comparator(t))

    def reversed(self, t):
        if t == "PartialOrd":
            return z3.Or(self.reverse("partial_ord"), self.reverse("ord"))
        if t == "Ord":
            return self.reverse("ord")
        return z3.BoolVal(False)

    # ---- model -> attributes ----------------------------------------------------------------
    def attrs_from_model(self, model, with_bounds=True, marker=None):
        out = []
        for a in ATTRS:
            args = []
            if z3.is_true(model.eval(self.ignore(a), model_completion=True)):
                args.append("ignore")
            if z3.is_true(model.eval(self.reverse(a), model_completion=True)):
                args.append("reverse")
            if z3.is_true(model.eval(self.by(a), model_completion=True)):
                args.append("by = f_%s" % a)
            if z3.is_true(model.eval(self.key(a), model_completion=True)):
                args.append("key = $.k_%s()" % a)
            if with_bounds and z3.is_false(model.eval(self.bounds_default(a), model_completion=True)):
                args.append("bound(%s)" % (marker(a) if marker else ""))
            if args:
                out.append("#[%s(%s)]" % (a, ", ".join(args)))
        return out


def concrete_attrs(cfg):
    """cfg: dict attr -> set of {'ignore','reverse','by','key'}  ->  attribute strings"""
    out = []
    for a in ATTRS:
        s = cfg.get(a)
        if s:
            args = []
            for k in ("ignore", "reverse"):
                if k in s:
                    args.append(k)
            if "by" in s:
                args.append("by = f_%s" % a)
            if "key" in s:
                args.append("key = $.k_%s()" % a)
            out.append("#[%s(%s)]" % (a, ", ".join(args)))
    return out


def assignment(fa, cfg):
    """z3 constraints fixing the atoms of FieldAtoms `fa` to the concrete cfg"""
    cs = []
    for a in ATTRS:
        s = cfg.get(a, ())
        for k, f in (("ignore", fa.ignore), ("reverse", fa.reverse), ("by", fa.by), ("key", fa.key)):
            cs.append(f(a) if k in s else z3.Not(f(a)))
    return cs
