"""E3 driver: dump + parse the MIR of /repo's current tree, run functions symbolically."""
import os
import shutil
import time

from .. import common
from . import parse, exec as mx


class Engine:
    def __init__(self, opaque_local=(), trace=(), slice_bound=2, overflow_checks=False):
        t0 = time.time()
        sl = common.slot()
        scratch = sl.dir("mir-ovf" if overflow_checks else "mir")
        self.mir_text = parse.dump_mir(common.REPO, scratch, overflow_checks=overflow_checks)
        self.dump_s = time.time() - t0
        self.fns = parse.parse_mir(self.mir_text)
        self.ti = mx.TypeInfo(common.REPO)
        self.opaque_local = set(opaque_local)
        self.trace = set(trace)
        self.slice_bound = slice_bound

    def find(self, short):
        """function by short name (`is_ignore`, `build_eq_body::{closure#0}`, `HelperAttributeForCompareOp::verify`)"""
        out = []
        ex = self.executor()
        for name, fl in self.fns.items():
            if name.startswith("const "):
                continue
            for f in fl:
                if ex.qual.get(name) == short or name == short:
                    out.append(f)
        if not out:
            raise mx.Inconclusive("function %s not found in the MIR dump" % short)
        # promoted / shim duplicates: take the one with a body
        out = [f for f in out if f.blocks]
        return out[0]

    def executor(self, **kw):
        return mx.Executor(self.fns, self.ti, opaque_local=kw.get("opaque_local", self.opaque_local), trace=kw.get("trace", self.trace),
                           slice_bound=kw.get("slice_bound", self.slice_bound))

    def args_for(self, fn, names=None, overrides=None):
        """symbolic arguments: Sym rooted at the parameter's debug name (or argN)"""
        import re
        dbg = {}
        for m in re.finditer(r"debug (\w+) => _(\d+);", fn.text):
            dbg.setdefault(int(m.group(2)), m.group(1))
        vals = []
        for n, ty in fn.params:
            nm = (names or {}).get(n) or dbg.get(n) or "arg%d" % n
            if overrides and n in overrides:
                vals.append(overrides[n])
            else:
                vals.append(mx.Sym((nm,), ty))
        return vals


def closure_env(fn):
    """symbolic environment of a closure body: one named Sym per capture (names and types from the debug info)"""
    import re
    caps = {}
    for m in re.finditer(r"debug (\w+) => \(\*\(\(\*_1\)\.(\d+): ([^;]*)\)\);", fn.text):
        caps[int(m.group(2))] = (m.group(1), m.group(3).strip())
    for m in re.finditer(r"debug (\w+) => \(\(\*_1\)\.(\d+): ([^;]*)\);", fn.text):
        caps.setdefault(int(m.group(2)), (m.group(1), m.group(3).strip()))
    n = max(caps) + 1 if caps else 0
    sig = re.search(r"\{closure@[^}]*\}", fn.params[0][1]).group(0)
    fields = []
    for i in range(n):
        nm, ty = caps.get(i, ("cap%d" % i, None))
        fields.append(mx.Sym((nm,), ty))
    return mx.Agg("closure", sig, None, fields)
