"""Token streams as objects: with `Executor.unique_streams` every `TokenStream::new()` has an identity; the traced token-appending calls then give a
data-flow graph between streams (what was appended into what), in which "this piece ends up in the returned stream" is reachability."""
import re

FLOW_CALLS = ("ToTokens::TokenStream::to_tokens", "ToTokens::RepInterp::to_tokens", "__private::push_group", "__private::push_group_spanned",
              "Extend::TokenStream::extend", "ToTokens::Option::to_tokens")
SID = re.compile(r"TokenStream::new\((#\d+)\)")


def sid(s):
    m = SID.search(s or "")
    return m.group(1) if m else None


def flows(events):
    """-> list of (source summary, destination stream id) in event order"""
    out = []
    for name, args in events:
        if name not in FLOW_CALLS or len(args) < 2:
            continue
        if name.startswith("__private::push_group"):
            dst, src = sid(args[0]), args[-1]
        else:
            src, dst = args[0], sid(args[1])
        if name == "Extend::TokenStream::extend":
            dst, src = sid(args[0]), args[1]
        if dst:
            out.append((src, dst))
    return out


def reach_set(events, target):
    """ids of all streams whose content ends up (transitively) in stream `target`; plus the non-stream sources appended on the way"""
    fl = flows(events)
    ids, srcs = {target}, []
    changed = True
    while changed:
        changed = False
        for src, dst in fl:
            if dst in ids:
                s = sid(src)
                if s and s not in ids:
                    ids.add(s)
                    changed = True
    for src, dst in fl:
        if dst in ids and not sid(src):
            srcs.append((src, dst))
    return ids, srcs
