"""./check <PROPERTY> [quick|thorough]   (tier may also come from VERIF_TIER)"""
import importlib
import os
import sys
import traceback


def main():
    if len(sys.argv) < 2:
        print(__doc__)
        return 2
    pid = sys.argv[1].upper()
    tier = sys.argv[2] if len(sys.argv) > 2 else os.environ.get("VERIF_TIER", "quick")
    if tier not in ("quick", "thorough"):
        tier = "quick"
    # wall-clock budget of one symbolic run of the MIR executor (a part that exceeds it is INCONCLUSIVE, never a verdict): shorter in the quick tier, where every
    # run of the unchanged tree takes well under a minute - a change to /repo that makes a run explode (e.g. a newly recursive helper) then costs minutes, not hours
    os.environ.setdefault("VERIF_E3_RUN_BUDGET", "120" if tier == "quick" else "600")
    try:
        mod = importlib.import_module("vlib." + pid.lower())
    except ModuleNotFoundError:
        print("no check for", pid)
        return 2
    try:
        return mod.run(tier)
    except Exception:
        traceback.print_exc()
        print("BROKEN-CHECK property=%s internal error" % pid)
        return 2


if __name__ == "__main__":
    sys.exit(main())
