"""C09 — operators derived from a user-written impl forward to it faithfully (E1)."""
import random
import time

from . import common, e1, kani_runner, e3_extras

PID = "C09"
OPS = [("Add", "add", 1), ("BitAnd", "bitand", 2), ("BitOr", "bitor", 3), ("BitXor", "bitxor", 4), ("Div", "div", 5),
       ("Mul", "mul", 6), ("Rem", "rem", 7), ("Shl", "shl", 8), ("Shr", "shr", 9), ("Sub", "sub", 10)]

TYPES = """#[derive(Debug, PartialEq)]
pub struct A(pub u8);
impl Clone for A {
    fn clone(&self) -> A {
        trace_push(OP_CLONE, self.0, 0xA);
        A(self.0)
    }
}
"""
TYPE_B = """#[derive(Debug, PartialEq)]
pub struct B(pub u8);
impl Clone for B {
    fn clone(&self) -> B {
        trace_push(OP_CLONE, self.0, 0xB);
        B(self.0)
    }
}
"""
HELPERS = """/// the trace is: the expected clones (any order), then exactly one call of the user's impl
fn trace_ok(code: u8, xa: u8, yb: u8, cl_l: bool, cl_r: bool, tag_r: u8) -> bool {
    let n = (cl_l as usize) + (cl_r as usize);
    if trace_len() != n + 1 {
        return false;
    }
    if trace_at(n) != (Ev { op: code, a: xa, b: yb }) {
        return false;
    }
    let el = Ev { op: OP_CLONE, a: xa, b: 0xA };
    let er = Ev { op: OP_CLONE, a: yb, b: tag_r };
    match (cl_l, cl_r) {
        (false, false) => true,
        (true, false) => trace_at(0) == el,
        (false, true) => trace_at(0) == er,
        (true, true) => (trace_at(0) == el && trace_at(1) == er) || (trace_at(0) == er && trace_at(1) == el),
    }
}
"""


def ty(name, is_ref):
    return ("&" if is_ref else "") + name


def build(name, op, base, rhs_self, requested, generic=False, spell_self=False):
    """base = ('bin', lref, rref) or ('assign', rref)"""
    tr, fn, code = op
    rname = "A" if rhs_self else "B"
    tag_r = "0xA" if rhs_self else "0xB"
    req = ", ".join(requested)
    desc = "op=%s base=%s rhs=%s requested=%s" % (tr, "/".join(str(x) for x in base), rname, "+".join(requested))
    sig = "%s|%s|%s|%s" % (tr, "-".join(str(int(x)) if isinstance(x, bool) else x for x in base), rname + ("(spelled Self)" if spell_self else ""), "+".join(requested))
    desc += " spelled-Self=%s" % spell_self
    src = e1.HEADER.format(pid=PID, name=name, desc=desc)
    src += TYPES + ("" if rhs_self else TYPE_B) + HELPERS + "\n"
    body = []
    if base[0] == "bin":
        _, bl, br = base
        rtxt = ty(rname, br)
        if spell_self:
            rtxt = {(False, False): "Self", (False, True): "&Self", (True, True): "Self"}[(bl, br)]
        src += "#[derive_ex(%s)]\nimpl core::ops::%s<%s> for %s {\n    type Output = A;\n    fn %s(self, rhs: %s) -> A {\n        trace_push(%d, self.0, rhs.0);\n        A(wop(%d, self.0, rhs.0))\n    }\n}\n\n" % (
            req, tr, rtxt, ty("A", bl), fn, rtxt, code, code)
        body += ["    let xa = s.u8();", "    let yb = s.u8();", "    let want = wop(%d, xa, yb);" % code]
        if tr in requested:
            for l in (False, True):
                for r in (False, True):
                    tagn = "%s-%s" % ("ref" if l else "val", "ref" if r else "val")
                    cl_l = l and not bl
                    cl_r = r and not br
                    body += ["    {", "        let x = A(xa);", "        let y = %s(yb);" % rname, "        trace_reset();",
                             "        let r: A = core::ops::%s::%s(%sx, %sy);" % (tr, fn, "&" if l else "", "&" if r else ""),
                             '        assert!(r.0 == want, "%s-value");' % tagn,
                             '        assert!(trace_ok(%d, xa, yb, %s, %s, %s), "%s-calls-and-clones");' % (code, str(cl_l).lower(), str(cl_r).lower(), tag_r, tagn)]
                    if l or r:
                        conds = (["x.0 == xa"] if l else []) + (["y.0 == yb"] if r else [])
                        body += ['        assert!(%s, "%s-borrowed-operands-unchanged");' % (" && ".join(conds), tagn)]
                    body += ["    }"]
        if tr + "Assign" in requested:
            if tr in requested:
                forms = [(False,), (True,)]  # rhs by value and by reference, both through the `&T op rhs` form
            else:
                forms = [(br,)]
            for (r,) in forms:
                tagn = "assign-%s" % ("ref" if r else "val")
                cl_l = not bl  # `&mut self` is needed by value iff the user's impl takes self by value
                cl_r = r and not br
                body += ["    {", "        let mut x = A(xa);", "        let y = %s(yb);" % rname, "        trace_reset();",
                         "        core::ops::%sAssign::%s_assign(&mut x, %sy);" % (tr, fn, "&" if r else ""),
                         '        assert!(x.0 == want, "%s-value");' % tagn,
                         '        assert!(trace_ok(%d, xa, yb, %s, %s, %s), "%s-calls-and-clones");' % (code, str(cl_l).lower(), str(cl_r).lower(), tag_r, tagn)]
                if r:
                    body += ['        assert!(y.0 == yb, "%s-borrowed-operand-unchanged");' % tagn]
                body += ["    }"]
    else:
        _, br = base
        rtxt = ty(rname, br)
        if spell_self:
            rtxt = "&Self" if br else "Self"
        src += "#[derive_ex(%s)]\nimpl core::ops::%sAssign<%s> for A {\n    fn %s_assign(&mut self, rhs: %s) {\n        trace_push(%d, self.0, rhs.0);\n        self.0 = wop(%d, self.0, rhs.0);\n    }\n}\n\n" % (
            req, tr, rtxt, fn, rtxt, code, code)
        body += ["    let xa = s.u8();", "    let yb = s.u8();", "    let want = wop(%d, xa, yb);" % code,
                 "    {", "        let x = A(xa);", "        let y = %s(yb);" % rname, "        trace_reset();",
                 "        let r: A = core::ops::%s::%s(x, %sy);" % (tr, fn, "&" if br else ""),
                 '        assert!(r.0 == want, "op-from-assign-value");',
                 '        assert!(trace_ok(%d, xa, yb, false, false, %s), "op-from-assign-calls-and-clones");' % (code, tag_r)]
        if br:
            body += ['        assert!(y.0 == yb, "op-from-assign-borrowed-operand-unchanged");']
        body += ["    }"]
    src += "pub fn check<S: Src>(s: &mut S) {\n%s\n}\n\n" % "\n".join(body) + e1.harness(unwind=6)
    return kani_runner.Program(name, src, sig, desc, nontrivial=True)


GENERIC = """#[derive(Debug, PartialEq)]
pub struct G<T>(pub T, pub u8);
impl<T: Clone> Clone for G<T> {
    fn clone(&self) -> Self {
        trace_push(OP_CLONE, self.1, 0xA);
        G(self.0.clone(), self.1)
    }
}
pub trait Tr {}
impl Tr for u8 {}

#[derive_ex(%(req)s)]
impl<T: Tr> core::ops::%(tr)s%(rhs)s for %(self)s
where
    %(wsized)s: Sized,
    %(wself)s: Clone,
    T: Clone,
{
    type Output = %(out)s;
    fn %(fn)s(self, rhs: %(rhsty)s) -> Self::Output {
        trace_push(%(code)d, self.1, rhs.1);
        G(self.0.clone(), wop(%(code)d, self.1, rhs.1))
    }
}

fn ok(code: u8, xa: u8, yb: u8, clones: usize) -> bool {
    // `clones` recorded clones of operands, then exactly one call of the user's impl
    if trace_len() != clones + 1 || trace_at(clones) != (Ev { op: code, a: xa, b: yb }) {
        return false;
    }
    let mut i = 0;
    while i < clones {
        let e = trace_at(i);
        if e.op != OP_CLONE || !(e.a == xa || e.a == yb) {
            return false;
        }
        i += 1;
    }
    true
}

pub fn check<S: Src>(s: &mut S) {
    let xa = s.u8();
    let yb = s.u8();
    let t = s.u8();
    let want = wop(%(code)d, xa, yb);
%(body)s
}

"""


def build_generic(name, op, bl, br, requested, self_in_output, self_where_on_ref=False):
    tr, fn, code = op
    req = ", ".join(requested)
    if not bl and not br:
        rhs, rhsty, selfty = "", "Self", "G<T>"  # Rhs defaults to Self
    else:
        rhs = "<%sG<T>>" % ("&" if br else "")
        rhsty = "%sG<T>" % ("&" if br else "")
        selfty = "%sG<T>" % ("&" if bl else "")
    out = "Self" if (self_in_output and not bl) else "G<T>"
    body = []
    if tr in requested:
        for l in (False, True):
            for r in (False, True):
                n = int(l and not bl) + int(r and not br)
                tagn = "generic-%s-%s" % ("ref" if l else "val", "ref" if r else "val")
                body += ["    {", "        let x = G(t, xa);", "        let y = G(t, yb);", "        trace_reset();",
                         "        let r: G<u8> = core::ops::%s::%s(%sx, %sy);" % (tr, fn, "&" if l else "", "&" if r else ""),
                         '        assert!(r.1 == want && r.0 == t, "%s-value");' % tagn,
                         '        assert!(ok(%d, xa, yb, %d), "%s-calls-and-clones");' % (code, n, tagn), "    }"]
    if tr + "Assign" in requested:
        forms = [False, True] if tr in requested else [br]
        for r in forms:
            n = int(not bl) + int(r and not br)
            tagn = "generic-assign-%s" % ("ref" if r else "val")
            body += ["    {", "        let mut x = G(t, xa);", "        let y = G(t, yb);", "        trace_reset();",
                     "        core::ops::%sAssign::%s_assign(&mut x, %sy);" % (tr, fn, "&" if r else ""),
                     '        assert!(x.1 == want && x.0 == t, "%s-value");' % tagn,
                     '        assert!(ok(%d, xa, yb, %d), "%s-calls-and-clones");' % (code, n, tagn), "    }"]
    desc = "generic op=%s base=%s/%s requested=%s Self-in-Output=%s" % (tr, bl, br, "+".join(requested), self_in_output)
    src = e1.HEADER.format(pid=PID, name=name, desc=desc)
    src += GENERIC % dict(req=req, tr=tr, rhs=rhs, self=selfty, wself="Self" if not bl else "G<T>", wsized="Self" if (not bl or self_where_on_ref) else "G<T>", out=out, fn=fn, rhsty=rhsty, code=code, body="\n".join(body))
    src += e1.harness(unwind=6)
    sig = "generic|%s|%d%d|%s|%s" % (tr, bl, br, "+".join(requested), self_in_output)
    if self_where_on_ref:
        sig = "generic|Self-in-where-clause-of-base-impl-on-&T"
    return kani_runner.Program(name, src, sig, desc, True)


GENERIC_ASSIGN = """#[derive(Debug, PartialEq)]
pub struct G<T>(pub T, pub u8);
pub trait Tr {}
impl Tr for u8 {}
pub trait Marker {}
impl Marker for G<u8> {}

#[derive_ex(%(tr)s)]
impl<T> core::ops::%(tr)sAssign%(rhs)s for G<T>
where
    T: Tr,
    Self: Marker,
{
    fn %(fn)s_assign(&mut self, rhs: %(rhsty)s) {
        trace_push(%(code)d, self.1, rhs.1);
        self.1 = wop(%(code)d, self.1, rhs.1);
    }
}

fn needs_where<X: core::ops::%(tr)s<%(rhsuse)s, Output = X>>() {}

pub fn check<S: Src>(s: &mut S) {
    let (xa, yb, t) = (s.u8(), s.u8(), s.u8());
    needs_where::<G<u8>>();
    let x = G(t, xa);
    let y = G(t, yb);
    trace_reset();
    let r: G<u8> = core::ops::%(tr)s::%(fn)s(x, %(amp)sy);
    assert!(r.1 == wop(%(code)d, xa, yb) && r.0 == t, "generic-op-from-assign-value");
    assert!(trace_len() == 1 && trace_at(0) == (Ev { op: %(code)d, a: xa, b: yb }), "generic-op-from-assign-calls");
}

"""


def build_generic_assign(name, op, br):
    tr, fn, code = op
    desc = "generic op=%s from impl %sAssign<%sG<T>> with where-clause (Self: Marker)" % (tr, tr, "&" if br else "")
    src = e1.HEADER.format(pid=PID, name=name, desc=desc)
    src += GENERIC_ASSIGN % dict(tr=tr, fn=fn, code=code, rhs="<&G<T>>" if br else "", rhsty="&G<T>" if br else "Self", rhsuse="&'static G<u8>" if br else "G<u8>", amp="&" if br else "")
    src += e1.harness(unwind=6)
    return kani_runner.Program(name, src, "generic-assign-base|%s|%d" % (tr, br), desc, True)


SPECIAL = {
    # a reference with a named lifetime is an ordinary operand type, not the `&T` base form: the derived forms are `&A + &'a B`, `A + &&'a B`, `&A + &&'a B`
    "named-lifetime-rhs": ("Add", """
#[derive(Clone)]
pub struct A1(pub u8);
pub struct B1(pub u8);
pub struct J<'a>(pub u8, pub &'a B1);
#[derive_ex(Add)]
impl<'a> core::ops::Add<&'a B1> for A1 {
    type Output = J<'a>;
    fn add(self, rhs: &'a B1) -> J<'a> { J(wop(1, self.0, rhs.0), rhs) }
}
pub fn check<S: Src>(s: &mut S) {
    let (a, b) = (s.u8(), s.u8());
    let bb = B1(b);
    let x = A1(a);
    let r = &x + &bb;
    assert!(r.0 == wop(1, a, b) && core::ptr::eq(r.1, &bb), "ref-lhs");
    let rb = &bb;
    let r2 = &x + &rb;
    assert!(r2.0 == wop(1, a, b) && core::ptr::eq(r2.1, &bb), "ref-ref");
    let r3 = x + &rb;
    assert!(r3.0 == wop(1, a, b) && core::ptr::eq(r3.1, &bb) && bb.0 == b, "val-ref");
}
"""),
    # `Self` nested in the generic arguments of Output and of a where-clause predicate: in the forms for `&G` it still means `G`
    "self-nested-in-output": ("Add", """
#[derive(Clone, PartialEq, Debug)]
pub struct G(pub u8);
#[derive_ex(Add)]
impl core::ops::Add for G where Option<Self>: Clone, (Self, u8): Sized {
    type Output = Result<Self, Option<Self>>;
    fn add(self, rhs: Self) -> Result<Self, Option<Self>> { if self.0 & 1 == 0 { Ok(G(wop(1, self.0, rhs.0))) } else { Err(Some(rhs)) } }
}
pub fn check<S: Src>(s: &mut S) {
    let (a, b) = (s.u8(), s.u8());
    let want = G(a) + G(b);
    let (x, y) = (G(a), G(b));
    assert!(&x + &y == want, "ref-ref");
    assert!(&x + G(b) == want, "ref-val");
    assert!(G(a) + &y == want, "val-ref");
    assert!(x.0 == a && y.0 == b, "operands-unchanged");
}
"""),
    # the associated type may be written anywhere among the items of the base impl
    "output-after-method": ("Add", """
#[derive(Clone, PartialEq, Debug)]
pub struct G(pub u8);
pub const UNRELATED: u8 = 0;
#[derive_ex(Add, AddAssign)]
impl core::ops::Add<&G> for G {
    fn add(self, rhs: &G) -> G { G(wop(1, self.0, rhs.0)) }
    type Output = G;
}
pub fn check<S: Src>(s: &mut S) {
    let (a, b) = (s.u8(), s.u8());
    let (x, y) = (G(a), G(b));
    let want = G(wop(1, a, b));
    assert!(G(a) + G(b) == want && &x + &y == want && &x + G(b) == want, "forms");
    let mut z = G(a);
    z += &y;
    assert!(z == want && y.0 == b, "assign-ref");
}
"""),
    "self-nested-in-output-of-ref-base": ("Sub", """
#[derive(Clone, PartialEq, Debug)]
pub struct G(pub u8);
#[derive_ex(Sub, SubAssign)]
impl core::ops::Sub<&G> for &G where Option<G>: Clone {
    type Output = G;
    fn sub(self, rhs: &G) -> G { G(wop(2, self.0, rhs.0)) }
}
pub fn check<S: Src>(s: &mut S) {
    let (a, b) = (s.u8(), s.u8());
    let (x, y) = (G(a), G(b));
    let want = &x - &y;
    assert!(G(a) - G(b) == want && G(a) - &y == want && &x - G(b) == want, "forms");
    let mut z = G(a);
    z -= &y;
    assert!(z == want, "assign-ref");
    let mut z = G(a);
    z -= G(b);
    assert!(z == want && y.0 == b, "assign-val");
}
"""),
}


def build_special(name, key):
    tr, body = SPECIAL[key]
    desc = "special base impl: %s" % key
    src = e1.HEADER.format(pid=PID, name=name, desc=desc) + body + "\n" + e1.harness()
    return kani_runner.Program(name, src, "special|%s" % key, desc, nontrivial=True)


def run(tier):
    t0 = time.time()
    rnd = random.Random(common.seed())
    configs = []
    for bl in (False, True):
        for br in (False, True):
            for rhs_self in (True, False):
                for req in (["{}"], ["{}Assign"], ["{}", "{}Assign"]):
                    configs.append((("bin", bl, br), rhs_self, req))
                if rhs_self:
                    configs.append((("bin", bl, br), rhs_self, ["{}Assign", "{}"]))  # the order in which the two are requested does not matter
    for br in (False, True):
        for rhs_self in (True, False):
            configs.append((("assign", br), rhs_self, ["{}"]))
    cands = []
    if tier == "thorough":
        for op in OPS:
            for c in configs:
                cands.append((op, c))
    else:
        for c in configs:
            cands.append((OPS[9], c))
        for op in OPS[:9]:
            for c in rnd.sample(configs, 3):
                cands.append((op, c))
    progs = []
    gops = OPS if tier == "thorough" else [OPS[9], OPS[rnd.randrange(9)]]
    for op, (base, rhs_self, req) in cands:
        progs.append(build("p%05d" % len(progs), op, base, rhs_self, [r.format(op[0]) for r in req]))
    # the Rhs argument written as `Self` / `&Self`
    sops = OPS if tier == "thorough" else [OPS[9], OPS[rnd.randrange(9)]]
    for op in sops:
        for base in (("bin", False, False), ("bin", False, True), ("bin", True, True), ("assign", False), ("assign", True)):
            for req in ((["{}"], ["{}Assign"], ["{}", "{}Assign"]) if base[0] == "bin" else (["{}"],)):
                progs.append(build("p%05d" % len(progs), op, base, True, [r.format(op[0]) for r in req], spell_self=True))
    for op in gops:
        for br in (False, True):
            progs.append(build_generic_assign("p%05d" % len(progs), op, br))
    # known limitation probe: `Self` in the where-clause of a base impl on `&T`
    progs.append(build_generic("p%05d" % len(progs), OPS[9], True, True, ["Sub"], True, self_where_on_ref=True))
    for op in gops:
        for bl, br in ((False, False), (True, True), (False, True), (True, False)):
            for req in (["{}"], ["{}", "{}Assign"], ["{}Assign"]):
                progs.append(build_generic("p%05d" % len(progs), op, bl, br, [r.format(op[0]) for r in req], True))
    for key in SPECIAL:
        progs.append(build_special("p%05d" % len(progs), key))
    out = common.Outcome(PID)
    extra = e3_extras.summary(e3_extras.safe(e3_extras.c09_kernels, out))
    return e1.finish(
        PID, tier, progs, t0, outcome=out, extra=extra,
        rule="one Kani harness per (operator, base impl form, Rhs = Self | other type, requested set): operand payloads symbolic; every generated form is called; "
             "value, number/kind of clones and the single call of the user's impl are asserted; distinct by op|base|rhs|requested",
        bounds="10 operators x 4 base forms x Rhs in {Self, B} x {Op},{OpAssign},{Op,OpAssign},{OpAssign,Op}, base impl OpAssign<Rhs|&Rhs> with {Op}; generic G<T> with `Self` in Output "
               "and where-clause and Rhs defaulting to Self; user body non-commutative and call-recording; Clone of operand types records",
        outside="base impls on `&mut T`; `Self` in the where-clause of a base impl on `&T` (an anonymous lifetime cannot be carried over); Output types other than the Self type for the OpAssign forms; order of the two clones (not stated)",
        functions=["every impl generated by derive_ex on an `impl Op<..> for ..` item (item_impl path)"])
